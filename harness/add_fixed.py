#!/venv/bin/python
"""add_fixed.py <property> <id> <commit> <what>  — record a repaired defect in KNOWN_FINDINGS.json (lead only).
If an entry with that id exists (written by an engineer with a patch path), it gets kind=fixed and the commit."""
import sys, json, os
prop, fid, commit, what = sys.argv[1:5]
p = os.path.join(os.path.dirname(os.path.dirname(os.path.abspath(__file__))), "KNOWN_FINDINGS.json")
doc = json.load(open(p))
for e in doc["findings"]:
    if e["id"] == fid and e["property"] == prop:
        e["kind"] = "fixed"; e["commit"] = commit
        if what: e["what"] = what
        break
else:
    doc["findings"].append({"kind": "fixed", "property": prop, "id": fid, "commit": commit, "what": what})
json.dump(doc, open(p, "w"), indent=1)
