#!/venv/bin/python
"""apply_fix.py <patch> <message>   (lead only)
Apply one fix patch to /repo, run the pinned suite unedited, and commit it as `fix: <message>` if all
stable tests still pass. Prints the commit hash. Leaves /repo clean on failure."""
import sys, os, json, subprocess
patch, msg = sys.argv[1], sys.argv[2]
base = json.load(open("/root/.vp/BASELINE.json"))
stable = set(base["stable_pass"])
def run(cmd, **kw):
    return subprocess.run(cmd, stdout=subprocess.PIPE, stderr=subprocess.STDOUT, text=True, **kw)
st = run(["git", "-C", "/repo", "status", "--porcelain"]).stdout.strip()
if st:
    sys.exit("repo not clean:\n" + st)
a = run(["git", "-C", "/repo", "apply", "--index", os.path.abspath(patch)])
if a.returncode:
    sys.exit("patch does not apply: " + a.stdout)
if "--no-test" not in sys.argv:
    sys.path.insert(0, os.path.dirname(os.path.abspath(__file__)))
    import pinned
    missing = pinned.lost_tests("/repo")
    if missing:
        run(["git", "-C", "/repo", "reset", "--hard", "-q"])
        sys.exit("pinned tests lost: %s" % sorted(missing))
run(["git", "-C", "/repo", "status", "--porcelain"])
c = run(["git", "-C", "/repo", "commit", "-q", "-m", "fix: " + msg])
if c.returncode:
    sys.exit("commit failed: " + c.stdout)
print(run(["git", "-C", "/repo", "rev-parse", "--short", "HEAD"]).stdout.strip())
