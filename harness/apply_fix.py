#!/venv/bin/python
"""apply_fix.py <patch> <message>   (lead only)
Apply one fix patch to /repo, run the pinned suite unedited, and commit it as `fix: <message>` if all
stable tests still pass. Prints the commit hash. Leaves /repo clean on failure."""
import sys, os, json, subprocess
patch, msg = sys.argv[1], sys.argv[2]
base = json.load(open("/root/.vp/BASELINE.json"))
stable = set(base["stable_pass"])
def run(cmd, **kw):
    return subprocess.run(cmd, stdout=subprocess.PIPE, stderr=subprocess.STDOUT, text=True, **kw)
st = run(["git", "-C", "/repo", "status", "--porcelain"]).stdout.strip()
if st:
    sys.exit("repo not clean:\n" + st)
a = run(["git", "-C", "/repo", "apply", "--index", os.path.abspath(patch)])
if a.returncode:
    sys.exit("patch does not apply: " + a.stdout)
x = "/tmp/fix-junit-%d.xml" % os.getpid()
if "--no-test" not in sys.argv:
    run(["/venv/bin/python", "-m", "pytest", "-q", "-p", "no:cacheprovider", "--timeout=900",
         "--continue-on-collection-errors", "--junitxml=" + x], cwd="/repo")
    import xml.etree.ElementTree as ET
    ok = set()
    for tc in ET.parse(x).getroot().iter("testcase"):
        if not any(c.tag in ("failure", "error", "skipped") for c in tc):
            ok.add("%s::%s" % (tc.get("classname"), tc.get("name")))
    os.remove(x)
    missing = stable - ok
    if missing:
        run(["git", "-C", "/repo", "reset", "--hard", "-q"])
        sys.exit("pinned tests lost: %s" % sorted(missing))
run(["git", "-C", "/repo", "status", "--porcelain"])
c = run(["git", "-C", "/repo", "commit", "-q", "-m", "fix: " + msg])
if c.returncode:
    sys.exit("commit failed: " + c.stdout)
print(run(["git", "-C", "/repo", "rev-parse", "--short", "HEAD"]).stdout.strip())
