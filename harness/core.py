"""
Core of the verification harness: the four-stage check of DESIGN.md §2.2.

  stage A  obligations     lake build of the property's Lean modules + driver, axiom audit, token grep
  stage B  correspondence  corpus + generated cases: Lean model (driver) output == implementation output,
                           and the property oracle evaluated on the implementation for every case
  stage C  known findings  replay the recorded witnesses on the implementation
  stage D  search          if A or B failed (always in the thorough tier): look for a failing input

A property check is a subclass of `Check` in harness/props/cNN.py.
Exit status: 0 pass, 1 violation (a line `VIOLATION property=.. replay=..`), 2 infrastructure.
"""
import sys, os, json, time, random, subprocess, hashlib, re, fcntl, traceback, glob, contextlib

VERIF = os.path.dirname(os.path.dirname(os.path.abspath(__file__)))
REPO = os.environ.get("IOFLO_REPO", "/repo")
LEAN = os.path.join(VERIF, "lean")
BIN = os.path.join(LEAN, ".lake", "build", "bin")
AUDIT = os.path.join(BIN, "audit")
EVIDENCE = os.environ.get("VERIF_EVIDENCE_DIR") or os.path.join(VERIF, "evidence")
REPLAYS = os.path.join(VERIF, "replays")
SCRATCH = os.path.join(VERIF, ".scratch")
ALLOWED_AXIOMS = {"propext", "Classical.choice", "Quot.sound"}
FORBIDDEN = re.compile(r"\bsorry\b|\badmit\b|^\s*axiom\s|native_decide|bv_decide|implemented_by|\bunsafe\s|maxHeartbeats\s+0\b|@\[extern")

import warnings
warnings.filterwarnings("ignore", category=SyntaxWarning)
os.environ["IOFLO_VERIF"] = "1"          # hook guard (MANIFEST.hooks.guard)
if REPO not in sys.path:
    sys.path.insert(0, REPO)


class Infra(Exception):
    """infrastructure failure: exit 2, never a verdict"""


class HarnessTimeout(BaseException):
    """wall-clock limit; deliberately NOT an OSError/Exception (Builder.build swallows IOError)"""


def import_ioflo():
    """import ioflo from /repo's working tree, muted console"""
    import collections.abc  # noqa  (harmless; D1 is fixed in /repo, kept for replays on old trees)
    import ioflo  # noqa
    from ioflo.aid import consoling
    consoling.getConsole(verbosity=consoling.Console.Wordage.mute)
    return ioflo


# --------------------------------------------------------------------------- lean side

@contextlib.contextmanager
def lake_lock():
    os.makedirs(os.path.join(LEAN, ".lake"), exist_ok=True)
    with open(os.path.join(LEAN, ".lake", "verif.lock"), "w") as f:
        fcntl.flock(f, fcntl.LOCK_EX)
        try:
            yield
        finally:
            fcntl.flock(f, fcntl.LOCK_UN)


def sh(cmd, cwd=None, timeout=3600, input=None):
    p = subprocess.run(cmd, cwd=cwd, stdout=subprocess.PIPE, stderr=subprocess.STDOUT,
                       text=True, timeout=timeout, input=input)
    return p.returncode, p.stdout


def lake_build(targets, clean_modules=()):
    """build targets; returns (ok, log)"""
    with lake_lock():
        for m in clean_modules:
            base = os.path.join(LEAN, ".lake", "build", "lib", "lean", *m.split("."))
            for ext in (".olean", ".ilean", ".trace", ".olean.hash", ".ilean.hash"):
                with contextlib.suppress(FileNotFoundError):
                    os.remove(base + ext)
        rc, out = sh(["lake", "build"] + list(targets), cwd=LEAN)
    return rc == 0, out


def local_closure(module):
    """source files of `module` and of every IofloModel module it imports (transitively)"""
    seen, todo, files = set(), [module], []
    while todo:
        m = todo.pop()
        if m in seen:
            continue
        seen.add(m)
        path = os.path.join(LEAN, *m.split(".")) + ".lean"
        if not os.path.exists(path):
            continue
        files.append(path)
        with open(path) as f:
            for line in f:
                mm = re.match(r"\s*(?:public\s+)?import\s+(IofloModel[\w.]*)", line)
                if mm:
                    todo.append(mm.group(1))
    return files


def strip_comments(src):
    src = re.sub(r"/-.*?-/", lambda m: "\n" * m.group(0).count("\n"), src, flags=re.S)
    src = re.sub(r"--.*", "", src)
    # string literals may legitimately contain the words
    src = re.sub(r'"(?:[^"\\]|\\.)*"', '""', src)
    return src


def grep_forbidden(module):
    hits = []
    for path in local_closure(module):
        for n, line in enumerate(strip_comments(open(path).read()).split("\n"), 1):
            if FORBIDDEN.search(line):
                hits.append("%s:%d: %s" % (os.path.relpath(path, VERIF), n, line.strip()))
    return hits


def audit(modules):
    """[(module, theorem, [axioms])] from the compiled .olean files"""
    rc, out = sh(["lake", "env", AUDIT] + list(modules), cwd=LEAN)
    thms = []
    for line in out.splitlines():
        if line.startswith("THEOREM "):
            parts = line.split()
            i = parts.index("AXIOMS")
            thms.append((parts[1], parts[2], parts[i + 1:]))
    if rc != 0 and not thms:
        raise Infra("audit failed: " + out[-2000:])
    return thms, rc, out


class Driver:
    """one driver process per engine; batch request/reply"""

    def __init__(self, engine):
        self.engine = engine

    def run(self, lines):
        if not lines:
            return []
        for l in lines:
            if "\n" in l:
                raise Infra("newline inside request line: %r" % l)
        p = subprocess.run([os.path.join(BIN, "drv-" + self.engine)], input="\n".join(lines) + "\n",
                           stdout=subprocess.PIPE, stderr=subprocess.PIPE, text=True, timeout=3600)
        if p.returncode != 0:
            raise Infra("driver %s failed rc=%s: %s" % (self.engine, p.returncode, p.stderr[-2000:]))
        out = p.stdout.split("\n")
        if out and out[-1] == "":
            out.pop()
        if len(out) != len(lines):
            raise Infra("driver %s: %d requests, %d replies" % (self.engine, len(lines), len(out)))
        return out


# --------------------------------------------------------------------------- check base class

class Check:
    PROPERTY = "C00"
    LEAN_MODULES = []          # property theorem modules, e.g. ["IofloModel.Props.C41"]
    GENERATED = False          # True: stage A first calls self.translate() (regenerates Lean data from /repo)
    ENGINE = None              # driver engine name
    TRUSTED = []               # trusted-base strings for the evidence
    PARTIAL = []               # names of _partial theorems / runtime behaviour outside the model
    RULE = ""                  # how cases are generated, what makes one non-trivial
    N_QUICK = 300
    N_THOROUGH = 20000
    N_SEARCH = 2000

    # ---- to override
    def corpus(self):
        return load_corpus(self.PROPERTY)

    def generate(self, rng, n, tier):
        """yield n cases (dicts); every random choice from rng"""
        return []

    def exhaustive(self, tier):
        """bounded-exhaustive cases (thorough tier, and small ones in quick)"""
        return []

    def impl(self, case):
        """run the real code; return list of canonical output lines"""
        raise NotImplementedError

    def requests(self, case):
        """lines for the driver"""
        return case["lines"]

    def model_post(self, case, replies):
        return replies

    def oracle(self, case, impl_out):
        """direct statement of the property on the implementation's behaviour, independent of the
        model. None = holds, else a string naming the failed clause."""
        return None

    def nontrivial(self, case, impl_out):
        return True

    def bucket(self, case, impl_out):
        return "all"

    def region(self, finding, case):
        """does `case` lie in the region of the known finding (dict from KNOWN_FINDINGS.json)?"""
        return False

    def search(self, rng, n, tier):
        return self.generate(rng, n, tier)

    def shrink_candidates(self, case):
        """smaller variants of a failing case"""
        lines = case.get("lines")
        if not isinstance(lines, list):
            return
        for i in range(len(lines)):
            c = dict(case)
            c["lines"] = lines[:i] + lines[i + 1:]
            yield c

    def translate(self):
        """for GENERATED checks: rewrite lean/IofloModel/Generated/*.lean from /repo"""

    def extra_evidence(self):
        return {}

    # ---- helpers
    def safe_impl(self, case):
        try:
            return list(self.impl(case))
        except HarnessTimeout:
            raise
        except Exception as ex:  # the adapter itself must map expected errors; this is a harness gap
            return ["HARNESS-EXC %s: %s" % (type(ex).__name__, str(ex)[:200])]

    def model(self, cases):
        """model outputs for a list of cases, one driver process"""
        reqs, spans = [], []
        for c in cases:
            r = list(self.requests(c))
            spans.append((len(reqs), len(r)))
            reqs.extend(r)
        replies = Driver(self.ENGINE).run(reqs) if self.ENGINE else []
        return [list(self.model_post(c, replies[a:a + n])) for c, (a, n) in zip(cases, spans)]


def load_corpus(prop):
    out = []
    for path in sorted(glob.glob(os.path.join(VERIF, "harness", "corpus", prop, "*.json"))):
        with open(path) as f:
            c = json.load(f)
        c.setdefault("origin", "corpus:" + os.path.basename(path))
        out.append(c)
    return out


def load_findings(prop):
    path = os.path.join(VERIF, "KNOWN_FINDINGS.json")
    if not os.path.exists(path):
        return []
    with open(path) as f:
        return [e for e in json.load(f)["findings"] if e["property"] == prop]


def case_key(case):
    c = {k: v for k, v in case.items() if k != "origin"}
    return hashlib.sha1(json.dumps(c, sort_keys=True).encode()).hexdigest()


# --------------------------------------------------------------------------- the run

def stage_A(chk, tier, ev):
    broken = []
    t0 = time.time()
    if chk.GENERATED:
        chk.translate()
    targets = list(chk.LEAN_MODULES) + ["audit"] + (["drv-" + chk.ENGINE] if chk.ENGINE else [])
    clean = chk.LEAN_MODULES if tier == "thorough" else ()
    ok, log = lake_build(targets, clean_modules=clean)
    cmd = "cd lean && lake build " + " ".join(targets)
    if not ok:
        errs = [l for l in log.splitlines() if "error" in l][:20]
        broken.append({"kind": "build", "what": cmd, "errors": errs})
    thms, n_obl, n_ok, axioms_seen = [], 0, 0, set()
    if ok and chk.LEAN_MODULES:
        thms, rc, out = audit(chk.LEAN_MODULES)
        cmd += " && lake env .lake/build/bin/audit " + " ".join(chk.LEAN_MODULES)
        prefix = chk.PROPERTY + "_"
        for mod, name, axs in thms:
            last = name.split(".")[-1]
            if ".eq_" in name or ".match_" in name or last.startswith("eq_") or "._" in name:
                continue
            axioms_seen.update(axs)
            good = set(axs) <= ALLOWED_AXIOMS
            if last.startswith(prefix):
                n_obl += 1
                n_ok += good
            if not good:
                broken.append({"kind": "axioms", "theorem": name, "axioms": axs})
        if n_obl == 0:
            broken.append({"kind": "no-theorems", "what": "no %s* theorem in %s" % (prefix, chk.LEAN_MODULES)})
        for m in chk.LEAN_MODULES:
            hits = grep_forbidden(m)
            if hits:
                broken.append({"kind": "forbidden-token", "hits": hits})
        if tier == "thorough":
            with lake_lock():
                rc, out = sh(["lake", "env", "leanchecker"] + list(chk.LEAN_MODULES), cwd=LEAN, timeout=3600)
            cmd += " && lake env leanchecker " + " ".join(chk.LEAN_MODULES)
            ev["leanchecker_rc"] = rc
            if rc != 0:
                broken.append({"kind": "leanchecker", "out": out[-1500:]})
    ev["obligations"] = n_obl
    ev["discharged"] = n_ok if not [b for b in broken if b["kind"] in ("build", "forbidden-token", "leanchecker")] else 0
    ev["checker_cmd"] = cmd
    ev["theorems"] = sorted(n for _, n, _ in thms if n.split(".")[-1].startswith(chk.PROPERTY + "_"))
    ev["axioms_seen"] = sorted(axioms_seen)
    ev["stage_A_s"] = round(time.time() - t0, 2)
    return broken


def evaluate(chk, cases, ev, findings, stats):
    """stage B body for a batch: returns (disagreements, failures, known_hits)"""
    impl_outs = [chk.safe_impl(c) for c in cases]
    model_outs = chk.model(cases)
    disagreements, failures, known = [], [], []
    for c, io, mo in zip(cases, impl_outs, model_outs):
        stats["evaluations"] += 1
        agree = (io == mo)
        if agree:
            stats["agree"] += 1
        b = chk.bucket(c, io)
        stats["buckets"][b] = stats["buckets"].get(b, 0) + 1
        if chk.nontrivial(c, io):
            stats["nontrivial"].add(case_key(c))
        if len(stats["samples"]) < 5 and (chk.nontrivial(c, io) or stats["evaluations"] > 50):
            stats["samples"].append({"case": c, "implementation": io[:12], "model": mo[:12]})
        why = chk.oracle(c, io)
        if why is not None:
            hit = None
            for f in findings:
                if f.get("kind") == "known" and agree and chk.region(f, c):
                    hit = f
                    break
            if hit is not None:
                known.append((hit, c))
            else:
                failures.append({"case": c, "implementation": io, "model": mo, "oracle": why})
        elif not agree:
            disagreements.append({"case": c, "implementation": io, "model": mo})
    return disagreements, failures, known


def shrink(chk, item, budget=300, findings=()):
    """greedy shrink of a failing case, keeping `oracle` failing and outside known regions"""
    known = [f for f in findings if f.get("kind") == "known"]
    best = item
    n0 = len(json.dumps(item["case"]))
    improved = True
    while improved and budget > 0:
        improved = False
        for cand in chk.shrink_candidates(best["case"]):
            budget -= 1
            if budget <= 0:
                break
            io = chk.safe_impl(cand)
            why = chk.oracle(cand, io)
            if why is not None and any(chk.region(f, cand) for f in known):
                continue   # do not walk a new failure into the region of a recorded finding
            if why is not None:
                best = {"case": cand, "implementation": io, "model": None, "oracle": why}
                improved = True
                break
    if best is not item:
        try:
            best["model"] = chk.model([best["case"]])[0]
        except Exception:
            best["model"] = None
    best["shrunk_from"] = n0
    return best


def write_replay(chk, tier, seed, verdict, item, broken):
    os.makedirs(REPLAYS, exist_ok=True)
    path = os.path.join("replays", "%s-%s-%d.json" % (chk.PROPERTY, tier, seed))
    doc = {"property": chk.PROPERTY, "engine": chk.ENGINE, "seed": seed, "tier": tier, "verdict": verdict,
           "broken": broken}
    if item:
        doc.update({"case": item["case"], "implementation": item.get("implementation"),
                    "model": item.get("model"), "oracle": item.get("oracle"),
                    "shrunk_from": item.get("shrunk_from")})
    with open(os.path.join(VERIF, path), "w") as f:
        json.dump(doc, f, indent=1, default=str)
    return path


def write_evidence(chk, tier, seed, ev, stats, t0, violations, known_lines, assumptions=None):
    os.makedirs(EVIDENCE, exist_ok=True)
    cov = {
        "obligations": ev.get("obligations", 0),
        "discharged": ev.get("discharged", 0),
        "checker_cmd": ev.get("checker_cmd", ""),
        "trusted_base": ["Lean 4.33.0 kernel", "axioms seen: " + ", ".join(ev.get("axioms_seen", []))] + list(chk.TRUSTED),
        "theorems": ev.get("theorems", []),
        "evaluations": stats["evaluations"],
        "distinct_nontrivial": len(stats["nontrivial"]),
        "rule": chk.RULE,
        "samples": stats["samples"] or [{"note": "no case evaluated"}],
        "traces_validated_against_impl": stats["agree"],
        "disagreements": stats["evaluations"] - stats["agree"],
        "input_distribution": stats["buckets"],
        "exhaustive": bool(stats.get("exhaustive")),
        "partial": list(chk.PARTIAL),
        "known_findings_reproduced": known_lines,
        "stage_A_seconds": ev.get("stage_A_s"),
        "broken": ev.get("broken", []),
    }
    if "leanchecker_rc" in ev:
        cov["leanchecker_rc"] = ev["leanchecker_rc"]
    cov.update(chk.extra_evidence() or {})
    doc = {"property_id": chk.PROPERTY, "tier": tier, "seed": seed, "level": "proof", "coverage": cov,
           "assumptions": list(chk.TRUSTED) + list(assumptions or []),
           "wall_s": round(time.time() - t0, 2), "violations": violations}
    with open(os.path.join(EVIDENCE, chk.PROPERTY + ".json"), "w") as f:
        json.dump(doc, f, indent=1, default=str)


def run_check(chk, tier, seed):
    t0 = time.time()
    rng = random.Random(seed)
    ev = {}
    stats = {"evaluations": 0, "agree": 0, "nontrivial": set(), "samples": [], "buckets": {}}
    findings = load_findings(chk.PROPERTY)
    import_ioflo()

    # ---- stage A
    broken = stage_A(chk, tier, ev)
    if chk.ENGINE and not os.path.exists(os.path.join(BIN, "drv-" + chk.ENGINE)):
        raise Infra("driver executable drv-%s missing after build" % chk.ENGINE)

    # ---- stage B
    n = chk.N_QUICK if tier == "quick" else chk.N_THOROUGH
    cases = list(chk.corpus())
    ex = list(chk.exhaustive(tier))
    if ex:
        stats["exhaustive"] = True
    cases += ex
    cases += list(chk.generate(rng, n, tier))
    disagreements, failures, known = [], [], []
    B = 2000
    for i in range(0, len(cases), B):
        d, f, k = evaluate(chk, cases[i:i + B], ev, findings, stats)
        disagreements += d
        failures += f
        known += k
    if disagreements:
        broken.append({"kind": "correspondence", "what": "model %s vs implementation" % chk.ENGINE,
                       "count": len(disagreements), "first": disagreements[0]})

    # ---- stage C
    known_lines = []
    seen_ids = set()
    for fnd in findings:
        if fnd.get("kind") != "known":
            continue
        w = fnd.get("witness")
        still = None
        if w is not None:
            io = chk.safe_impl(w)
            still = chk.oracle(w, io)
        if still is not None or any(h is fnd for h, _ in known):
            line = "KNOWN-FINDING: property=%s %s [%s]" % (chk.PROPERTY, fnd["what"], fnd["id"])
            print(line)
            known_lines.append(line)
            seen_ids.add(fnd["id"])

    # ---- stage D
    verdict_item = None
    if failures:
        verdict_item = failures[0]
    elif broken or tier == "thorough":
        m = chk.N_SEARCH if tier == "quick" else chk.N_SEARCH * 5
        pool = [d["case"] for d in disagreements] + list(chk.search(rng, m, tier))
        for i in range(0, len(pool), B):
            d, f, k = evaluate(chk, pool[i:i + B], ev, findings, stats)
            if f:
                verdict_item = f[0]
                break
            if d and not any(b["kind"] == "correspondence" for b in broken):
                broken.append({"kind": "correspondence", "what": "model %s vs implementation (search)" % chk.ENGINE,
                               "count": len(d), "first": d[0]})
    ev["broken"] = [{k: v for k, v in b.items() if k != "first"} for b in broken]

    rc = 0
    if verdict_item is not None:
        verdict_item = shrink(chk, verdict_item, findings=findings)
        path = write_replay(chk, tier, seed, "counterexample", verdict_item, ev["broken"])
        print("VIOLATION property=%s replay=%s" % (chk.PROPERTY, path))
        print("  oracle: %s" % verdict_item.get("oracle"))
        rc = 1
    elif broken:
        first = next((b.get("first") for b in broken if b.get("first")), None)
        path = write_replay(chk, tier, seed, "no-failing-input-found", first, ev["broken"])
        print("VIOLATION property=%s replay=%s no-failing-input-found" % (chk.PROPERTY, path))
        for b in ev["broken"]:
            print("  broken: %s" % json.dumps(b, default=str)[:400])
        rc = 1
    write_evidence(chk, tier, seed, ev, stats, t0, 1 if rc else 0, known_lines)
    if rc == 0:
        print("OK property=%s tier=%s seed=%d obligations=%d/%d cases=%d agree=%d nontrivial=%d wall=%.1fs" % (
            chk.PROPERTY, tier, seed, ev["discharged"], ev["obligations"], stats["evaluations"], stats["agree"],
            len(stats["nontrivial"]), time.time() - t0))
    return rc


def run_replay(chk, path):
    import_ioflo()
    with open(path if os.path.isabs(path) else os.path.join(VERIF, path)) as f:
        doc = json.load(f)
    if "case" not in doc:
        print("replay names no input (verdict %s); broken: %s" % (doc.get("verdict"), json.dumps(doc.get("broken"))[:1000]))
        # re-run the obligations to show whether they still break
        ev = {}
        broken = stage_A(chk, "quick", ev)
        print("stage A now: %s" % ("ok" if not broken else json.dumps(broken)[:1000]))
        return 1 if broken else 0
    case = doc["case"]
    io = chk.safe_impl(case)
    try:
        mo = chk.model([case])[0]
    except Exception as ex:
        mo = ["model unavailable: %s" % ex]
    why = chk.oracle(case, io)
    print("implementation:", json.dumps(io)[:2000])
    print("model:         ", json.dumps(mo)[:2000])
    print("oracle:        ", why)
    if why is not None:
        for fnd in load_findings(chk.PROPERTY):
            if fnd.get("kind") == "known" and io == mo and chk.region(fnd, case):
                print("KNOWN-FINDING: property=%s %s [%s]" % (chk.PROPERTY, fnd["what"], fnd["id"]))
                return 0
        print("VIOLATION property=%s replay=%s" % (chk.PROPERTY, path))
        return 1
    if io != mo:
        print("VIOLATION property=%s replay=%s no-failing-input-found" % (chk.PROPERTY, path))
        return 1
    print("replay passes: property holds on this input and model == implementation")
    return 0


def main(argv):
    import argparse, importlib
    ap = argparse.ArgumentParser()
    ap.add_argument("prop")
    ap.add_argument("--tier", default=os.environ.get("VERIF_TIER", "quick"), choices=["quick", "thorough"])
    ap.add_argument("--replay")
    a = ap.parse_args(argv)
    seed = int(os.environ.get("VERIF_SEED", "0") or 0)
    sys.path.insert(0, os.path.join(VERIF, "harness"))
    try:
        mod = importlib.import_module("props." + a.prop.lower())
        chk = mod.CHECK()
        if a.replay:
            return run_replay(chk, a.replay)
        return run_check(chk, a.tier, seed)
    except Infra as ex:
        print("INFRA: %s" % ex)
        return 2
    except HarnessTimeout as ex:
        print("INFRA: timeout %s" % ex)
        return 2
    except Exception:
        traceback.print_exc()
        return 2
