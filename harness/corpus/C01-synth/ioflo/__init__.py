"""synthetic tree"""
