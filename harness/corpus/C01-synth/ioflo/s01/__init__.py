from . import x
