from . import y
X = 1
