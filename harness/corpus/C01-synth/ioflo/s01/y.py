import ioflo.s01.x
Y = 2
