from .y import Y
X = 1
