from .x import X
Y = 1
