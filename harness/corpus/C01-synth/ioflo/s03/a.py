from . import b
x = 1
