from .a import x
