from . import c
n = 1
