from .a import *
