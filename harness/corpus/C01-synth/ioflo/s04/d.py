from . import c
from .c import n
