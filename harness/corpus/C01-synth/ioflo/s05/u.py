from .m import *
x = a + b
