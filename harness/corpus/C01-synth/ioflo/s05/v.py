from .m import *
y = d
