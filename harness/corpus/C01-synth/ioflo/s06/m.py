__all__ = ['zz']
