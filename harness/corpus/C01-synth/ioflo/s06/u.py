from .m import *
