try:
    import nosuchmod_xyz as j
except ImportError:
    import json as j
d = j.dumps
try:
    from itertools import izip
except ImportError:
    izip = zip
try:
    import json
except ImportError:
    json = None
else:
    ok = 1
finally:
    fin = 1
