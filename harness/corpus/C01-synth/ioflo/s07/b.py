try:
    import nosuchmod_xyz
except AttributeError:
    pass
