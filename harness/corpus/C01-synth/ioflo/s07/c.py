try:
    from json import nosuchname
except (ValueError, ImportError) as ex:
    got = 1
z = got
