a = 1
del a
b = a
