from .ns import mod
from .ns.mod import V
