from ..... import x
