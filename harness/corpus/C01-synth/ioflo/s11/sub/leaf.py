val = 3
