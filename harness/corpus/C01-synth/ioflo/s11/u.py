import ioflo.s11.sub.leaf as L
v = L.val
import os.path as p
q = p.join
