import ioflo.s12.pkg
v = ioflo.s12.pkg.leaf.val
