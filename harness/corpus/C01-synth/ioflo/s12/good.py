import ioflo.s12.pkg.leaf
v = ioflo.s12.pkg.leaf.val
