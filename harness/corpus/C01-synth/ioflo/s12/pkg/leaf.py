val = 3
