val = 3
