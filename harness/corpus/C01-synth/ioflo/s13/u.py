from .pkg import leaf
w_ = leaf.val
