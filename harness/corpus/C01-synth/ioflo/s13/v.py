from .pkg import nothing
