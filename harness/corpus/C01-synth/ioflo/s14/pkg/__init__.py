from . import good
