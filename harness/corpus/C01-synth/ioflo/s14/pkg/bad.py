import ioflo.s14.pkg.good
raise ValueError("boom")
