try:
    from .pkg import bad
except ValueError:
    bad = None
from .pkg import good
