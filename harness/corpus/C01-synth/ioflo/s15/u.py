from .pkg import bad
