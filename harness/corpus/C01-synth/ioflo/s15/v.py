try:
    from .pkg import bad
except ImportError:
    bad = 0
