import email
class K(object):
    P = email.parser
