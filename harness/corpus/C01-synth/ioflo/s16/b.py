import email.parser
