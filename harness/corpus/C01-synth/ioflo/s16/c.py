import collections
class A(collections.OrderedDict):
    x = len
    def f(self, y=collections.deque):
        return undefined_name
