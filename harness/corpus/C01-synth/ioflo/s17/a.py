import sys
if sys.version_info[0] >= 3:
    import json as J
else:
    import nosuch_py2
if __name__ == '__main__':
    import nosuch_main
if sys.platform == 'win32':
    import nosuch_win
else:
    W = 0
FLAG = False
if FLAG:
    import nosuch_flag
