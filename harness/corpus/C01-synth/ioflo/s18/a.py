import importlib
importlib.import_module('.leaf', package='ioflo.s18')
try:
    importlib.import_module('ioflo.s18.nosuch')
except ImportError:
    pass
for m in ['leaf']:
    importlib.import_module('.{0}'.format(m), package='ioflo.s18')
