from importlib import import_module
import_module('ioflo.s18.nosuch2')
