val = 1
