from .leaf import leaf
