def leaf():
    return 1
