from .pkg import leaf
r = leaf
