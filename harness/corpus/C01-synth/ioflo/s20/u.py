from .pkg import *
