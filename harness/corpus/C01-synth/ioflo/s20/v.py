import ioflo.s20.pkg.kid
from .pkg import *
z = kid
