_x = 1
__y__ = 2
z = 3
import os as _os
import sys
