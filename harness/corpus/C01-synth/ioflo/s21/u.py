from .m import *
a = z
b = sys.version
