from .m import *
c = _x
