import importlib
mods = ['leaf']
for i in range(2):
    k = i
for name in mods:
    importlib.import_module('ioflo.s22.' + name)
while False:
    never = 1
