import os
a, (b, c) = 1, (2, 3)
d: int = 4
e: int
f = [g for g in range(3)]
with open(os.devnull) as fh:
    h = 1
k = 0
k += 1
if (n := 5) > 3:
    pass
q = g if False else 0
