def deco(f):
    return f
@deco
def g(x=deco):
    return later
later = 1
