@undefined_deco
def g():
    pass
