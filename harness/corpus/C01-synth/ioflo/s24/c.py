def g(x=undefined_default):
    pass
