from . import kid
raise ImportError('pkg broken')
