try:
    import ioflo.s25.pkg
except ImportError:
    pass
import ioflo.s25.pkg.kid
