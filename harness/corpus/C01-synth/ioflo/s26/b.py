import json
x = json.decoder.JSONDecoder
y = json.nosuchattr
