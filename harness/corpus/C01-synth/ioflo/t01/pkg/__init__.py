kid = 5
