from .pkg import kid
v = kid
