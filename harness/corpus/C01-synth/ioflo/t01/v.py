import ioflo.t01.pkg.kid
from .pkg import kid
