import ioflo.t02.a
from . import a
x = 1
from .a import x
