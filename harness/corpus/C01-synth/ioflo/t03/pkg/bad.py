import json
raise KeyError("k")
