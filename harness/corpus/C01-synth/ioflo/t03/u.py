try:
    import ioflo.t03.pkg.bad
except KeyError:
    pass
try:
    import ioflo.t03.pkg.bad
except LookupError:
    second = 1
import ioflo.t03.pkg
