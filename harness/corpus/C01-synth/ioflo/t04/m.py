json = 5
os = 6
