__all__ = ['kid']
