import json
from .m import *
v = json
