from .pk import *
z = kid
