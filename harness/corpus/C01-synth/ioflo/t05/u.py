from .m import a
from .m import zz
