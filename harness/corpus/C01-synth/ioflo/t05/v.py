import ioflo.t05.m.sub
