try:
    x = 1
finally:
    y = 2
try:
    try:
        import nosuch_t06
    except AttributeError:
        z = 0
except ImportError as e:
    w_ = 1
q = w_
