try:
    import nosuch_t06b
except ImportError as e:
    saved = 1
r = e
