try:
    import json
except ImportError:
    pass
else:
    import nosuch_t06c
