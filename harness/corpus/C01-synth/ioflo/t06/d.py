try:
    import nosuch_t06d
except ImportError:
    import nosuch_t06e
