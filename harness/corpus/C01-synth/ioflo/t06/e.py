try:
    import nosuch_t06f
finally:
    fin = 1
