class K(object):
    import json
    os = 3
    v = os
    j = json.dumps
w_ = K
