class K(object):
    v = json
