import sys
import os.path
