from .six import *
v = sys.version
p = os.path.join
