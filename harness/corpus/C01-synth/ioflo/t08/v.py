from .six import *
v = sys.nosuch_attr
