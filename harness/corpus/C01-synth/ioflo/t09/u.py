from os.path import *
j = join
b = basename
