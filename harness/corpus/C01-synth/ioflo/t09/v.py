from json import *
d = dumps
e = JSONEncoder
f = decoder
