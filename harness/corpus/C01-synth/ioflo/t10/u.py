import ioflo.t10.m.deeper.x
