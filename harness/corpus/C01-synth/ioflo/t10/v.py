import json.decoder.x
