import xml
v = xml.dom
