import logging
v = logging.handlers
