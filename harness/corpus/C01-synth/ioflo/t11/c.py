import logging.handlers
