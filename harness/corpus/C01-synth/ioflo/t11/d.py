import concurrent.futures
v = concurrent.futures.Future
