import importlib
v = importlib.machinery
w_ = importlib.abc
