import os
v = os.path.sep
import urllib
w_ = urllib.parse.quote
x = urllib.request
