from . import p
from . import q
