from .. import q
P = q.Q
