Q = 1
from .. import p
