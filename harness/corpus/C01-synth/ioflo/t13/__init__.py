TOP = 1
