from ... import TOP
from ...a import b
from .... import t13
from ....t13.a.b import c
