import json
del json
import json
v = json.dumps
del json
w_ = json
