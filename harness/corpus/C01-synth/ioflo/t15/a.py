import os
if os.environ.get("NOPE_X"):
    def f():
        pass
else:
    g = 1
h = g
