import ioflo.t16.pkg.m
v = ioflo.t16.pkg.m.V
w_ = ioflo.t16.pkg.m.nosuch
