import ioflo.t16.pkg.m
x = ioflo.t16.u
