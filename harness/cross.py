#!/venv/bin/python
"""cross.py <seed-id> <Cnn> [<Cnn> ...] — which OTHER properties' quick checks fire on a seeded change (lead only).
Applies seeded/<id>/patch.diff to a scratch worktree of /repo HEAD and runs the named checks with IOFLO_REPO there."""
import sys, os, subprocess, shutil
sid, props = sys.argv[1], sys.argv[2:]
V = os.path.dirname(os.path.dirname(os.path.abspath(__file__)))
wt = "/tmp/cross-wt-%s-%d" % (sid, os.getpid())
def run(cmd, **kw):
    return subprocess.run(cmd, stdout=subprocess.PIPE, stderr=subprocess.STDOUT, text=True, **kw)
run(["git", "-C", "/repo", "worktree", "add", "--detach", wt, "HEAD"])
try:
    r = run(["git", "-C", wt, "apply", os.path.join(V, "seeded", sid, "patch.diff")])
    if r.returncode:
        sys.exit("patch does not apply: " + r.stdout)
    for p in props:
        env = dict(os.environ, IOFLO_REPO=wt, VERIF_SEED="0", VERIF_EVIDENCE_DIR=os.path.join(V, ".scratch", "seeded-evidence"))
        r = run(["/venv/bin/python", os.path.join(V, "harness", "vcheck.py"), p, "--tier", "quick"], cwd=V, env=env)
        viol = [l for l in r.stdout.splitlines() if l.startswith("VIOLATION")]
        print(sid, p, "rc=%d" % r.returncode, viol[:1] or r.stdout.splitlines()[-1:])
finally:
    run(["git", "-C", "/repo", "worktree", "remove", "--force", wt]); shutil.rmtree(wt, ignore_errors=True)
