"""Helpers shared by the checks C20, C11, C13 (agent flo-b): build a FloScript text with the REAL
Builder and run it with the REAL Skedder, observing through doify-registered deeds (no hooks in /repo).

  run_script(text, period, obs=callable(store, house), acts={tag: callable(store)})
      -> (built: bool, skedder)
FloScript side:  `do fb obs`  calls obs once per tick (put it in a framer that is last in the tick
order), `do fb act with tag "<tag>"` calls acts[tag].
"""
import os, signal, contextlib
import core

_ready = False
HOOKS = {"obs": None, "acts": {}, "house": None}


def setup():
    global _ready
    if _ready:
        return
    core.import_ioflo()
    from ioflo.base import doing

    @doing.doify('FbObs')
    def fbobs(self, **kw):
        HOOKS["obs"](self.store)

    @doing.doify('FbAct')
    def fbact(self, tag="", **kw):
        HOOKS["acts"][tag](self.store)
    _ready = True


@contextlib.contextmanager
def time_limit(seconds):
    def handler(signum, frame):
        raise core.HarnessTimeout("floscript run exceeded %ss" % seconds)
    old = signal.signal(signal.SIGALRM, handler)
    signal.alarm(seconds)
    try:
        yield
    finally:
        signal.alarm(0)
        signal.signal(signal.SIGALRM, old)


def scratch_path(name):
    d = os.path.join(core.SCRATCH, "flob-%d" % os.getpid())
    os.makedirs(d, exist_ok=True)
    return os.path.join(d, name)


def build(text, period, name="case.flo"):
    """-> skedder or None when the build fails (ParseError / ResolveError are reported by
    Builder.build as a False return)"""
    setup()
    from ioflo.base import skedding
    path = scratch_path(name)
    with open(path, "w") as f:
        f.write(text)
    sk = skedding.Skedder(name="verif", period=period, real=False, filepath=path)
    with time_limit(20):
        ok = sk.build()
    return sk if ok else None


def run(sk, obs=None, acts=None):
    HOOKS["obs"] = obs or (lambda store: None)
    HOOKS["acts"] = acts or {}
    with time_limit(60):
        sk.run()


def framer_of(sk, name):
    for house in sk.houses:
        for fr in house.framers:
            if fr.name == name:
                return fr
    return None
