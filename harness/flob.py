"""Helpers shared by the checks C20, C11, C13 (agent flo-b): build a FloScript text with the REAL
Builder and run it with the REAL Skedder, observing through doify-registered deeds (no hooks in /repo).

  run_script(text, period, obs=callable(store, house), acts={tag: callable(store)})
      -> (built: bool, skedder)
FloScript side:  `do fb obs`  calls obs once per tick (put it in a framer that is last in the tick
order), `do fb act with tag "<tag>"` calls acts[tag].
"""
import os, signal, contextlib
import core

_ready = False
HOOKS = {"obs": None, "acts": {}, "house": None}


def setup():
    global _ready
    if _ready:
        return
    core.import_ioflo()
    from ioflo.base import doing

    @doing.doify('FbObs')
    def fbobs(self, **kw):
        HOOKS["obs"](self.store)

    @doing.doify('FbAct')
    def fbact(self, tag="", **kw):
        HOOKS["acts"][tag](self.store)

    @doing.doify('FbEnt')
    def fbent(self, **kw):
        """`do fb ent` in the enter context of a frame: reports that this framer entered a frame now"""
        hook = HOOKS.get("ent")
        if hook:
            hook(self._act.frame.framer.name)

    @doing.doify('FbRef')
    def fbref(self, **kw):
        """a deed whose only purpose is to own ioinit shares (`do fb ref via … per …`)"""
    _ready = True


@contextlib.contextmanager
def time_limit(seconds):
    def handler(signum, frame):
        raise core.HarnessTimeout("floscript run exceeded %ss" % seconds)
    old = signal.signal(signal.SIGALRM, handler)
    signal.alarm(seconds)
    try:
        yield
    finally:
        signal.alarm(0)
        signal.signal(signal.SIGALRM, old)


_scratch_dir = [None]


def scratch_path(name):
    """a file under /verif/.scratch/flob-<pid>/, removed when the process exits"""
    if _scratch_dir[0] is None:
        import atexit, shutil
        d = os.path.join(core.SCRATCH, "flob-%d" % os.getpid())
        os.makedirs(d, exist_ok=True)
        _scratch_dir[0] = d
        atexit.register(shutil.rmtree, d, True)
    return os.path.join(_scratch_dir[0], name)


def build(text, period, name="case.flo", stamp=0.0):
    """-> skedder or None when the build fails (ParseError / ResolveError are reported by
    Builder.build as a False return)"""
    setup()
    from ioflo.base import skedding
    path = scratch_path(name)
    with open(path, "w") as f:
        f.write(text)
    from ioflo.base import excepting
    sk = skedding.Skedder(name="verif", period=period, stamp=stamp, real=False, filepath=path)
    HOOKS["build_error"] = None
    with time_limit(20):
        try:
            ok = sk.build()
            if not ok:
                HOOKS["build_error"] = "resolve"        # ResolveError is caught inside Builder.build
        except excepting.ParseError:
            ok = False                                 # ParseError is re-raised by Builder.build
            HOOKS["build_error"] = "parse"
        except Exception as ex:                        # anything else escaping Builder.build
            ok = False
            HOOKS["build_error"] = type(ex).__name__
    return sk if ok else None


def run(sk, obs=None, acts=None, nticks=None, ent=None):
    """run the skedder; after `nticks` calls of the observer deed every tasker is asked to stop
    (what `bid stop all` does: tasker.desire = STOP), independent of any framer clock"""
    from ioflo.base.globaling import STOP
    count = [0]

    def hook(store):
        if obs:
            obs(store)
        count[0] += 1
        if nticks is not None and count[0] >= nticks:
            for house in sk.houses:
                for tasker in house.taskables:
                    tasker.desire = STOP
    HOOKS["obs"] = hook
    HOOKS["ent"] = ent
    HOOKS["acts"] = acts or {}
    with time_limit(60):
        sk.run()


def framer_of(sk, name):
    for house in sk.houses:
        for fr in house.framers:
            if fr.name == name:
                return fr
    return None
