"""
Shared helpers for the FloScript builder checks (C14-C17): running the real Builder on a text,
recording what it dispatches, canonical dumps of built houses, bounded runs, a generator of
FloScript programs.  Everything imports ioflo from core.REPO (IOFLO_REPO).
"""
import os, sys, signal, random, collections, contextlib
import core

_DIR = None


def scratch_dir():
    global _DIR
    if _DIR is None:
        # script files are rewritten for every case: prefer the memory file system (file creation under
        # /verif costs ~8 ms), fall back to the scratch directory of the framework
        base = "/dev/shm" if os.path.isdir("/dev/shm") and os.access("/dev/shm", os.W_OK) else core.SCRATCH
        _DIR = os.path.join(base, "verif-flo-%d" % os.getpid())
        os.makedirs(_DIR, exist_ok=True)
        import atexit, shutil
        atexit.register(lambda: shutil.rmtree(_DIR, ignore_errors=True))
    return _DIR


def write_script(text, name="case.flo"):
    path = os.path.join(scratch_dir(), name)
    with open(path, "w", encoding="utf-8", newline="") as f:
        f.write(text)
    return path


@contextlib.contextmanager
def time_limit(seconds):
    """wall-clock limit raising core.HarnessTimeout (not an OSError: Builder.build swallows IOError)"""
    def handler(signum, frame):
        raise core.HarnessTimeout("limit %ss" % seconds)
    old = signal.signal(signal.SIGALRM, handler)
    signal.setitimer(signal.ITIMER_REAL, seconds)
    try:
        yield
    finally:
        signal.setitimer(signal.ITIMER_REAL, 0)
        signal.signal(signal.SIGALRM, old)


def dispatched(text):
    """the token lists Builder.dispatch receives when Builder.build reads `text`
    (dispatch replaced by a recorder: nothing is built, `load` does not switch files)"""
    core.import_ioflo()
    from ioflo.base import building
    path = write_script(text, "lex.flo")
    b = building.Builder()
    rec = []
    b.dispatch = lambda tokens: (rec.append(list(tokens)) or True)
    ok = b.build(path)
    if ok is not True:
        raise RuntimeError("reader returned %r" % (ok,))
    return rec


def dispatched_tree(main_text, files):
    """(token lists, how reading ended) for a tree of script files: `files` maps the names used in `load` commands
    to texts, all in one directory.  Builder.build reads for real and `load` really switches files
    (Builder.buildLoad); every other command is only recorded.
    ended: done | ioerror (build returned False: a file could not be opened) | parseerror"""
    core.import_ioflo()
    from ioflo.base import building, excepting
    import shutil
    d = os.path.join(scratch_dir(), "tree")
    shutil.rmtree(d, ignore_errors=True)
    os.makedirs(d)
    for name, text in files.items():
        with open(os.path.join(d, name), "w", encoding="utf-8", newline="") as f:
            f.write(text)
    path = os.path.join(d, "main.flo")
    with open(path, "w", encoding="utf-8", newline="") as f:
        f.write(main_text)
    b = building.Builder()
    rec = []

    def dispatch(tokens):
        rec.append(list(tokens))
        if tokens[0] == "load":
            return building.Builder.buildLoad(b, "load", tokens, 1)
        return True
    b.dispatch = dispatch
    try:
        with time_limit(10.0):
            ok = b.build(path)
    except excepting.ParseError:
        return rec, "parseerror"
    finally:
        for f in list(b.files) + [b.currentFile]:
            try:
                if f is not None and not f.closed:
                    f.close()
            except Exception:   # noqa
                pass
    return rec, ("done" if ok is True else "ioerror")


def tokenize_is_fixed():
    """does the tree under test strip the last physical line of a backslash run (defect D50 repaired)?"""
    return dispatched("a \\\n\tb\n") == [["a", "b"]]


# ----------------------------------------------------------------------------- building and dumping

def _canon(obj, depth=0):
    from ioflo.base import storing, framing, acting, tasking
    from ioflo.aid.odicting import odict
    if depth > 8:
        return "<deep>"
    if obj is None or isinstance(obj, (bool, int, float, complex, str, bytes)):
        return repr(obj)
    if isinstance(obj, storing.Share):
        return "Share(%s)" % obj.name
    if isinstance(obj, storing.Node):
        return "Node(%s)" % getattr(obj, "name", "?")
    if isinstance(obj, framing.Frame):
        return "Frame(%s)" % obj.name
    if isinstance(obj, tasking.Tasker):
        return "%s(%s)" % (type(obj).__name__, obj.name)
    if isinstance(obj, acting.Act):
        return _canon_act(obj, depth + 1)
    if isinstance(obj, acting.Actor):
        d = {}
        for k, v in sorted(vars(obj).items()):
            if k in ("store", "_act", "act"):
                continue
            d[k] = _canon(v, depth + 1)
        return "%s(%s)%r" % (type(obj).__name__, getattr(obj, "name", ""), sorted(d.items()))
    if isinstance(obj, tuple) and hasattr(obj, "_fields"):
        return "%s%r" % (type(obj).__name__, tuple(obj))
    if isinstance(obj, dict):
        return "{" + ", ".join("%s: %s" % (_canon(k, depth + 1), _canon(v, depth + 1)) for k, v in obj.items()) + "}"
    if isinstance(obj, (list, tuple, collections.deque)):
        return "[" + ", ".join(_canon(x, depth + 1) for x in obj) + "]"
    if isinstance(obj, (set, frozenset)):
        return "{" + ", ".join(sorted(_canon(x, depth + 1) for x in obj)) + "}"
    try:
        return "[" + ", ".join(_canon(x, depth + 1) for x in obj) + "]"   # oset and friends
    except TypeError:
        return "<%s>" % type(obj).__name__


def _canon_act(act, depth=0):
    from ioflo.base import acting
    a = act.actor
    parts = [type(act).__name__,
             "actor=" + (a if isinstance(a, str) else "%s:%s" % (type(a).__name__, getattr(a, "name", ""))),
             "context=%r" % (act.context,),
             "parms=" + _canon(act.parms, depth + 1),
             "inits=" + _canon(act.inits, depth + 1),
             "ioinits=" + _canon(act.ioinits, depth + 1),
             "prerefs=" + _canon(act.prerefs, depth + 1),
             "inode=%r" % (act.inode,),
             "human=%r" % (act.human,)]            # act.count (a line number) is deliberately left out
    return "<" + " ".join(parts) + ">"


ACT_LISTS = ("beacts", "preacts", "enacts", "renacts", "reacts", "exacts", "rexacts")


def dump_store(store):
    from ioflo.base import storing
    out = []

    def walk(node, prefix):
        for key, val in node.items():
            name = prefix + "." + key if prefix else key
            if isinstance(val, storing.Share):
                if val.name in ("datetime", "realtime"):      # wall clock
                    continue
                out.append("share %s %s" % (val.name, _canon(dict(val.items()))))
            elif isinstance(val, storing.Node):
                out.append("node %s" % name)
                walk(val, name)
    walk(store.shares, "")
    return sorted(out)


def dump_house(house, acts=True):
    """canonical text of everything the builder produced for one house"""
    out = ["house %s" % house.name]
    for lst in ("taskers", "framers", "fronts", "mids", "backs", "taskables", "auxes", "slaves", "moots"):
        out.append("  %s %s" % (lst, [t.name for t in getattr(house, lst)]))
    for tasker in house.taskers:
        from ioflo.base import framing
        if not isinstance(tasker, framing.Framer):
            out.append("  tasker %s %s period=%r schedule=%r" % (type(tasker).__name__, tasker.name,
                                                               tasker.period, tasker.schedule))
            continue
        fr = tasker
        first = fr.first.name if hasattr(fr.first, "name") else fr.first
        out.append("  framer %s period=%r schedule=%r first=%s inode=%r main=%s" % (
            fr.name, fr.period, fr.schedule, first, getattr(fr, "inode", None),
            getattr(getattr(fr, "main", None), "name", None)))
        for name, frame in fr.frameNames.items():
            over = frame.over.name if hasattr(frame.over, "name") else frame.over
            nxt = frame.next_.name if hasattr(frame.next_, "name") else frame.next_
            out.append("    frame %s over=%s unders=%s next=%s inode=%r auxes=%s" % (
                name, over, [getattr(u, "name", u) for u in frame.unders], nxt, frame.inode,
                [getattr(x, "name", _canon(x)) for x in frame.auxes]))
            if acts:
                for lst in ACT_LISTS:
                    for act in getattr(frame, lst):
                        out.append("      %s %s" % (lst, _canon_act(act)))
    out.extend("  " + l for l in dump_store(house.store))
    return out


class BuildResult(object):
    def __init__(self):
        self.status = None       # "ok" | "failed" | "ERR <Class>"
        self.detail = ""
        self.houses = []
        self.dump = []
        self.trace = []
        self.where = ""          # innermost function of an escaping exception


def run_ticks(houses, ticks, period=0.125):
    """Skedder.run for a bounded number of ticks; after every tick the values of all shares"""
    from ioflo.base.globaling import ACTIVE, START, STOP, STOPPED, ABORTED, RUNNING, STARTED, ABORT
    trace = []
    ready = collections.deque()
    stamp = 0.0
    for house in houses:
        house.store.changeStamp(stamp)
        for tasker in house.taskables:
            tasker.desire = START if tasker.schedule == ACTIVE else STOP
            tasker.status = STOPPED
            ready.append((tasker, tasker.store.stamp, tasker.period))
    try:
        for tick in range(ticks):
            more = False
            for i in range(len(ready)):
                tasker, retime, per = ready.popleft()
                if retime > stamp:
                    ready.append((tasker, retime, per))
                    status = tasker.status
                else:
                    try:
                        status = tasker.runner.send(tasker.desire)
                        if status == ABORTED:
                            trace.append("t%d aborted %s" % (tick, tasker.name))
                        else:
                            ready.append((tasker, retime + tasker.period, tasker.period))
                    except StopIteration:
                        trace.append("t%d stopiter %s" % (tick, tasker.name))
                if status == RUNNING or status == STARTED:
                    more = True
            snap = []
            for house in houses:
                snap.extend(dump_store(house.store))
                for fr in house.framers:
                    act = getattr(fr, "actives", None)
                    snap.append("active %s %s" % (fr.name, [f.name for f in act] if act else act))
            trace.append("t%d " % tick + " | ".join(snap))
            if not ready or not more:
                trace.append("t%d idle" % tick)
                break
            stamp += period
            for house in houses:
                house.store.changeStamp(stamp)
    finally:
        for i in range(len(ready)):
            tasker, retime, per = ready.popleft()
            try:
                tasker.runner.send(ABORT)
            except StopIteration:
                pass
            except Exception as ex:   # noqa
                trace.append("abort-exc %s %s" % (tasker.name, type(ex).__name__))
    return trace


class _Sink(object):
    """a console file that discards what is written"""
    closed = False
    name = "<sink>"

    def write(self, msg):
        pass

    def flush(self):
        pass


def build_kwargs(which):
    """the optional arguments of Builder.build, by name: fixed, valid values"""
    from ioflo.aid.odicting import odict
    return {"metas": {"metas": [("name", "meta.name", odict(value="Test")), ("plan", "meta.plan", odict(value="p.flo"))]},
            "preloads": {"preloads": [(".pre.load", odict(x=1, y=2))]},
            "mode": {"mode": ["test"]},
            "behaviors": {"behaviors": ["ioflo.base.doing"]},
            "all": {"metas": [("name", "meta.name", odict(value="Test"))], "preloads": [(".pre.load", odict(value=5))],
                    "mode": ["m"], "behaviors": ["ioflo.base.doing"]}}[which]


def build(text, ticks=0, limit=20.0, acts=True, name="build.flo", files=None, verbosity=0, args=None):
    """Builder.build on `text` (real dispatch); canonical dump; optional bounded run.
    files: {name: text} written next to the script (targets of `load`); verbosity: console level during the build
    (0 mute … 4 profuse; the output is discarded, the printing code runs); args: name of a set of optional
    Builder.build arguments (build_kwargs)"""
    import traceback
    core.import_ioflo()
    from ioflo.base import building, excepting
    from ioflo.aid import consoling
    res = BuildResult()
    if files:
        import shutil
        d = os.path.join(scratch_dir(), "btree")
        shutil.rmtree(d, ignore_errors=True)
        os.makedirs(d)
        for fname, ftext in files.items():
            with open(os.path.join(d, fname), "w", encoding="utf-8", newline="") as f:
                f.write(ftext)
        path = os.path.join(d, name)
        with open(path, "w", encoding="utf-8", newline="") as f:
            f.write(text)
    else:
        path = write_script(text, name)
    b = building.Builder(fileName=path)
    kw = build_kwargs(args) if args else {}
    con = consoling.getConsole()
    old = (con._verbosity, con._file)
    if verbosity:
        con._verbosity, con._file = verbosity, _Sink()
    nofile = None
    if files:
        # a file that loads itself is read again and again until the process has no descriptors left (then build
        # returns False); give it the customary 1024 rather than the container's 20000 so that this ends in time
        import resource
        nofile = resource.getrlimit(resource.RLIMIT_NOFILE)
        if nofile[0] == resource.RLIM_INFINITY or nofile[0] > 1024:
            resource.setrlimit(resource.RLIMIT_NOFILE, (1024, nofile[1]))
        else:
            nofile = None
    try:
        with time_limit(limit):
            if verbosity:       # some of the printing code uses print()
                with contextlib.redirect_stdout(_Sink()):
                    ok = b.build(**kw)
            else:
                ok = b.build(**kw)
    except core.HarnessTimeout:
        raise
    except Exception as ex:
        res.status = "ERR " + type(ex).__name__
        res.detail = str(ex)[:300]
        tb = traceback.extract_tb(ex.__traceback__)
        res.where = tb[-1].name if tb else ""
        res.frames = [(os.path.basename(f.filename), f.name, f.lineno) for f in tb]
        return res
    finally:
        con._verbosity, con._file = old
        if nofile is not None:
            import resource
            resource.setrlimit(resource.RLIMIT_NOFILE, nofile)
        for f in list(getattr(b, "files", [])) + [getattr(b, "currentFile", None)]:
            try:
                if f is not None and not f.closed:      # a build left inside a loaded file: do not leak descriptors
                    f.close()
            except Exception:   # noqa
                pass
    res.status = "ok" if ok else "failed"
    if ok:
        res.houses = b.houses
        for h in b.houses:
            res.dump.extend(dump_house(h, acts=acts))
        if ticks:
            try:
                with time_limit(limit):
                    res.trace = run_ticks(b.houses, ticks)
            except core.HarnessTimeout:
                raise
            except Exception as ex:
                res.trace = ["RUN-ERR %s %s" % (type(ex).__name__, str(ex)[:200])]
    return res


# ----------------------------------------------------------------------------- program generator

RESERVED = ['to', 'by', 'with', 'from', 'per', 'for', 'cum', 'qua', 'via', 'as', 'at', 'in', 'of', 'on', 're',
            'is', 'if', 'be', 'into', 'and', 'not', '+-', '==', '<', '<=', '>=', '>', '!=']
WORDS = ["alpha", "beta", "gamma", "delta", "omega", "kilo", "lima", "mike", "nova", "papa"]


def gen_literal(rng, numeric=False):
    kinds = ["int", "float", "neg", "hex"] if numeric else ["int", "float", "neg", "bool", "str", "strsp", "none", "hex"]
    k = rng.choice(kinds)
    if k == "int":
        return str(rng.randrange(0, 50))
    if k == "float":
        return "%d.%d" % (rng.randrange(0, 20), rng.randrange(0, 100))
    if k == "neg":
        return "-%d" % rng.randrange(1, 9)
    if k == "hex":
        return "0x%x" % rng.randrange(1, 255)
    if k == "bool":
        return rng.choice(["true", "false", "yes", "no", "True", "False"])
    if k == "none":
        return "none"
    if k == "str":
        return '"%s"' % rng.choice(WORDS)
    return rng.choice(['"%s # %s"', "'%s %s'", '"%s  \'%s"']) % (rng.choice(WORDS), rng.choice(WORDS))


class ProgGen(object):
    """valid, runnable FloScript programs as lists of token lists"""

    def __init__(self, rng):
        self.rng = rng
        self.cmds = []
        self.shares = []        # absolute share paths with a numeric `value`
        self.fshares = []       # absolute share paths with fields x y

    def emit(self, *toks):
        self.cmds.append([str(t) for t in toks])

    def need(self, frames, others):
        r = self.rng
        k = r.randrange(9)
        if k == 0:
            return ["elapsed", r.choice([">=", ">"]), "%d.%d" % (r.randrange(0, 2), r.randrange(0, 10))]
        if k == 1:
            return ["recurred", ">=", str(r.randrange(1, 4))]
        if k == 2 and self.shares:
            n = [r.choice(self.shares), r.choice(["==", "!=", "<", "<=", ">=", ">"]), gen_literal(r, True)]
            if r.random() < 0.4:
                n += ["+-", "0.5"]
            return n
        if k == 3 and self.fshares:
            return [r.choice(["x", "y"]), "in", r.choice(self.fshares), r.choice(["<", ">="]), str(r.randrange(5))]
        if k == 4 and self.shares:
            n = [r.choice(self.shares), "is", r.choice(["updated", "changed"])]
            if r.random() < 0.5:
                n += ["in", "frame"] + ([r.choice(frames)] if r.random() < 0.5 else [])
            if r.random() < 0.5:
                n += ["by", r.choice(["m1", '"mark two"'])]
            return n
        if k == 5 and self.shares:
            return ["not", r.choice(self.shares), "==", gen_literal(r, True)]
        if k == 6 and self.shares and len(self.shares) > 1:
            return [r.choice(self.shares), "<=", r.choice(self.shares)]
        if k == 7:
            return ["elapsed", "re", "me", ">=", "goal"] if r.random() < 0.3 else ["elapsed", ">=", "1.0"]
        if k == 8 and self.shares:
            return [r.choice(["goal.heading", "state.depth"]), "of", "framer", "<", "100"]
        return ["elapsed", ">=", "0.5"]

    def action(self, frames, me, others):
        r = self.rng
        k = r.randrange(14)
        if k == 0:
            self.emit("print", *[r.choice(WORDS + ['"quoted # text"', "to", "#notcomment" if False else "x#y"])
                                 for _ in range(r.randrange(1, 4))])
        elif k == 1 and self.shares:
            self.emit("put", gen_literal(r, True), "into", r.choice(self.shares))
        elif k == 2 and self.fshares:
            self.emit("put", "x", r.randrange(9), "y", gen_literal(r, True), "into", r.choice(self.fshares))
        elif k == 3:
            rel = r.choice([[], ["of", "framer"], ["of", "frame"], ["of", "frame", me], ["of", "me"], ["of", "root"]])
            self.emit("put", gen_literal(r), "into", r.choice(["scratch.a", "scratch.b.c"]), *rel)
        elif k == 4 and self.shares:
            self.emit("inc", r.choice(self.shares), "with", gen_literal(r, True))
        elif k == 5 and len(self.shares) > 1:
            a, b = r.sample(self.shares, 2)
            self.emit("inc", a, "from", b)
        elif k == 6 and len(self.shares) > 1:
            a, b = r.sample(self.shares, 2)
            self.emit("copy", a, "into", b)
        elif k == 7:
            self.emit("set", r.choice(["goal.heading", "goal.depth", "state.depth"]), "with", gen_literal(r, True))
        elif k == 8:
            self.emit("set", "elapsed", "with", "%d.5" % r.randrange(1, 4))
        elif k == 9:
            self.emit(r.choice(["enter", "recur", "exit", "native", "precur", "renter", "rexit", "benter"]))
        elif k == 10 and self.fshares:
            self.emit("copy", "x", "y", "in", r.choice(self.fshares), "into", "x", "y", "in", "scratch.xy", "of", "framer")
        elif k == 11:
            self.emit("let", "me", "if", *self.need(frames, others)) if r.random() < 0.5 else \
                self.emit("let", "if", *self.need(frames, others))
            # `let` adds benter needs; an unsatisfied need keeps the frame from being entered, which is fine
        elif k == 12 and others:
            self.emit("bid", r.choice(["stop", "start", "run"]), r.choice(others + ["me"]),
                      *(["at", "0.25"] if r.random() < 0.3 else []))
        else:
            self.emit("print", r.choice(WORDS))

    def program(self):
        r = self.rng
        self.emit("house", "h" + r.choice(WORDS))
        for i in range(r.randrange(1, 4)):
            p = ".data.n%d" % i
            self.emit("init", p, "with", r.randrange(0, 5))
            self.shares.append(p)
        for i in range(r.randrange(0, 3)):
            p = ".data.p%d" % i
            self.emit("init", p, "with", "x", r.randrange(0, 5), "y", gen_literal(r, True))
            self.fshares.append(p)
        if r.random() < 0.4:
            self.emit("init", ".data.s", "with", gen_literal(r))
        nfr = r.randrange(1, 4)
        names = ["fm%d" % i for i in range(nfr)]
        for fi, fname in enumerate(names):
            others = [n for n in names if n != fname]
            frames = ["%sf%d" % (fname, j) for j in range(r.randrange(1, 5))]
            opts = [["be", "active"]]
            if r.random() < 0.5:
                opts.append(["first", frames[0]])
            if r.random() < 0.3:
                opts.append(["at", r.choice(["0.125", "0.25", "0.0"])])
            if r.random() < 0.3:
                opts.append(["via", r.choice([".inode.a", "inode.b", ".inode.c."])])
            if r.random() < 0.2:
                opts.append(["in", r.choice(["front", "mid", "back"])])
            r.shuffle(opts)
            self.emit("framer", fname, *[t for o in opts for t in o])
            top = None
            for j, fr in enumerate(frames):
                fopts = []
                if top and r.random() < 0.6:
                    fopts.append(["in", top])
                if r.random() < 0.2:
                    fopts.append(["via", r.choice(["fnode", ".fnode.x", "fnode of framer"]).split()])
                    fopts[-1] = ["via"] + fopts[-1][1]
                r.shuffle(fopts)
                self.emit("frame", fr, *[t for o in fopts for t in o])
                if top is None and r.random() < 0.7:
                    top = fr
                for _ in range(r.randrange(0, 5)):
                    self.action(frames, fr, others)
                if r.random() < 0.3 and j + 1 < len(frames):
                    self.emit("timeout", "%d.0" % r.randrange(1, 3)) if r.random() < 0.5 else self.emit("repeat", r.randrange(1, 4))
                # transition
                t = r.random()
                far = r.choice(frames + ["next", "me"]) if j + 1 < len(frames) else r.choice(frames + ["me"])
                if far == fr:
                    far = "me"
                if t < 0.75:
                    needs = []
                    for q in range(r.randrange(1, 3)):
                        if q:
                            needs.append("and")
                        needs += self.need(frames, others)
                    self.emit("go", far, "if", *needs)
                elif t < 0.85 and j + 1 < len(frames):
                    self.emit("go", "next")
            if r.random() < 0.3:
                self.emit("frame", fname + "stop")
                self.emit("bid", "stop", r.choice(["all", "me"]))
        return self.cmds


def gen_program(rng):
    return ProgGen(rng).program()


def split_tree(rng, prog):
    """split a program over files: {name: program}, the main program; `load` commands inserted at random command
    boundaries (first, middle, last command of the loading file), loaded files may load further files or be empty"""
    files = {}
    counter = [0]

    def split(cmds, depth):
        if depth >= 3 or rng.random() < (0.25 if depth else 0.0):
            return list(cmds)
        out = []
        k = rng.randrange(1, 3)
        cuts = sorted(rng.randrange(0, len(cmds) + 1) for _ in range(2 * k))
        pos = 0
        for a, b in zip(cuts[::2], cuts[1::2]):
            out += cmds[pos:a]
            counter[0] += 1
            name = "f%d.flo" % counter[0]
            files[name] = split(cmds[a:b], depth + 1)
            out.append(["load", name])
            pos = b
        out += cmds[pos:]
        return out
    main = split(prog, 0)
    return files, main


def canonical_text(prog):
    return "".join(" ".join(c) + "\n" for c in prog)


def example_plans():
    """[(name, text)] of the FloScript example plans shipped with ioflo"""
    d = os.path.join(core.REPO, "ioflo", "app", "plan")
    out = []
    for f in sorted(os.listdir(d)):
        if f.endswith(".flo"):
            with open(os.path.join(d, f), encoding="utf-8") as fh:
                out.append((f, fh.read()))
    return out
