"""Engine `flo`: generated FloScript programs, run by the REAL Builder/Skedder and by the Lean interpreter.

A program is a JSON-able dict:
  {"ticks": N, "period": p (1/8 s units), "shares": [int...],
   "framers": [{"sched": "active"|"inactive"|"aux", "first": local frame index or None,
                "frames": [{"over": local index|None, "under": local index|None, "items": [item...]}]}]}
  item: {"t":"act","ctx":C,"act":A} | {"t":"go","far":local index|"next"|"me","needs":[need...]}
        | {"t":"timeout","v":units} | {"t":"repeat","n":int} | {"t":"let","needs":[...]}
        | {"t":"aux","aux":framer index,"needs":[...]}          (plain aux when needs == [])
        | {"t":"aux","aux":index of a moot framer,"as":tag,"needs":[...]}   (`aux m<k> as <tag> [if …]`: a named clone)
  A: {"k":"rec","tag":int,"ret":0|1} | {"k":"put"|"set"|"inc","dst":i,"v":int} | {"k":"incf","dst":i,"src":j}
     | {"k":"copy","src":i,"dst":j} | {"k":"done"} | {"k":"bid","ctl":c,"targets":[framer index|"me"|"all"]}
  need: {"k":"cd","sh":i,"op":op,"v":int} | {"k":"ci","a":i,"op":op,"b":j} | {"k":"bo","sh":i}
        | {"k":"el","op":op,"v":units} | {"k":"re","op":op,"n":int} | {"k":"dn","fr":framer index}
        | {"k":"st","fr":framer index,"st":status}
        | {"k":"up"|"chg","sh":i,"frame":None|"me"|local frame index}   (`.v<i> is updated|changed [in frame [f]]`;
          only in the needs of go / conditional aux items; the mark's key is the global number of the marked frame)
        each with optional "neg": true
Framers are named m<i>, frames f<g> with g the global frame number (declaration order), shares .v<i>.
A framer with "sched": "moot" is only a template: `expand` replaces every clone clause by a reference to a further
framer (appended after the declared ones: a copy of the moot's frames, "original": False, named m<i>_<tag> as
Framer.resolveMoots names it, its frames keep the moot's frame names); `encode`, the reference interpreter and
the oracles work on the expanded program.

`render`   → FloScript text for the real Builder
`encode`   → one request line for lean/IofloModel/Drv/Flo.lean
`run_impl` → canonical output lines from the real Skedder run (recorder deed + end-of-tick snapshots)
"""
import os, sys, json, tempfile
import core

OPS = {"==": "eq", "!=": "ne", "<": "lt", "<=": "le", ">=": "ge", ">": "gt"}
CTX1 = {"enter": "e", "renter": "n", "precur": "p", "recur": "r", "exit": "x", "rexit": "t"}
STATUS_NAMES = {0: "stopped", 1: "started", 2: "running", 3: "aborted", 4: "readied"}

_LOG = []
_REGISTERED = False


def register():
    """the recorder deed `do fa rec with tag N ret R` (returns R, so a truthy one interrupts precur)"""
    global _REGISTERED
    if _REGISTERED:
        return
    core.import_ioflo()
    from ioflo.base import doing
    from ioflo.aid import odict

    @doing.doify('FaRec', ioinits=odict())
    def farec(self, tag=0, ret=0, **kw):
        fr = self._act.frame
        _LOG.append(("E", fr.framer.name if hasattr(fr.framer, "name") else str(fr.framer), fr.name, self._act.context, tag))
        return ret
    _REGISTERED = True


# ----------------------------------------------------------------------------- naming / resolution helpers

def expand(prog):
    """the program with every clone clause replaced by a reference to an explicit copy of the moot framer"""
    if not any(it.get("as") for fr in prog["framers"] for f in fr["frames"] for it in f["items"] if it["t"] == "aux"):
        return prog
    p = json.loads(json.dumps(prog))
    bs = bases(prog)
    for i, fr in enumerate(prog["framers"]):
        for j, f in enumerate(fr["frames"]):
            for n, it in enumerate(f["items"]):
                if it["t"] == "aux" and it.get("as"):
                    moot = prog["framers"][it["aux"]]
                    c = json.loads(json.dumps(moot))
                    c["sched"], c["original"], c["name"] = "aux", False, "m%d_%s" % (i, it["as"])
                    c["fnames"] = ["f%d" % (bs[it["aux"]] + q) for q in range(len(moot["frames"]))]
                    pit = p["framers"][i]["frames"][j]["items"][n]
                    pit["aux"] = len(p["framers"])
                    del pit["as"]
                    p["framers"].append(c)
    return p


def framer_name(prog, i):
    return prog["framers"][i].get("name", "m%d" % i)


def frame_names(prog):
    """(framer name, frame name) -> global frame number, for an expanded program"""
    out, bs = {}, bases(prog)
    for i, fr in enumerate(prog["framers"]):
        for j in range(len(fr["frames"])):
            out[(framer_name(prog, i), fr["fnames"][j] if "fnames" in fr else "f%d" % (bs[i] + j))] = bs[i] + j
    return out


def bases(prog):
    out, b = [], 0
    for fr in prog["framers"]:
        out.append(b)
        b += len(fr["frames"])
    return out


def taskables(prog):
    return [i for i, fr in enumerate(prog["framers"]) if fr["sched"] in ("active", "inactive")]


def first_of(fr):
    return fr["first"] if fr.get("first") is not None else 0


def far_of(prog, i, j, far):
    """global frame number of a go target, or None if unresolvable (next of the last frame)"""
    b = bases(prog)[i]
    n = len(prog["framers"][i]["frames"])
    if far == "me":
        return b + j
    if far == "next":
        return b + j + 1 if j + 1 < n else None
    return b + far if 0 <= far < n else None


def secs(units):
    return repr(units / 8.0)


# ----------------------------------------------------------------------------- FloScript text

def need_text(prog, i, nd):
    k = nd["k"]
    if k == "cd":
        s = ".v%d %s %d" % (nd["sh"], nd["op"], nd["v"])
    elif k == "ci":
        s = ".v%d %s .v%d" % (nd["a"], nd["op"], nd["b"])
    elif k == "bo":
        s = ".v%d" % nd["sh"]
    elif k == "el":
        s = "elapsed %s %s" % (nd["op"], secs(nd["v"]))
    elif k == "re":
        s = "recurred %s %d" % (nd["op"], nd["n"])
    elif k == "dn":
        s = "m%d is done" % nd["fr"]
    elif k == "st":
        s = "m%d is %s" % (nd["fr"], nd["st"])
    elif k in ("up", "chg"):
        s = ".v%d is %s" % (nd["sh"], "updated" if k == "up" else "changed")
        if nd.get("frame") == "me":
            s += " in frame"
        elif nd.get("frame") is not None:
            s += " in frame f%d" % (bases(prog)[i] + nd["frame"])
    elif k == "ad":
        who = nd["which"] if isinstance(nd["which"], str) else "m%d" % nd["which"]
        fr = "me" if nd.get("frame") is None else "f%d" % (bases(prog)[i] + nd["frame"])
        s = "%s in frame %s is done" % (who, fr)
    else:
        raise ValueError(k)
    return ("not " if nd.get("neg") else "") + s


def needs_text(prog, i, needs):
    return " and ".join(need_text(prog, i, nd) for nd in needs)


def act_text(prog, i, a):
    k = a["k"]
    if k == "rec":
        return "do fa rec with tag %d ret %d" % (a["tag"], a.get("ret", 0))
    if k == "put":
        return "put %d into .v%d" % (a["v"], a["dst"])
    if k == "set":
        return "set .v%d with %d" % (a["dst"], a["v"])
    if k == "inc":
        return "inc .v%d with %d" % (a["dst"], a["v"])
    if k == "incf":
        return "inc .v%d from .v%d" % (a["dst"], a["src"])
    if k == "copy":
        return "copy .v%d into .v%d" % (a["src"], a["dst"])
    if k == "done":
        return "done " + " ".join("me" if t == "me" else "m%d" % t for t in a.get("targets", ["me"]))
    if k == "bid":
        return "bid %s %s" % (a["ctl"], " ".join(t if isinstance(t, str) else "m%d" % t for t in a["targets"]))
    raise ValueError(k)


def render(prog):
    L = ["house h"]
    for i, v in enumerate(prog["shares"]):
        L.append("  init .v%d with %d" % (i, v))
    bs = bases(prog)
    for i, fr in enumerate(prog["framers"]):
        sched = {"active": "active", "inactive": "inactive", "aux": "aux", "moot": "moot"}[fr["sched"]]
        L.append("  framer m%d be %s first f%d" % (i, sched, bs[i] + first_of(fr)))
        for j, f in enumerate(fr["frames"]):
            line = "    frame f%d" % (bs[i] + j)
            if f.get("over") is not None:
                line += " in f%d" % (bs[i] + f["over"])
            L.append(line)
            if f.get("under") is not None:
                L.append("      under f%d" % (bs[i] + f["under"]))
            for it in f["items"]:
                t = it["t"]
                if t == "act":
                    L.append("      " + it["ctx"])
                    L.append("      " + act_text(prog, i, it["act"]))
                elif t == "go":
                    far = it["far"]
                    tgt = far if isinstance(far, str) else "f%d" % (bs[i] + far)
                    L.append("      go %s%s" % (tgt, (" if " + needs_text(prog, i, it["needs"])) if it["needs"] else ""))
                elif t == "timeout":
                    L.append("      timeout %s" % secs(it["v"]))
                elif t == "repeat":
                    L.append("      repeat %d" % it["n"])
                elif t == "let":
                    L.append("      let me if " + needs_text(prog, i, it["needs"]))
                elif t == "aux":
                    L.append("      aux m%d%s%s" % (it["aux"], (" as " + it["as"]) if it.get("as") else "",
                                                    (" if " + needs_text(prog, i, it["needs"])) if it["needs"] else ""))
                else:
                    raise ValueError(t)
    return "\n".join(L) + "\n"


# ----------------------------------------------------------------------------- driver request

def need_enc(prog, i, nd, j=None):
    k = nd["k"]
    neg = "1" if nd.get("neg") else "0"
    if k == "ad":
        g = bases(prog)[i] + (j if nd.get("frame") is None else nd["frame"])
        if nd["which"] == "any":
            return [neg, "xa", g]
        if nd["which"] == "all":
            return [neg, "xl", g]
        return [neg, "xn", g, nd["which"]]
    if k in ("up", "chg"):
        return [neg, "up" if k == "up" else "ch", nd["sh"], mark_key(prog, i, j, nd)]
    if k == "cd":
        return [neg, "cd", nd["sh"], OPS[nd["op"]], nd["v"]]
    if k == "ci":
        return [neg, "ci", nd["a"], OPS[nd["op"]], nd["b"]]
    if k == "bo":
        return [neg, "bo", nd["sh"]]
    if k == "el":
        return [neg, "el", i, OPS[nd["op"]], nd["v"]]
    if k == "re":
        return [neg, "re", i, OPS[nd["op"]], nd["n"]]
    if k == "dn":
        return [neg, "dn", nd["fr"]]
    if k == "st":
        return [neg, "st", nd["fr"], nd["st"]]
    raise ValueError(k)


def needs_enc(prog, i, needs, j=None):
    out = [len(needs)]
    for nd in needs:
        out += need_enc(prog, i, nd, j)
    return out


def mark_key(prog, i, j, nd):
    """the mark `framer<frame` of a marker need in frame j of framer i: number of the marked frame"""
    fr = nd.get("frame")
    return bases(prog)[i] + (j if fr in (None, "me") else fr)


def tracts_enc(prog, i, needs, j):
    """NeedMarker._resolve: one transit marker act per marker need, in the order of the needs"""
    out, n = [], 0
    for nd in needs:
        if nd["k"] == "up":
            out += ["mku", nd["sh"], mark_key(prog, i, j, nd), 1]
            n += 1
        elif nd["k"] == "chg":
            out += ["mkc", nd["sh"], mark_key(prog, i, j, nd)]
            n += 1
    return [n] + out


def marker_enacts(prog, i):
    """local frame index -> [(kind, share, key)]: the enact markers that the `in frame` clauses of framer i's marker
    needs insert (one per kind/share/mark, NeedMarker._resolve de-duplicates); they come before the script's enacts"""
    out = {}
    for j, f in enumerate(prog["framers"][i]["frames"]):
        for it in f["items"]:
            if it["t"] in ("go", "aux"):
                for nd in it.get("needs", []):
                    if nd["k"] in ("up", "chg") and nd.get("frame") is not None:
                        tgt = j if nd["frame"] == "me" else nd["frame"]
                        ent = ("mku" if nd["k"] == "up" else "mkc", nd["sh"], mark_key(prog, i, j, nd))
                        if ent not in out.setdefault(tgt, []):
                            out[tgt].append(ent)
    return out


def mark_pairs(prog):
    """sorted (share, key) pairs of all marker needs"""
    ps = set()
    for i, fr in enumerate(prog["framers"]):
        for j, f in enumerate(fr["frames"]):
            for it in f["items"]:
                if it["t"] in ("go", "aux"):
                    for nd in it.get("needs", []):
                        if nd["k"] in ("up", "chg"):
                            ps.add((nd["sh"], mark_key(prog, i, j, nd)))
    return sorted(ps)


def act_enc(prog, i, a):
    k = a["k"]
    if k == "rec":
        return ["rec", a["tag"], a.get("ret", 0)]
    if k in ("put", "set"):
        return ["put", a["dst"], a["v"]]
    if k == "inc":
        return ["inc", a["dst"], a["v"]]
    if k == "incf":
        return ["incf", a["dst"], a["src"]]
    if k == "copy":
        return ["copy", a["src"], a["dst"]]
    if k == "done":
        tg = []
        for t in a.get("targets", ["me"]):
            x = i if t == "me" else t
            if x not in tg:
                tg.append(x)
        return ["done", len(tg)] + tg
    if k == "bid":
        tg = []
        for t in a["targets"]:
            for x in (taskables(prog) if t == "all" else [i] if t == "me" else [t]):
                if x not in tg:          # oset
                    tg.append(x)
        return ["bid", a["ctl"], len(tg)] + tg
    raise ValueError(k)


def encode(prog):
    prog = expand(prog)
    T = ["run", prog["ticks"], prog["period"], len(prog["framers"]) + 1,
         "S", len(prog["shares"])] + list(prog["shares"])
    tk = taskables(prog)
    T += ["R", len(tk)]
    for i in tk:
        T += [i, "a" if prog["framers"][i]["sched"] == "active" else "i"]
    T += ["FR", len(prog["framers"])]
    for i, fr in enumerate(prog["framers"]):
        T += ["F", first_of(fr), 0 if fr.get("original") is False else 1, len(fr["frames"])]
        ment = marker_enacts(prog, i)
        for j, f in enumerate(fr["frames"]):
            T += ["f", "-" if f.get("over") is None else f["over"]]
            T += [0] if f.get("under") is None else [1, f["under"]]
            items = []
            n = 0
            for (kind, sh, key) in ment.get(j, []):
                items += ["A", "e", kind, sh, key] + ([0] if kind == "mku" else [])
                n += 1
            for it in f["items"]:
                t = it["t"]
                if t == "act":
                    items += ["A", CTX1[it["ctx"]]] + act_enc(prog, i, it["act"])
                elif t == "go":
                    items += ["G", far_of(prog, i, j, it["far"])] + needs_enc(prog, i, it["needs"], j) + \
                        tracts_enc(prog, i, it["needs"], j)
                elif t == "timeout":
                    items += ["G", far_of(prog, i, j, "next")] + needs_enc(prog, i, [{"k": "el", "op": ">=", "v": it["v"]}]) + [0]
                elif t == "repeat":
                    items += ["G", far_of(prog, i, j, "next")] + needs_enc(prog, i, [{"k": "re", "op": ">=", "n": it["n"]}]) + [0]
                elif t == "let":
                    items += ["L"] + needs_enc(prog, i, it["needs"], j)
                elif t == "aux":
                    items += ["X", it["aux"]] + needs_enc(prog, i, it["needs"], j) + tracts_enc(prog, i, it["needs"], j)
                n += 1
            T += [n] + items
    return " ".join(str(x) for x in T)


def valid(prog):
    """can the subset be encoded (every go/timeout/repeat target resolves, references in range)?"""
    nf = len(prog["framers"])
    for i, fr in enumerate(prog["framers"]):
        if not fr["frames"]:
            return False
        for j, f in enumerate(fr["frames"]):
            for it in f["items"]:
                if it["t"] == "go" and far_of(prog, i, j, it["far"]) is None:
                    return False
                if it["t"] in ("timeout", "repeat") and far_of(prog, i, j, "next") is None:
                    return False
                if it["t"] == "aux" and not (0 <= it["aux"] < nf and
                                             prog["framers"][it["aux"]]["sched"] == ("moot" if it.get("as") else "aux")):
                    return False
                if fr["sched"] == "moot" and ((it["t"] == "aux" and it.get("as")) or
                                              (it["t"] == "act" and it["act"]["k"] == "bid")):
                    return False                  # no clones of clones, no bids from a template
                for nd in it.get("needs", []) if it["t"] in ("go", "aux", "let") else []:
                    if nd["k"] in ("up", "chg"):
                        if it["t"] == "let":
                            return False
                        if isinstance(nd.get("frame"), int) and not 0 <= nd["frame"] < len(fr["frames"]):
                            return False
    return True


# ----------------------------------------------------------------------------- real run

class _Snap(Exception):
    pass


def run_impl(prog, want=("E", "S", "V", "K", "Z")):
    """build with the real Builder, run with the real Skedder; canonical lines"""
    register()
    from ioflo.base import skedding, framing
    from collections import deque
    text = render(prog)
    d = os.path.join(core.SCRATCH, "flo-%d" % os.getpid())
    os.makedirs(d, exist_ok=True)
    path = os.path.join(d, "p.flo")
    with open(path, "w") as f:
        f.write(text)
    del _LOG[:]
    sk = skedding.Skedder(name="t", period=prog["period"] / 8.0, real=False, filepath=path)
    try:
        ok = sk.build()
    except Exception as ex:
        return ["ERR build %s" % type(ex).__name__]
    if not ok:
        return ["ERR build"]
    prog = expand(prog)
    nfr = len(prog["framers"])
    bs = bases(prog)
    store = sk.houses[0].store
    out = []
    gid = frame_names(prog)

    def num(frame):
        return "-" if frame is None else str(gid[(frame.framer.name, frame.name)])

    def flush_log():
        for e in _LOG:
            out.append("E f%d %s %s" % (gid[(e[1], e[2])], e[3], e[4]))
        del _LOG[:]

    def units(t):
        if t is None:
            return "-"
        u = t * 8.0
        return str(int(u)) if u == int(u) else repr(t)

    pairs = mark_pairs(prog)
    keyname = {}
    for (fname, frname), g in gid.items():
        keyname[g] = "%s<%s" % (fname, frname)

    def snap(tag):
        recs = []
        for i in range(nfr):
            fr = framing.Framer.Names[framer_name(prog, i)]
            e = fr.elapsed * 8.0
            es = str(int(e)) if e == int(e) else repr(fr.elapsed)
            recs.append(":".join(["%d" % i, STATUS_NAMES.get(fr.status, str(fr.status)),
                                  num(fr.active), ".".join(num(f) for f in fr.actives) or "-",
                                  "1" if fr.done else "0", num(fr.main), es, str(fr.recurred)]))
        flush_log()
        out.append(tag + " " + " ".join(recs))
        vals = []
        for i in range(len(prog["shares"])):
            sh = store.fetchShare("v%d" % i)
            vals.append(str(sh.value) if sh is not None else "?")
        out.append("V " + ",".join(vals))
        ks = []
        for (shi, key) in pairs:
            sh = store.fetchShare("v%d" % shi)
            mk = sh.marks.get(keyname[key]) if sh is not None else None
            ks.append("%d.%d:%s:%s:%s:%s" % (shi, key, units(sh.stamp if sh is not None else None),
                                             units(mk.stamp if mk else None), units(mk.used if mk else None),
                                             "-" if (mk is None or mk.data is None) else str(mk.data.value)))
        out.append("K " + " ".join(ks))

    state = {"k": 0}

    class Ready(deque):
        def __bool__(self):              # `if not ready:` — evaluated once, at the end of every tick
            snap("S %d" % state["k"])
            state["k"] += 1
            if state["k"] >= prog["ticks"]:
                raise KeyboardInterrupt()
            return len(self) > 0

    sk.ready = Ready()
    try:
        sk.run()
    except RecursionError:
        flush_log()
        out.append("ERR run depth")
        return out
    except Exception as ex:
        flush_log()
        out.append("ERR run %s" % type(ex).__name__)
        return out
    snap("Z")
    return [l for l in out if l.split(" ", 1)[0] in want or l.startswith("ERR")]


def model_lines(reply, want=("E", "S", "V", "K", "Z")):
    if reply.startswith("ERR build"):
        return ["ERR build"]
    return [l for l in reply.split("|") if l.split(" ", 1)[0] in want or l.startswith("ERR")]


# ----------------------------------------------------------------------------- generator

CMPS = ["==", "!=", "<", "<=", ">=", ">"]


def gen_need(rng, prog_ctx, i):
    """prog_ctx = (nshares, nframers, aux indices)"""
    nsh, nfr, auxes = prog_ctx
    r = rng.random()
    if r < 0.40:
        nd = {"k": "cd", "sh": rng.randrange(nsh), "op": rng.choice(CMPS), "v": rng.randrange(0, 5)}
    elif r < 0.50:
        nd = {"k": "ci", "a": rng.randrange(nsh), "op": rng.choice(CMPS), "b": rng.randrange(nsh)}
    elif r < 0.56:
        nd = {"k": "bo", "sh": rng.randrange(nsh)}
    elif r < 0.68:
        nd = {"k": "el", "op": rng.choice([">=", ">=", ">", "<", "=="]), "v": rng.choice([0, 4, 8, 8, 12, 16, 24, 32])}
    elif r < 0.84:
        nd = {"k": "re", "op": rng.choice([">=", ">=", ">", "==", "<"]), "n": rng.randrange(0, 5)}
    elif r < 0.92:
        nd = {"k": "dn", "fr": rng.randrange(nfr)}
    else:
        nd = {"k": "st", "fr": rng.randrange(nfr), "st": rng.choice(["running", "started", "stopped", "aborted", "readied"])}
    if rng.random() < 0.15:
        nd["neg"] = True
    return nd


def gen_needs(rng, ctx, i, lo=1, hi=2):
    return [gen_need(rng, ctx, i) for _ in range(rng.randrange(lo, hi + 1))]


def add_markers(rng, prog, p, skip=()):
    """give transitions and conditional-aux clauses `is updated` / `is changed` conditions (with probability p per
    clause; framers in `skip` are left alone): alone, or added to the conditions the clause has; on any share,
    without / with `in frame` (the clause's own frame or another frame of the framer)"""
    nsh = len(prog["shares"])
    for i, fr in enumerate(prog["framers"]):
        if i in skip:
            continue
        n = len(fr["frames"])
        for j, f in enumerate(fr["frames"]):
            for it in f["items"]:
                if it["t"] == "go" or (it["t"] == "aux" and it["needs"]):
                    if rng.random() >= p:
                        continue
                    r = rng.random()
                    nd = {"k": "up" if rng.random() < 0.65 else "chg", "sh": rng.randrange(nsh),
                          "frame": None if r < 0.3 else "me" if r < 0.7 else rng.randrange(n)}
                    if rng.random() < 0.08:
                        nd["neg"] = True
                    if rng.random() < 0.5:
                        it["needs"] = [nd]
                    elif rng.random() < 0.5:
                        it["needs"] = it["needs"] + [nd]
                    else:
                        it["needs"] = [nd] + it["needs"]
    return prog


def permute_decl(rng, prog, p=0.4, skip=()):
    """declare the frames of a framer in an order that is independent of the hierarchy (with probability p per
    framer; framers in `skip` are left alone): a random order, or the exact reverse (every child before its
    parent), so that `in` / `under` / `go` / `first` / `in frame` references point forward as well as backward.
    The hierarchy itself (who is over whom, which under is primary, where transitions lead) is kept; `next`
    keeps meaning the frame declared next, unless it is turned into an explicit target first."""
    for i in range(len(prog["framers"])):
        fr = prog["framers"][i]
        n = len(fr["frames"])
        if i in skip or n < 2 or rng.random() >= p:
            continue
        for _ in range(4):
            order = list(range(n))               # order[k] = old index of the frame declared k-th
            if rng.random() < 0.35:
                order.reverse()
            else:
                rng.shuffle(order)
            pos = {old: k for k, old in enumerate(order)}
            explicit = rng.random() < 0.5
            frames = []
            for old in order:
                f = json.loads(json.dumps(fr["frames"][old]))
                if f.get("over") is not None:
                    f["over"] = pos[f["over"]]
                if f.get("under") is not None:
                    f["under"] = pos[f["under"]]
                for it in f["items"]:
                    if it["t"] == "go":
                        if isinstance(it["far"], int):
                            it["far"] = pos[it["far"]]
                        elif it["far"] == "next" and explicit and old + 1 < n:
                            it["far"] = pos[old + 1]
                    for nd in it.get("needs", []):
                        if nd["k"] in ("ad", "up", "chg") and isinstance(nd.get("frame"), int):
                            nd["frame"] = pos[nd["frame"]]
                frames.append(f)
            cand = json.loads(json.dumps(prog))
            cand["framers"][i]["frames"] = frames
            cand["framers"][i]["first"] = pos[first_of(fr)]
            if valid(cand):
                prog = cand
                break
    return prog


def gen_program(rng, rich=1.0):
    """type-directed random program of the interpreted subset; always buildable by construction"""
    nsh = 3
    nmain = rng.choice([1, 1, 2, 2, 3])
    naux = rng.choice([0, 1, 1, 2, 2, 3])
    nfr = nmain + naux
    auxidx = list(range(nmain, nfr))
    ctx = (nsh, nfr, auxidx)
    tagc = [0]

    def rec(c, ret=0):
        tagc[0] += 1
        return {"t": "act", "ctx": c, "act": {"k": "rec", "tag": tagc[0], "ret": ret}}

    framers = []
    for i in range(nfr):
        is_aux = i >= nmain
        n = rng.choice([1, 2, 2, 3, 3, 4, 5])
        frames = []
        for j in range(n):
            over = rng.randrange(j) if j > 0 and rng.random() < 0.6 else None
            frames.append({"over": over, "under": None, "items": []})
        for j in range(n):
            kids = [k for k in range(n) if frames[k]["over"] == j]
            if len(kids) >= 2 and rng.random() < 0.4:
                frames[j]["under"] = rng.choice(kids)
        sched = "aux" if is_aux else ("inactive" if (i > 0 and rng.random() < 0.2) else "active")
        first = rng.randrange(n) if rng.random() < 0.3 else None
        framers.append({"sched": sched, "first": first, "frames": frames})
    mains = [i for i in range(nfr) if framers[i]["sched"] != "aux"]
    used_aux = set()

    def pick_aux(cands):
        """an auxiliary no other clause uses yet; now and then a shared one"""
        fresh = [a for a in cands if a not in used_aux]
        if fresh and rng.random() < 0.93:
            a = rng.choice(fresh)
        elif cands and (not fresh) and rng.random() < 0.9:
            return None
        else:
            a = rng.choice(cands)
        used_aux.add(a)
        return a
    for i, fr in enumerate(framers):
        is_aux = fr["sched"] == "aux"
        n = len(fr["frames"])
        usable_aux = [a for a in auxidx if a > i] if is_aux else list(auxidx)
        for j, f in enumerate(fr["frames"]):
            items = []
            for c, p in (("enter", 0.8), ("exit", 0.8), ("recur", 0.7), ("renter", 0.3), ("rexit", 0.3), ("precur", 0.3)):
                if rng.random() < p:
                    items.append(rec(c, ret=1 if (c == "precur" and rng.random() < 0.15) else 0))
            for _ in range(rng.choice([0, 0, 1, 1, 2])):
                c = rng.choice(["enter", "recur", "recur", "exit", "precur", "renter", "rexit"])
                k = rng.random()
                if k < 0.5:
                    a = {"k": "inc", "dst": rng.randrange(nsh), "v": rng.choice([1, 1, 1, 2, -1])}
                elif k < 0.7:
                    a = {"k": rng.choice(["put", "set"]), "dst": rng.randrange(nsh), "v": rng.randrange(0, 4)}
                elif k < 0.85:
                    a = {"k": "copy", "src": rng.randrange(nsh), "dst": rng.randrange(nsh)}
                else:
                    a = {"k": "incf", "dst": rng.randrange(nsh), "src": rng.randrange(nsh)}
                items.append({"t": "act", "ctx": c, "act": a})
            for _ in range(rng.choice([0, 1, 1, 1, 2, 2, 3])):
                r = rng.random()
                if r < 0.35 and j + 1 < n:
                    far = "next"
                elif r < 0.45:
                    far = "me"
                else:
                    far = rng.randrange(n)
                needs = [] if rng.random() < 0.12 else gen_needs(rng, ctx, i)
                items.append({"t": "go", "far": far, "needs": needs})
            if j + 1 < n and rng.random() < 0.12:
                items.append({"t": "timeout", "v": rng.choice([0, 8, 16, 24])})
            if j + 1 < n and rng.random() < 0.12:
                items.append({"t": "repeat", "n": rng.randrange(0, 4)})
            if rng.random() < 0.15:
                items.append({"t": "let", "needs": gen_needs(rng, ctx, i)})
            if usable_aux and rng.random() < 0.22 * rich:
                a = pick_aux(usable_aux)
                if a is not None:
                    items.append({"t": "aux", "aux": a, "needs": []})
            if usable_aux and rng.random() < 0.28 * rich:
                a = pick_aux(usable_aux)
                if a is not None:
                    items.append({"t": "aux", "aux": a, "needs": gen_needs(rng, ctx, i)})
            if mains and rng.random() < 0.10:
                ctl = rng.choice(["stop", "stop", "abort", "start", "run", "ready"])
                tg = rng.choice([["me"], ["all"], [rng.choice(mains)]])
                if is_aux and tg == ["me"]:
                    tg = [rng.choice(mains)]
                items.append({"t": "act", "ctx": rng.choice(["enter", "recur", "exit"]),
                              "act": {"k": "bid", "ctl": ctl, "targets": tg}})
            if rng.random() < (0.35 if is_aux else 0.05):
                items.append({"t": "act", "ctx": rng.choice(["enter", "recur", "precur"]), "act": {"k": "done"}})
            rng.shuffle(items)
            f["items"] = items
    return permute_decl(rng, add_markers(rng, {"ticks": rng.choice([4, 6, 8, 10, 12]), "period": rng.choice([8, 8, 4, 2, 1]),
                                               "shares": [rng.randrange(3) for _ in range(nsh)], "framers": framers}, 0.12))


def shrink_program(prog):
    """smaller variants of a program (each still `valid`)"""
    def ok(p):
        return valid(p)
    if prog["ticks"] > 1:
        p = json.loads(json.dumps(prog)); p["ticks"] -= 1
        yield p
    for i, fr in enumerate(prog["framers"]):
        for j, f in enumerate(fr["frames"]):
            for k in range(len(f["items"])):
                p = json.loads(json.dumps(prog))
                del p["framers"][i]["frames"][j]["items"][k]
                if ok(p):
                    yield p
            for k, it in enumerate(f["items"]):
                if it["t"] in ("go", "let", "aux") and len(it["needs"]) > (0 if it["t"] == "go" else 1):
                    for q in range(len(it["needs"])):
                        p = json.loads(json.dumps(prog))
                        del p["framers"][i]["frames"][j]["items"][k]["needs"][q]
                        if ok(p):
                            yield p
    # drop the last frame of a framer when nothing points at it
    for i, fr in enumerate(prog["framers"]):
        n = len(fr["frames"])
        if n <= 1:
            continue
        last = n - 1
        refs = first_of(fr) == last
        for j, f in enumerate(fr["frames"][:-1]):
            if f.get("over") == last or f.get("under") == last:
                refs = True
            for it in f["items"]:
                if it["t"] == "go" and (it["far"] == last or (it["far"] == "next" and j + 1 == last)):
                    refs = True
                if it["t"] in ("timeout", "repeat") and j + 1 == last:
                    refs = True
        if not refs:
            p = json.loads(json.dumps(prog))
            p["framers"][i]["frames"].pop()
            if ok(p):
                yield p
    # drop the last framer when nothing refers to it
    last = len(prog["framers"]) - 1
    if last >= 1:
        refs = False
        for fr in prog["framers"][:-1]:
            for f in fr["frames"]:
                for it in f["items"]:
                    if it["t"] == "aux" and it["aux"] == last:
                        refs = True
                    if it["t"] == "act" and it["act"]["k"] == "bid" and last in it["act"]["targets"]:
                        refs = True
                    for nd in it.get("needs", []):
                        if nd.get("fr") == last:
                            refs = True
        if not refs:
            p = json.loads(json.dumps(prog))
            p["framers"].pop()
            if ok(p) and taskables(p):
                yield p


# ----------------------------------------------------------------------------- targeted generators

def _recs(rng, tagc, full=False):
    items = []
    for c, p in (("enter", 0.9), ("exit", 0.9), ("recur", 0.8), ("renter", 0.35), ("rexit", 0.35), ("precur", 0.25)):
        if full or rng.random() < p:
            tagc[0] += 1
            items.append({"t": "act", "ctx": c, "act": {"k": "rec", "tag": tagc[0], "ret": 0}})
    return items


def _clock_need(rng, lo=1, hi=7):
    """a condition on the tick counter .v0 that flips at a chosen tick"""
    r = rng.random()
    if r < 0.7:
        return {"k": "cd", "sh": 0, "op": ">=", "v": rng.randrange(lo, hi)}
    if r < 0.85:
        return {"k": "cd", "sh": 0, "op": "==", "v": rng.randrange(lo, hi)}
    return {"k": "cd", "sh": 0, "op": "<", "v": rng.randrange(lo, hi)}


def gen_aux_framer(rng, tagc, alloc, level, full=False):
    """an auxiliary that completes after n runs (n = 0: in its first run), or never; `alloc(level)` creates a
    further auxiliary framer (or returns an existing one, rarely) for a nested clause"""
    style = rng.random()
    frames = []
    first_items = _recs(rng, tagc, full)
    if style < 0.2:                      # done in the first run
        first_items.append({"t": "act", "ctx": rng.choice(["enter", "recur"]), "act": {"k": "done"}})
        frames.append({"over": None, "under": None, "items": first_items})
    elif style < 0.85:                   # done after n more runs
        n = rng.randrange(0, 4)
        nested = rng.random() < 0.4
        if nested:
            frames.append({"over": None, "under": None, "items": first_items})
            frames.append({"over": 0, "under": None, "items": _recs(rng, tagc, full) + [
                {"t": "go", "far": 2, "needs": [{"k": "re", "op": ">=", "n": n}]}]})
            frames.append({"over": None, "under": None, "items": _recs(rng, tagc, full) + [
                {"t": "act", "ctx": "enter", "act": {"k": "done"}}]})
        else:
            first_items.append({"t": "go", "far": "next", "needs": [{"k": "re", "op": ">=", "n": n}]})
            frames.append({"over": None, "under": None, "items": first_items})
            frames.append({"over": None, "under": None, "items": _recs(rng, tagc, full) + [
                {"t": "act", "ctx": rng.choice(["enter", "recur"]), "act": {"k": "done"}}]})
    else:                                # never done
        frames.append({"over": None, "under": None, "items": first_items})
    if rng.random() < 0.12:
        frames[0]["items"].append({"t": "let", "needs": [_clock_need(rng)]})
    if rng.random() < 0.3:
        frames[0]["items"].append({"t": "act", "ctx": rng.choice(["enter", "recur", "exit"]),
                                   "act": {"k": "inc", "dst": rng.choice([1, 2]), "v": 1}})
    if level < 2 and rng.random() < 0.3:
        a = alloc(level + 1)
        if a is not None:
            frames[0]["items"].append({"t": "aux", "aux": a, "needs": [] if rng.random() < 0.4 else [_clock_need(rng)]})
    for f in frames:
        rng.shuffle(f["items"])
    return {"sched": "aux", "first": None, "frames": frames}


def gen_susp(rng, full=False, share=0.04):
    """programs centred on conditional auxiliaries at several depths, transitions out of suspended outlines,
    stop/abort bids at arbitrary ticks; .v0 is a tick counter driven by a clock framer"""
    tagc = [0]
    nmain = rng.choice([1, 1, 2])
    clock = 0
    mains = list(range(1, 1 + nmain))
    framers = [None] * (1 + nmain)
    # share: probability that a clause reuses an auxiliary of another clause (any level, any framer)

    def alloc(level):
        """index of the auxiliary framer for a new `aux` clause"""
        existing = [k for k in range(1 + nmain, len(framers)) if framers[k] is not None]
        if existing and rng.random() < share and level <= 1:
            return rng.choice(existing)
        if len(framers) >= 1 + nmain + 7:
            return None
        k = len(framers)
        framers.append(None)
        framers[k] = gen_aux_framer(rng, tagc, alloc, level, full)
        return k
    auxidx = None
    # clock framer: counts ticks in .v0 and may bid at a chosen tick
    citems = [{"t": "act", "ctx": "recur", "act": {"k": "inc", "dst": 0, "v": 1}}]
    cframes = [{"over": None, "under": None, "items": citems}]
    if rng.random() < 0.5:
        citems.append({"t": "go", "far": "next", "needs": [{"k": "cd", "sh": 0, "op": ">=", "v": rng.randrange(2, 8)}]})
        cframes.append({"over": None, "under": None, "items": [
            {"t": "act", "ctx": "recur", "act": {"k": "inc", "dst": 0, "v": 1}},
            {"t": "act", "ctx": "enter", "act": {"k": "bid", "ctl": rng.choice(["stop", "stop", "abort"]),
                                                  "targets": [rng.choice(mains)]}}]})
        if rng.random() < 0.4:
            cframes[1]["items"].append({"t": "go", "far": "next", "needs": [{"k": "re", "op": ">=", "n": rng.randrange(1, 3)}]})
            cframes.append({"over": None, "under": None, "items": [
                {"t": "act", "ctx": "recur", "act": {"k": "inc", "dst": 0, "v": 1}},
                {"t": "act", "ctx": "enter", "act": {"k": "bid", "ctl": "start", "targets": [rng.choice(mains)]}}]})
    framers[clock] = {"sched": "active", "first": None, "frames": cframes}
    for m in mains:
        depth = rng.choice([2, 3, 3, 4])
        nextra = rng.choice([1, 2, 3])
        frames = []
        for d in range(depth):
            frames.append({"over": d - 1 if d > 0 else None, "under": None, "items": _recs(rng, tagc, full)})
        for e in range(nextra):              # siblings / other subtrees
            over = rng.choice([None] + list(range(depth - 1)))
            frames.append({"over": over, "under": None, "items": _recs(rng, tagc, full)})
        n = len(frames)
        first_guess = rng.randrange(n) if rng.random() < 0.2 else 0
        for j in range(n):
            kids = [k for k in range(n) if frames[k]["over"] == j]
            if len(kids) >= 2 and rng.random() < 0.3:
                frames[j]["under"] = rng.choice(kids)
        for j, f in enumerate(frames):
            its = f["items"]
            r = rng.random()
            if r < 0.55:                     # conditional aux(es)
                for _ in range(1 if rng.random() < 0.8 else 2):
                    nds = [_clock_need(rng, 1, 4) if rng.random() < 0.4 else _clock_need(rng)]
                    if rng.random() < 0.2:
                        nds.append({"k": "cd", "sh": rng.choice([1, 2]), "op": rng.choice(["<", ">=", "=="]), "v": rng.randrange(3)})
                    a = alloc(0)
                    if a is not None:
                        its.append({"t": "aux", "aux": a, "needs": nds})
                        if nds[0]["op"] == ">=" and rng.random() < 0.5:
                            # a transition that becomes possible a few ticks after the auxiliary starts, evaluated before
                            # the clause (same frame, placed before it below; or a frame above): it fires while the outline
                            # is cut — onto this frame, the first (usually active) frame, an ancestor or anywhere
                            chain, k = [j], f.get("over")
                            while k is not None:
                                chain.append(k)
                                k = frames[k].get("over")
                            far = rng.choice([j, j, first_guess, chain[-1], rng.choice(chain), rng.randrange(n)])
                            go = {"t": "go", "far": far,
                                  "needs": [{"k": "cd", "sh": 0, "op": ">=", "v": nds[0]["v"] + rng.choice([1, 2, 2, 3])}]}
                            where = rng.choice(chain)
                            if where == j:
                                go["_before"] = a
                                its.append(go)
                            else:
                                frames[where]["items"].append(go)
            if rng.random() < 0.15:
                a = alloc(0)
                if a is not None:
                    its.append({"t": "aux", "aux": a, "needs": []})
            for _ in range(rng.choice([0, 0, 1, 1, 2])):
                far = rng.choice(["me", "next"] if j + 1 < n else ["me"]) if rng.random() < 0.3 else rng.randrange(n)
                nds = [_clock_need(rng)] if rng.random() < 0.8 else [{"k": "re", "op": ">=", "n": rng.randrange(1, 5)}]
                if rng.random() < 0.15 and len(framers) > 1 + nmain:
                    nds.append({"k": "dn", "fr": rng.randrange(1 + nmain, len(framers)), "neg": rng.random() < 0.5})
                its.append({"t": "go", "far": far, "needs": nds})
            if j + 1 < n and rng.random() < 0.1:
                its.append({"t": "timeout", "v": rng.choice([8, 16, 24, 32])})
            if rng.random() < 0.1:               # a guard that is open at the start and closes later, or the reverse
                its.append({"t": "let", "needs": [{"k": "cd", "sh": 0, "op": "<", "v": rng.randrange(2, 8)}
                                                  if rng.random() < 0.6 else _clock_need(rng)]})
            if rng.random() < 0.05:
                its.append({"t": "act", "ctx": rng.choice(["enter", "recur", "exit"]),
                            "act": {"k": "bid", "ctl": rng.choice(["stop", "abort"]), "targets": ["me"]}})
            if rng.random() < 0.25:
                its.append({"t": "act", "ctx": rng.choice(["enter", "recur", "exit", "renter", "rexit"]),
                            "act": {"k": "inc", "dst": rng.choice([1, 2]), "v": 1}})
            rng.shuffle(its)
            for it in [it for it in its if "_before" in it]:       # keep the planned order: transition, then its clause
                a = it.pop("_before")
                its.remove(it)
                at = min(q for q, o in enumerate(its) if o["t"] == "aux" and o["aux"] == a and o["needs"])
                its.insert(at, it)
        framers[m] = {"sched": "active" if rng.random() < 0.9 else "inactive",
                      "first": first_guess if first_guess else None, "frames": frames}
    return permute_decl(rng, add_markers(rng, {"ticks": rng.choice([6, 8, 10, 12, 14]), "period": rng.choice([8, 8, 4, 1]),
                                               "shares": [0, rng.randrange(3), rng.randrange(3)], "framers": framers},
                                         0.08, skip=(0,)), skip=(0,))


def fill_recs(prog, rng=None):
    """give every frame a recorder deed in each of the six contexts (needed to observe enter/exit bracketing);
    new deeds get fresh tags and are inserted at the front of the frame's items"""
    tags = [it["act"]["tag"] for fr in prog["framers"] for f in fr["frames"] for it in f["items"]
            if it["t"] == "act" and it["act"]["k"] == "rec"]
    nxt = max(tags + [0]) + 1
    for fr in prog["framers"]:
        for f in fr["frames"]:
            have = {it["ctx"] for it in f["items"] if it["t"] == "act" and it["act"]["k"] == "rec"}
            for c in ("enter", "exit", "recur", "renter", "rexit", "precur"):
                if c not in have:
                    f["items"].insert(0, {"t": "act", "ctx": c, "act": {"k": "rec", "tag": nxt, "ret": 0}})
                    nxt += 1
    return prog


def clone_shape(rng, framers, frames, depth, new_aux, tagc, ctag):
    """add a moot framer M and a named clone of it to the main framer under construction (`frames`, whose first `depth`
    frames form one chain): M's frame names an original auxiliary y — directly, or through an original auxiliary w
    whose first frame names y — and, except in the `alone` variant, another frame of the chain names y too, above or
    below the clone's frame, with or without a further original z claimed before the clone.  The items of a frame
    are shuffled afterwards, so the clause order within a frame varies as well."""
    y = new_aux(1)
    if y is None:
        return
    kind = rng.choice(["clone-above", "clone-below", "after-z", "deep", "alone"])
    inner = y
    if kind == "deep":
        w = new_aux(1)
        if w is not None:
            framers[w]["frames"][0]["items"].append({"t": "aux", "aux": y, "needs": []})
            inner = w
    m = len(framers)
    framers.append({"sched": "moot", "first": None, "frames": [
        {"over": None, "under": None, "items": _recs(rng, tagc, True) + [{"t": "aux", "aux": inner, "needs": []}]}]})
    ctag[0] += 1
    clause = {"t": "aux", "aux": m, "as": "c%d" % ctag[0], "needs": []}
    a, b = (sorted(rng.sample(range(depth), 2)) if depth >= 2 else (0, 0))
    if kind == "clone-below":
        a, b = b, a
    frames[a]["items"].append(clause)
    if kind == "after-z":
        z = new_aux(1)
        if z is not None:
            frames[a]["items"].append({"t": "aux", "aux": z, "needs": []})
    if kind != "alone":
        frames[b]["items"].append({"t": "aux", "aux": y, "needs": []})


def gen_guards(rng):
    """programs centred on entry guards: `let` guards at several depths on shares that only the clock framer
    writes (.v0 = tick counter, .v1 = a flag the clock flips at chosen ticks), transitions whose targets are
    guarded, auxiliaries (plain and conditional) whose first frames are guarded, an original auxiliary named by
    two frames (also through auxiliaries of auxiliaries and named clones of moot framers).  .v2 is free for frame
    actions."""
    tagc = [0]
    ctag = [0]

    def guard():
        r = rng.random()
        if r < 0.45:
            return {"k": "cd", "sh": 1, "op": "==", "v": rng.choice([0, 1])}
        if r < 0.8:
            return {"k": "cd", "sh": 0, "op": rng.choice([">=", "<"]), "v": rng.randrange(1, 8)}
        return {"k": "cd", "sh": 0, "op": rng.choice(["==", "!="]), "v": rng.randrange(1, 8)}

    def fr(over=None):
        return {"over": over, "under": None, "items": _recs(rng, tagc, True)}

    # clock: counts ticks in .v0, flips .v1 at chosen ticks
    flips = sorted(rng.sample(range(1, 9), rng.choice([1, 2, 3])))
    cframes = []
    val = rng.choice([0, 1])
    init_v1 = val
    v1_at = []                              # value of .v1 while the clock is in its n-th frame
    for n, t in enumerate(flips + [None]):
        items = [{"t": "act", "ctx": "recur", "act": {"k": "inc", "dst": 0, "v": 1}}]
        if n > 0:
            val = 1 - val
            items.append({"t": "act", "ctx": "enter", "act": {"k": "put", "dst": 1, "v": val}})
        if t is not None:
            items.append({"t": "go", "far": "next", "needs": [{"k": "cd", "sh": 0, "op": ">=", "v": t}]})
        v1_at.append(val)
        cframes.append({"over": None, "under": None, "items": items})
    framers = [{"sched": "active", "first": None, "frames": cframes}]
    nmain = rng.choice([1, 2, 2])
    for _ in range(nmain):
        framers.append(None)
    naux_cap = 5

    def reuse():
        """a completed auxiliary of any level, named by some clause already"""
        done = [k for k in range(1 + nmain, len(framers)) if framers[k] is not None and framers[k]["sched"] == "aux"]
        return rng.choice(done) if done else None

    def new_aux(level):
        if len(framers) >= 1 + nmain + naux_cap:
            return None
        k = len(framers)
        framers.append(None)
        n = rng.choice([1, 2, 2])
        frames = [fr()]
        if n == 2:
            frames.append(fr(0 if rng.random() < 0.6 else None))
        for f in frames:
            if rng.random() < 0.5:
                f["items"].append({"t": "let", "needs": [guard()]})
        if rng.random() < 0.6:
            frames[0]["items"].append({"t": "go", "far": "me" if n == 1 else 1,
                                       "needs": [{"k": "re", "op": ">=", "n": rng.randrange(1, 4)}]})
        if rng.random() < 0.5:
            frames[-1]["items"].append({"t": "act", "ctx": rng.choice(["enter", "recur"]), "act": {"k": "done"}})
        if level < 1 and rng.random() < 0.3:
            a = reuse() if rng.random() < 0.3 else new_aux(level + 1)
            if a is not None:
                frames[0]["items"].append({"t": "aux", "aux": a, "needs": [] if rng.random() < 0.6 else [guard()]})
        for f in frames:
            rng.shuffle(f["items"])
        framers[k] = {"sched": "aux", "first": None, "frames": frames}
        return k

    for m in range(1, 1 + nmain):
        depth = rng.choice([1, 2, 3])
        frames = [fr(d - 1 if d > 0 else None) for d in range(depth)]
        for _ in range(rng.choice([1, 2, 3])):
            frames.append(fr(rng.choice([None] + list(range(depth)))))
        n = len(frames)
        shared = None
        for j, f in enumerate(frames):
            its = f["items"]
            if rng.random() < 0.55:
                its.append({"t": "let", "needs": [guard()] + ([guard()] if rng.random() < 0.2 else [])})
            for _ in range(rng.choice([1, 1, 2, 3])):
                far = rng.choice(["next", "me"]) if (rng.random() < 0.25 and j + 1 < n) else rng.randrange(n)
                r = rng.random()
                if r < 0.5:
                    nds = [{"k": "cd", "sh": 0, "op": ">=", "v": rng.randrange(1, 8)}]
                elif r < 0.8:
                    nds = [{"k": "re", "op": ">=", "n": rng.randrange(0, 4)}]
                else:
                    nds = []
                its.append({"t": "go", "far": far, "needs": nds})
            if rng.random() < 0.3:
                a = new_aux(0)
                if a is not None:
                    its.append({"t": "aux", "aux": a, "needs": []})
                    if shared is None:
                        shared = a
                    if rng.random() < 0.4:
                        # the frame is entered again (forced re-entry onto itself or an ancestor) at a chosen tick while
                        # its auxiliary may still run; the auxiliary's first frame is guarded by the flag the clock flips
                        af = framers[a]["frames"][0]
                        if not any(it["t"] == "let" for it in af["items"]):
                            af["items"].append({"t": "let", "needs": [{"k": "cd", "sh": 1, "op": "==", "v": rng.choice(v1_at)}]})
                        its.append({"t": "go", "far": rng.choice(["me", "me", f["over"] if f.get("over") is not None else "me"]),
                                    "needs": [{"k": "cd", "sh": 0, "op": rng.choice([">=", "=="]), "v": rng.randrange(1, 8)}]})
            elif shared is not None and rng.random() < 0.35:
                its.append({"t": "aux", "aux": shared, "needs": []})       # original aux reachable from two frames
            elif rng.random() < 0.15:
                a = reuse()                                                # … or an auxiliary of an auxiliary
                if a is not None:
                    its.append({"t": "aux", "aux": a, "needs": []})
            if rng.random() < 0.25:
                a = new_aux(0)
                if a is not None:
                    its.append({"t": "aux", "aux": a, "needs": [guard()]})
            if rng.random() < 0.2:
                its.append({"t": "act", "ctx": rng.choice(["enter", "exit", "recur"]), "act": {"k": "inc", "dst": 2, "v": 1}})
            if rng.random() < 0.06:
                its.append({"t": "act", "ctx": "recur", "act": {"k": "bid", "ctl": "stop", "targets": ["me"]}})
            rng.shuffle(its)
        if rng.random() < 0.12:
            clone_shape(rng, framers, frames, depth, new_aux, tagc, ctag)
        if depth >= 2 and rng.random() < 0.1:
            # an auxiliary y of one frame whose own first frame names z, and z named by another frame of the same
            # outline as well: one entry would claim z twice, once through y
            z = new_aux(1)
            y = new_aux(1) if z is not None else None
            if y is not None:
                framers[y]["frames"][0]["items"].append({"t": "aux", "aux": z, "needs": []})
                a, b = rng.sample(range(depth), 2)
                frames[a]["items"].append({"t": "aux", "aux": y, "needs": []})
                frames[b]["items"].append({"t": "aux", "aux": z, "needs": []})
        framers[m] = {"sched": "active" if rng.random() < 0.85 else "inactive",
                      "first": rng.randrange(n) if rng.random() < 0.3 else None, "frames": frames}
    if rng.random() < 0.45 and len(cframes) >= 2:
        # control sequences on a framer that does not start by itself: the clock bids `ready` in one of its frames and
        # `start` (or `ready` again, `stop`) in a later one — whose enter action also flips .v1, in the same tick and
        # before the target runs; often the target's first frame is guarded by the value .v1 had in between
        x = rng.randrange(1, 1 + nmain)
        framers[x]["sched"] = "inactive"
        a = rng.randrange(0, len(cframes) - 1)
        b = rng.randrange(a + 1, len(cframes))
        cframes[a]["items"].append({"t": "act", "ctx": "enter", "act": {"k": "bid", "ctl": "ready", "targets": [x]}})
        cframes[b]["items"].append({"t": "act", "ctx": "enter",
                                    "act": {"k": "bid", "ctl": rng.choice(["start", "start", "start", "ready", "stop"]),
                                            "targets": [x]}})
        if rng.random() < 0.7:
            fx = framers[x]["frames"][first_of(framers[x])]
            fx["items"] = [it for it in fx["items"] if it["t"] != "let"]
            fx["items"].append({"t": "let", "needs": [{"k": "cd", "sh": 1, "op": "==", "v": v1_at[b - 1]}]})
    if rng.random() < 0.5 and nmain >= 1:       # the clock (re)starts a main framer at some tick
        cframes[-1]["items"].append({"t": "act", "ctx": "enter", "act": {"k": "bid", "ctl": "start",
                                                                          "targets": [rng.randrange(1, 1 + nmain)]}})
    return permute_decl(rng, add_markers(rng, {"ticks": rng.choice([8, 10, 12]), "period": rng.choice([8, 4, 1]),
                                               "shares": [0, init_v1, 0], "framers": framers}, 0.3, skip=(0,)), skip=(0,))


def gen_auxes(rng, named_done=True):
    """programs centred on plain auxiliaries: auxiliaries at several levels (auxiliaries of auxiliaries), several
    per frame, rarely an original shared by two frames; `done me` / `done <aux>` verbs; transitions conditioned on
    `any|all|<aux> in frame … is done` and `<aux> is done`; a clock framer counts ticks in .v0"""
    tagc = [0]
    ctag = [0]
    nmain = rng.choice([1, 1, 2])
    framers = [None] * (1 + nmain)
    framers[0] = {"sched": "active", "first": None, "frames": [
        {"over": None, "under": None, "items": [{"t": "act", "ctx": "recur", "act": {"k": "inc", "dst": 0, "v": 1}}]}]}

    def fr(over=None):
        return {"over": over, "under": None, "items": _recs(rng, tagc, True)}

    def done_need(i_frames_auxes, j):
        """a done-condition about the plain auxiliaries of frame j (local) of the framer under construction"""
        auxes = i_frames_auxes.get(j, [])
        r = rng.random()
        if r < 0.3:
            nd = {"k": "ad", "which": "any", "frame": None if rng.random() < 0.6 else j}
        elif r < 0.6:
            nd = {"k": "ad", "which": "all", "frame": None if rng.random() < 0.6 else j}
        elif auxes and r < 0.85:
            nd = {"k": "ad", "which": rng.choice(auxes), "frame": j if rng.random() < 0.5 else None}
        elif auxes:
            nd = {"k": "dn", "fr": rng.choice(auxes)}
        else:
            nd = {"k": "ad", "which": "any", "frame": None}
        if rng.random() < 0.2:
            nd["neg"] = True
        return nd

    def new_aux(level):
        if len(framers) >= 1 + nmain + 7:
            return None
        k = len(framers)
        framers.append(None)
        n = rng.choice([1, 2, 2, 3])
        frames = [fr()]
        for d in range(1, n):
            frames.append(fr(rng.choice([None, d - 1])))
        style = rng.random()
        for j, f in enumerate(frames):
            if j + 1 < n and rng.random() < 0.8:
                f["items"].append({"t": "go", "far": "next", "needs": [{"k": "re", "op": ">=", "n": rng.randrange(0, 3)}]})
        if style < 0.75:
            frames[rng.randrange(n) if rng.random() < 0.3 else n - 1]["items"].append(
                {"t": "act", "ctx": rng.choice(["enter", "recur", "recur", "exit"]), "act": {"k": "done"}})
        mine = {}
        if level < 2 and rng.random() < 0.35:
            a = new_aux(level + 1)
            if a is not None:
                j = rng.randrange(n)
                frames[j]["items"].append({"t": "aux", "aux": a, "needs": []})
                mine[j] = [a]
                if rng.random() < 0.6:
                    frames[j]["items"].append({"t": "go", "far": rng.randrange(n), "needs": [done_need(mine, j)]})
        for f in frames:
            rng.shuffle(f["items"])
        framers[k] = {"sched": "aux", "first": None, "frames": frames}
        return k

    for m in range(1, 1 + nmain):
        depth = rng.choice([1, 2, 3])
        frames = [fr(d - 1 if d > 0 else None) for d in range(depth)]
        for _ in range(rng.choice([1, 2, 3])):
            frames.append(fr(rng.choice([None] + list(range(depth)))))
        n = len(frames)
        mine = {}
        pool = []
        for j, f in enumerate(frames):
            for _ in range(rng.choice([0, 1, 1, 2])):
                r = rng.random()
                deep = [k for k in range(1 + nmain, len(framers))
                        if framers[k] is not None and framers[k]["sched"] == "aux" and k not in pool]
                if pool and r < 0.06:
                    a = rng.choice(pool)                   # an original auxiliary named by a second frame
                elif deep and r < 0.12:
                    a = rng.choice(deep)                   # … or named by an auxiliary's frame (any level) already
                else:
                    a = new_aux(0)
                if a is not None and a not in mine.get(j, []):
                    f["items"].append({"t": "aux", "aux": a, "needs": []})
                    mine.setdefault(j, []).append(a)
                    pool.append(a)
        if rng.random() < 0.25:
            clone_shape(rng, framers, frames, depth, new_aux, tagc, ctag)
        for j, f in enumerate(frames):
            its = f["items"]
            for _ in range(rng.choice([1, 1, 2, 3])):
                far = rng.choice(["next", "me"]) if (rng.random() < 0.25 and j + 1 < n) else rng.randrange(n)
                r = rng.random()
                if r < 0.5:
                    nds = [done_need(mine, j)]
                elif r < 0.75:
                    nds = [{"k": "cd", "sh": 0, "op": ">=", "v": rng.randrange(1, 8)}]
                else:
                    nds = [{"k": "re", "op": ">=", "n": rng.randrange(1, 4)}]
                if rng.random() < 0.15:
                    nds.append(done_need(mine, j))
                its.append({"t": "go", "far": far, "needs": nds})
            if named_done and mine.get(j) and rng.random() < 0.25:
                its.append({"t": "act", "ctx": rng.choice(["recur", "enter", "exit", "precur"]),
                            "act": {"k": "done", "targets": [rng.choice(mine[j])] + (["me"] if rng.random() < 0.2 else [])}})
            if rng.random() < 0.15:
                its.append({"t": "let", "needs": [done_need(mine, j)]})
            if rng.random() < 0.05:
                its.append({"t": "act", "ctx": "recur", "act": {"k": "bid", "ctl": rng.choice(["stop", "abort"]), "targets": ["me"]}})
            rng.shuffle(its)
        framers[m] = {"sched": "active", "first": rng.randrange(n) if rng.random() < 0.25 else None, "frames": frames}
    return permute_decl(rng, {"ticks": rng.choice([6, 8, 10, 12]), "period": rng.choice([8, 4, 1]), "shares": [0, 0, 0],
                              "framers": framers}, skip=(0,))
