"""Reference interpreter of the documented FloScript semantics, in plain Python (oracle of C07).

Written from the docstrings of framing.py / acting.py / needing.py / poking.py / skedding.py, NOT from the Lean
model: it works on the program dict of floeng.py directly, with objects and recursion.  It produces the same
canonical lines as floeng.run_impl so that the implementation can be compared with it line by line.

Documented rules encoded here
  * an outline is the chain of `over` links down to the frame, then primary unders to a leaf (first `under`
    override, else first attached child); the head is the part down to the frame
  * a run of a started/running framer = segue then recur; segue updates elapsed/recurred, segues the plain auxes
    of the active frames top-down, then evaluates the preacts of the active frames top-down, in declaration
    order, and stops at the first preact that returns something truthy
  * a transition needs all its conditions, then all entry guards of the frames to be entered; the frames exited /
    entered are given by the first difference of the two outlines (or the position of the target itself)
  * order of a transition: exit acts bottom-up (auxes of a frame first, conditional auxes last), rexit bottom-up,
    renter top-down, enter top-down (acts then auxes), activation
  * `share is updated [in frame f]`: the share was written (by a running framer) after the mark `framer<f` was
    last set, or at the very time it was set unless a taken transition already used that time; `share is changed`:
    the value differs from the one saved in the mark (an unset mark counts as updated/changed).  The mark is set
    when frame f is entered (before its other enter actions, only with an `in frame` clause) and by every taken
    transition / started conditional auxiliary that carries the need (transit sub-context, after all checks)
  * a conditional aux: enter + one recur when its needs hold and it is done; if not done afterwards the outline
    is cut at its main frame; while not done: segue + recur each run; when done: exit it, restore the outline
"""
import floeng

UP = ("started", "running")
DOWN = ("stopped", "readied")


class Frame(object):
    def __init__(self, gid, framer):
        self.gid = gid
        self.framer = framer
        self.over = None
        self.unders = []
        self.outline = []
        self.head = []
        self.beacts, self.enacts, self.renacts, self.reacts, self.exacts, self.rexacts = [], [], [], [], [], []
        self.preacts = []
        self.auxes = []
        self.condauxes = []


class Framer(object):
    def __init__(self, idx, sched):
        self.idx = idx
        self.sched = sched
        self.status = "stopped"
        self.desire = "stop"
        self.done = True
        self.active = None
        self.actives = []
        self.main = None
        self.original = True
        self.stamp = 0
        self.elapsed = 0
        self.recurred = 0
        self.frames = []
        self.first = None


class Machine(object):
    def __init__(self, prog):
        prog = floeng.expand(prog)          # named clones of moot framers as explicit (non-original) auxiliaries
        self.prog = prog
        self.now = 0
        self.vals = list(prog["shares"])
        self.stamps = [None] * len(prog["shares"])          # time of the last write by a running framer
        self.marks = {}                                     # (share, key) -> {"stamp", "used", "data"}
        self.log = []
        self.cov = {}
        self.outcomes = {}          # id(need dict) -> set of outcomes seen
        self.framers = [Framer(i, fr["sched"]) for i, fr in enumerate(prog["framers"])]
        for F, fr in zip(self.framers, prog["framers"]):
            F.original = fr.get("original", True)   # a clone belongs to its one clause: never claimed, never released
        g = 0
        for i, fr in enumerate(prog["framers"]):
            F = self.framers[i]
            for j, f in enumerate(fr["frames"]):
                F.frames.append(Frame(g, F))
                g += 1
        for i, fr in enumerate(prog["framers"]):
            self.link(self.framers[i], fr)
            self.fill(self.framers[i], fr)
        for pr in floeng.mark_pairs(prog):
            self.marks[pr] = {"stamp": None, "used": None, "data": None}

    # ---------------------------------------------------------------- build
    def link(self, F, fr):
        fs = F.frames
        for j, f in enumerate(fr["frames"]):
            if f.get("over") is not None:
                fs[j].over = fs[f["over"]]
        # children of a frame, in the order in which they get attached: each frame in declaration order climbs
        # its over links and attaches what is not attached yet
        attached = set()
        for j in range(len(fs)):
            child = fs[j]
            while child.over is not None and child.gid not in attached:
                child.over.unders.append(child)
                attached.add(child.gid)
                child = child.over
        # an `under` declaration makes that frame the primary (first) under
        for j, f in enumerate(fr["frames"]):
            if f.get("under") is not None:
                u = fs[f["under"]]
                if u in fs[j].unders:
                    fs[j].unders.remove(u)
                fs[j].unders.insert(0, u)
        for f in fs:
            h, x = [], f
            while x is not None:
                h.append(x); x = x.over
            h.reverse()
            f.head = h
            o, x = list(h), (f.unders[0] if f.unders else None)
            while x is not None:
                o.append(x); x = x.unders[0] if x.unders else None
            f.outline = o
        F.first = fs[floeng.first_of(fr)]

    def fill(self, F, fr):
        i = F.idx
        for j, ents in floeng.marker_enacts(self.prog, i).items():       # enter markers come first
            for (kind, sh, key) in ents:
                F.frames[j].enacts.append({"k": kind, "sh": sh, "key": key, "transit": False})
        for j, f in enumerate(fr["frames"]):
            fm = F.frames[j]
            fm.local = j
            for it in f["items"]:
                t = it["t"]
                if t == "act":
                    {"enter": fm.enacts, "renter": fm.renacts, "recur": fm.reacts, "exit": fm.exacts,
                     "rexit": fm.rexacts, "precur": fm.preacts}[it["ctx"]].append(("act", it["act"]) if it["ctx"] == "precur" else it["act"])
                elif t == "go":
                    far = floeng.far_of(self.prog, i, j, it["far"])
                    fm.preacts.append(("go", it["needs"], self.frame(far)))
                elif t == "timeout":
                    fm.preacts.append(("go", [{"k": "el", "op": ">=", "v": it["v"]}], F.frames[j + 1]))
                elif t == "repeat":
                    fm.preacts.append(("go", [{"k": "re", "op": ">=", "n": it["n"]}], F.frames[j + 1]))
                elif t == "let":
                    fm.beacts.extend(it["needs"])
                elif t == "aux":
                    if it["needs"]:
                        fm.preacts.append(("aux", it["needs"], self.framers[it["aux"]]))
                        fm.condauxes.append(self.framers[it["aux"]])
                    else:
                        fm.auxes.append(self.framers[it["aux"]])
                    if not self.framers[it["aux"]].original:
                        self.framers[it["aux"]].main = fm       # a clone belongs to the frame of its clause for good

    def hit(self, key):
        self.cov[key] = self.cov.get(key, 0) + 1

    def frame(self, gid):
        for F in self.framers:
            for f in F.frames:
                if f.gid == gid:
                    return f

    # ---------------------------------------------------------------- conditions and actions
    def need(self, nd, F, fm=None):
        k = nd["k"]
        cmp = lambda a, op, b: {"==": a == b, "!=": a != b, "<": a < b, "<=": a <= b, ">=": a >= b, ">": a > b}[op]
        if k == "cd":
            r = cmp(self.vals[nd["sh"]], nd["op"], nd["v"])
        elif k == "ci":
            r = cmp(self.vals[nd["a"]], nd["op"], self.vals[nd["b"]])
        elif k == "bo":
            r = bool(self.vals[nd["sh"]])
        elif k == "el":
            r = cmp(F.elapsed, nd["op"], nd["v"])
        elif k == "re":
            r = cmp(F.recurred, nd["op"], nd["n"])
        elif k == "dn":
            r = self.framers[nd["fr"]].done
        elif k == "st":
            r = self.framers[nd["fr"]].status == nd["st"]
        elif k == "up":
            mk = self.marks[(nd["sh"], floeng.mark_key(self.prog, F.idx, fm.local, nd))]
            st = self.stamps[nd["sh"]]
            r = st is not None and (mk["stamp"] is None or st > mk["stamp"] or
                                    (st == mk["stamp"] and mk["used"] != mk["stamp"]))
        elif k == "chg":
            mk = self.marks[(nd["sh"], floeng.mark_key(self.prog, F.idx, fm.local, nd))]
            r = mk["data"] is None or mk["data"] != self.vals[nd["sh"]]
        elif k == "ad":
            frame = fm if nd.get("frame") is None else F.frames[nd["frame"]]
            if nd["which"] == "any":
                r = any(a.done for a in frame.auxes)
            elif nd["which"] == "all":
                r = bool(frame.auxes) and all(a.done for a in frame.auxes)
            else:
                a = self.framers[nd["which"]]
                r = (a in frame.auxes) and a.done
        r = (not r) if nd.get("neg") else r
        self.outcomes.setdefault(id(nd), set()).add(bool(r))
        return r

    def needs(self, nds, F, fm=None):
        return all(self.need(nd, F, fm) for nd in nds)

    def act(self, a, fm, ctx):
        k = a["k"]
        if k == "rec":
            self.log.append("E f%d %s %d" % (fm.gid, ctx, a["tag"]))
            return bool(a.get("ret", 0))
        if k in ("put", "set", "inc", "incf", "copy"):
            self.stamps[a["dst"]] = self.now
        if k == "mku":
            mk = self.marks[(a["sh"], a["key"])]
            mk["stamp"] = self.now
            if a["transit"]:
                mk["used"] = self.now
        elif k == "mkc":
            self.marks[(a["sh"], a["key"])]["data"] = self.vals[a["sh"]]
        elif k in ("put", "set"):
            self.vals[a["dst"]] = a["v"]
        elif k == "inc":
            self.vals[a["dst"]] += a["v"]
        elif k == "incf":
            self.vals[a["dst"]] += self.vals[a["src"]]
        elif k == "copy":
            self.vals[a["dst"]] = self.vals[a["src"]]
        elif k == "done":
            for t in a.get("targets", ["me"]):
                (fm.framer if t == "me" else self.framers[t]).done = True
        elif k == "bid":
            for t in a["targets"]:
                tg = [self.framers[x] for x in floeng.taskables(self.prog)] if t == "all" else \
                     [fm.framer] if t == "me" else [self.framers[t]]
                for T in tg:
                    T.desire = a["ctl"]
        return False

    # ---------------------------------------------------------------- frames
    def can_enter(self, fm, exits, claimed):
        """`claimed`: the auxiliaries named by the frames checked so far in this same check (one entry of
        frames never gets the same auxiliary twice)"""
        if not self.needs(fm.beacts, fm.framer, fm):
            return False
        for aux in fm.auxes:
            if aux.main is not None and aux.main is not fm and aux.main not in exits:
                return False
            if aux.original:
                if aux in claimed:
                    self.hit("aux-claimed-twice")
                    return False
                claimed.append(aux)
            if not self.can_start(aux, claimed):
                return False
        return True

    def can_start(self, F, claimed=None):
        claimed = [] if claimed is None else claimed
        return all(self.can_enter(fm, [], claimed) for fm in F.first.outline)

    def enter_frame(self, fm):
        for a in fm.enacts:
            self.act(a, fm, "enter")
        for aux in fm.auxes:
            self.hit("aux-enter")
            if aux.original:
                aux.main = fm
            else:
                self.hit("clone-enter")
            self.enter_all(aux)

    def exit_frame(self, fm):
        for aux in fm.auxes:
            self.exit_all(aux)
            if aux.original:
                aux.main = None
        for a in fm.exacts:
            self.act(a, fm, "exit")
        for aux in fm.condauxes:
            if not aux.done and (aux.main is fm or not aux.original):   # only the frame it is running for exits it
                self.exit_all(aux)
                if aux.original:
                    aux.main = None

    # ---------------------------------------------------------------- framers
    def enter_frames(self, F, frames):
        if frames:
            F.stamp, F.elapsed, F.recurred = self.now, 0, 0
        for fm in frames:
            self.enter_frame(fm)

    def enter_all(self, F):
        F.done = False
        F.active = F.first
        F.actives = list(F.first.outline)
        self.enter_frames(F, list(F.actives))

    def exit_all(self, F, abort=False):
        for fm in reversed(list(F.actives)):
            self.exit_frame(fm)
        F.active, F.actives = None, []
        if not abort:
            F.done = True

    def recur(self, F):
        for fm in list(F.actives):
            for a in fm.reacts:
                self.act(a, fm, "recur")
            for aux in fm.auxes:
                self.recur(aux)

    def segue(self, F):
        F.elapsed = self.now - F.stamp
        F.recurred += 1
        for fm in list(F.actives):
            for aux in fm.auxes:
                self.segue(aux)
        for fm in list(F.actives):
            for p in fm.preacts:
                if p[0] == "act":
                    if self.act(p[1], fm, "precur"):
                        return
                elif p[0] == "go":
                    if self.transition(F, fm, p[1], p[2]):
                        return
                else:
                    if self.conditional(F, fm, p[1], p[2]):
                        return

    def transition(self, F, near, nds, far):
        if not self.needs(nds, F, near):
            return False
        cur, tgt = F.actives, far.outline
        cut = None
        for k in range(min(len(cur), len(tgt))):
            if cur[k] is far or cur[k] is not tgt[k]:
                cut = k
                break
        if cut is None:
            self.hit("go-refused-empty")
            return False                      # nothing to enter: no transition
        exits, enters, common = cur[cut:], tgt[cut:], cur[:cut]
        claimed = []
        if not all(self.can_enter(fm, exits, claimed) for fm in enters):
            self.hit("go-refused-guard")
            return False
        self.hit("go-taken")
        self.transit_marks(nds, F, near)
        if far in cur:
            self.hit("go-forced")
        if common:
            self.hit("go-common")
        if len(cur) < len(F.active.outline):
            self.hit("go-while-suspended")
        for fm in reversed(exits):
            self.exit_frame(fm)
        for fm in reversed(common):
            for a in fm.rexacts:
                self.act(a, fm, "rexit")
        for fm in common:
            for a in fm.renacts:
                self.act(a, fm, "renter")
        self.enter_frames(F, enters)
        F.active, F.actives = far, list(far.outline)
        return True

    def transit_marks(self, nds, F, fm):
        """the marks of the `is updated` / `is changed` conditions of a transition that is being taken"""
        for nd in nds:
            if nd["k"] in ("up", "chg"):
                self.hit("mark-transit")
                self.act({"k": "mku" if nd["k"] == "up" else "mkc", "sh": nd["sh"],
                          "key": floeng.mark_key(self.prog, F.idx, fm.local, nd), "transit": True}, fm, "transit")

    def conditional(self, F, main, nds, aux):
        if aux in main.auxes:                           # also a plain auxiliary of the frame: it lives with the frame
            self.hit("susp-plain-too")
            return False
        if aux.done:
            if not self.needs(nds, F, main):
                return False
            if aux.main is not None and aux.main is not main:
                return False
            if not self.can_start(aux):
                return False
            self.transit_marks(nds, F, main)
            if aux.original:
                aux.main = main
            if len(F.actives) < len(F.active.outline):
                self.hit("susp-nested-start")
            self.enter_all(aux)
            self.recur(aux)
            if aux.done:
                self.hit("susp-done-first-run")
                self.exit_all(aux)
                if aux.original:
                    aux.main = None
                return False
            self.hit("susp-start")
            F.actives = list(main.head)
            return True
        if aux.original and aux.main is not main:       # running for another frame: not this clause's business
            self.hit("susp-not-owner")
            return False
        self.segue(aux)
        self.recur(aux)
        if aux.done:
            self.hit("susp-complete")
            self.exit_all(aux)
            if aux.original:
                aux.main = None
            F.actives = list(F.active.outline)
            return False
        self.hit("susp-continue")
        return True

    def step(self, F, control):
        st = F.status
        if st not in UP and st not in DOWN or control not in ("run", "ready", "start", "stop", "abort"):
            F.desire, F.status = "abort", "aborted"
            if control == "abort" or st == "aborted":
                return
        if control == "run":
            if st in UP:
                self.segue(F)
                self.recur(F)
                F.status = "running"
            elif st in DOWN:
                F.desire = "start"
        elif control == "ready":
            if st in DOWN:
                if self.can_start(F):
                    F.status = "readied"
                else:
                    F.desire, F.status = "stop", "stopped"
        elif control == "start":
            if st in DOWN:
                if self.can_start(F):
                    self.hit("start")
                    F.desire = "run"
                    self.enter_all(F)
                    self.recur(F)
                    F.status = "started"
                else:
                    self.hit("start-refused")
                    F.desire, F.status = "stop", "stopped"
            elif st in UP:
                F.desire = "run"
        elif control == "stop":
            if st in UP:
                self.hit("stop-up")
                if len(F.actives) < len(F.active.outline):
                    self.hit("stop-while-suspended")
                F.desire = "stop"
                self.exit_all(F, abort=True)
                F.status = "stopped"
        elif control == "abort":
            if st in UP:
                self.hit("abort-up")
                if len(F.actives) < len(F.active.outline):
                    self.hit("abort-while-suspended")
                self.exit_all(F)
            F.desire, F.status = "abort", "aborted"

    # ---------------------------------------------------------------- run
    def snap(self, tag, out):
        num = lambda fm: "-" if fm is None else str(fm.gid)
        out.extend(self.log)
        del self.log[:]
        recs = []
        for F in self.framers:
            recs.append(":".join([str(F.idx), F.status, num(F.active), ".".join(num(f) for f in F.actives) or "-",
                                  "1" if F.done else "0", num(F.main), str(F.elapsed), str(F.recurred)]))
        out.append(tag + " " + " ".join(recs))
        out.append("V " + ",".join(str(v) for v in self.vals))
        o = lambda x: "-" if x is None else str(x)
        out.append("K " + " ".join("%d.%d:%s:%s:%s:%s" % (sh, key, o(self.stamps[sh]), o(mk["stamp"]), o(mk["used"]),
                                                         o(mk["data"]))
                                   for (sh, key), mk in sorted(self.marks.items())))

    def run(self):
        out = []
        ready = [self.framers[i] for i in floeng.taskables(self.prog)]
        for F in ready:
            F.desire = "start" if F.sched == "active" else "stop"
            F.status = "stopped"
        k = 0
        while True:
            more, nxt = False, []
            for F in ready:
                self.step(F, F.desire)
                if F.status != "aborted":
                    nxt.append(F)
                if F.status in UP:
                    more = True
            ready = nxt
            self.snap("S %d" % k, out)
            k += 1
            if k >= self.prog["ticks"] or not ready or not more:
                break
            self.now += self.prog["period"]
        for F in ready:
            self.step(F, "abort")
        self.snap("Z", out)
        return out


def run(prog):
    return Machine(prog).run()
