#!/venv/bin/python
"""Regenerate the machine-written sections of DESIGN.md (between <!-- BEGIN x --> / <!-- END x --> markers):
findings (from KNOWN_FINDINGS.json), seeded (from seeded/*/meta.json + seeded/RESULTS.json), status (claimed list)."""
import os, json, re, glob
HERE = os.path.dirname(os.path.abspath(__file__)); V = os.path.dirname(HERE)
def esc(s): return str(s).replace("|", "\\|").replace("\n", " ")
def findings():
    doc = json.load(open(os.path.join(V, "KNOWN_FINDINGS.json")))["findings"]
    out = ["| property | id | disposition | what fails |", "|---|---|---|---|"]
    for e in sorted(doc, key=lambda e: (e["property"], e["id"])):
        disp = ("fixed in /repo `%s`" % e.get("commit", "?")) if e["kind"] == "fixed" else "known finding (region `%s`)" % e.get("region", "-")
        out.append("| %s | %s | %s | %s |" % (e["property"], e["id"], disp, esc(e.get("what", ""))[:400]))
    n_f = sum(e["kind"] == "fixed" for e in doc); n_k = sum(e["kind"] == "known" for e in doc)
    return "%d repaired defects (`fix:` commits), %d recorded known findings.\n\n" % (n_f, n_k) + "\n".join(out)
def seeded():
    res = json.load(open(os.path.join(V, "seeded", "RESULTS.json"))) if os.path.exists(os.path.join(V, "seeded", "RESULTS.json")) else {}
    out = ["| seeded change | breaks | needs to manifest | quick | thorough |", "|---|---|---|---|---|"]
    for d in sorted(glob.glob(os.path.join(V, "seeded", "*", "meta.json"))):
        sid = os.path.basename(os.path.dirname(d)); m = json.load(open(d))
        q = res.get(sid + ":quick", {}).get("status", "-"); t = res.get(sid + ":thorough", {}).get("status", "-")
        if m.get("neutralised"):
            q = "neutralised by a later fix commit (see meta.json)"
        out.append("| %s | %s | %s | %s | %s |" % (sid, m.get("property"), esc(m.get("needs_to_manifest", m.get("summary", "")))[:300], q, t))
    return "\n".join(out)
def status():
    claimed = open(os.path.join(HERE, "claimed.txt")).read().split()
    return "Claimed (%d): %s" % (len(claimed), " ".join(sorted(claimed)))
def asbuilt():
    import sys, importlib
    sys.path.insert(0, HERE)
    out = []
    for pid in sorted(open(os.path.join(HERE, "claimed.txt")).read().split()):
        try:
            c = importlib.import_module("props." + pid.lower()).CHECK
        except Exception as ex:
            out.append("#### %s\n(could not load check: %s)\n" % (pid, ex)); continue
        evp = os.path.join(V, "evidence", pid + ".json")
        ev = json.load(open(evp)) if os.path.exists(evp) else {}
        cov = ev.get("coverage", {})
        thms = [t.split(".")[-1] for t in cov.get("theorems", [])]
        out.append("#### %s — engine `%s`, modules %s" % (pid, c.ENGINE, ", ".join("`%s`" % m for m in c.LEAN_MODULES)))
        out.append("*Level.* " + " ".join(str(c.LEVEL_TEXT).split()))
        out.append("*Trusted / assumed.* " + " ".join(str(c.LEVEL_NOTE).split()))
        out.append("*Theorems audited (%s/%s obligations, axioms: %s).* %s" % (cov.get("discharged", "?"), cov.get("obligations", "?"),
                   ", ".join(a.replace("axioms seen: ", "") for a in cov.get("trusted_base", []) if a.startswith("axioms seen")) or "-",
                   ", ".join("`%s`" % t for t in thms)))
        if c.PARTIAL:
            out.append("*Partial / outside the model.* " + "; ".join(" ".join(str(x).split()) for x in c.PARTIAL))
        out.append("*Last quick run.* %s cases, %s agreeing with the model, %s distinct non-trivial; rule: %s" % (
            cov.get("evaluations", "?"), cov.get("traces_validated_against_impl", "?"), cov.get("distinct_nontrivial", "?"),
            " ".join(str(cov.get("rule", c.RULE)).split())[:600]))
        out.append("")
    return "\n".join(out)
p = os.path.join(V, "DESIGN.md"); s = open(p).read()
for name, fn in (("findings", findings), ("seeded", seeded), ("status", status), ("asbuilt", asbuilt)):
    s = re.sub(r"(<!-- BEGIN %s -->).*?(<!-- END %s -->)" % (name, name), lambda m: m.group(1) + "\n" + fn() + "\n" + m.group(2), s, flags=re.S)
open(p, "w").write(s)
