#!/venv/bin/python
"""Regenerate /verif/MANIFEST.json from the check classes in harness/props/ (run after adding a check)."""
import sys, os, json, importlib, glob
HERE = os.path.dirname(os.path.abspath(__file__))
sys.path.insert(0, HERE)
import core

PY = "/venv/bin/python"
props = [json.loads(l) for l in open(os.path.join(core.VERIF, "properties.jsonl"))]
checks, na = [], []
CLAIMED = set(open(os.path.join(HERE, "claimed.txt")).read().split())   # integrated and verified by the lead
for p in props:
    pid = p["id"]
    path = os.path.join(HERE, "props", pid.lower() + ".py")
    if not os.path.exists(path) or pid not in CLAIMED:
        na.append({"property_id": pid, "reason": "not claimed yet: the Lean model, theorems and correspondence check "
                   "planned in DESIGN.md for this property have not been built (time); proof is applicable"})
        continue
    mod = importlib.import_module("props." + pid.lower())
    c = mod.CHECK
    if getattr(c, "UNCLAIMED", None):
        na.append({"property_id": pid, "reason": c.UNCLAIMED})
        continue
    checks.append({
        "property_id": pid,
        "quick_cmd": "%s harness/vcheck.py %s --tier quick" % (PY, pid),
        "thorough_cmd": "%s harness/vcheck.py %s --tier thorough" % (PY, pid),
        "evidence_file": "evidence/%s.json" % pid,
        "replay_cmd_template": "%s harness/vcheck.py %s --replay {path}" % (PY, pid),
        "engine": c.ENGINE or "lean",
        "level_claimed": {"category": "proof", "text": c.LEVEL_TEXT, "design_ref": "DESIGN.md §6 " + pid},
        "level_note": c.LEVEL_NOTE,
        "technique": c.TECHNIQUE,
    })
engines = {}
for c in checks:
    engines.setdefault(c["engine"], []).append(c["property_id"])
doc = {
    "version": 1,
    "setup_cmd": "/venv/bin/python harness/setup.py",
    "hooks": {"guard": "IOFLO_VERIF", "enable": "no build step: checks import ioflo from /repo's working tree with "
              "IOFLO_VERIF=1 in the environment; there are no hook commits",
              "baseline_off_cmd": "cd /repo && /venv/bin/python -m pytest -ra -q -p no:cacheprovider --timeout=900 "
              "--continue-on-collection-errors", "source_commits": [], "add_only": True},
    "engines": [{"name": e, "path": "lean/IofloModel/Drv", "serves_properties": ps,
                 "kind_free_text": "Lean 4 executable model behind the line-protocol driver + Lean theorems about it"}
                for e, ps in sorted(engines.items())],
    "checks": checks,
    "notes": "One entry point: harness/vcheck.py Cnn --tier quick|thorough. Stage A builds and audits the Lean "
             "theorems (Props/Cnn.lean), stage B runs the Lean model and /repo's code on the same inputs, stage C "
             "replays KNOWN_FINDINGS.json, stage D searches for a failing input when A or B broke. See DESIGN.md.",
    "not_applicable": na,
}
with open(os.path.join(core.VERIF, "MANIFEST.json"), "w") as f:
    json.dump(doc, f, indent=1)
print("checks:", [c["property_id"] for c in checks], "unclaimed:", len(na))
