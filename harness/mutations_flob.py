"""Hand-made mutations of the anchored code for C20, C11, C13 (agent flo-b) and a runner.

usage:  git -C /repo worktree add --detach /tmp/wt-mut HEAD
        /venv/bin/python harness/mutations_flob.py /tmp/wt-mut [C20|C11|C13] [mutation-name ...]
        git -C /repo worktree remove --force /tmp/wt-mut
For every mutation: patch the worktree, run the quick check with IOFLO_REPO=<worktree> (expected exit 1 and
a VIOLATION line), replay the written replay file on the mutant (expected exit 1) and on /repo (expected
exit 0), restore the worktree.  Replay copies go to /verif/.scratch/mutations/.
"""
import sys, subprocess, os

MUTS = [
 ("C20","M1-used-always","ioflo/base/acting.py",
  "            if self._act.context == ActionSubContextNames[TRANSIT]:  # transit satisfied\n                mark.used = mark.stamp",
  "            mark.used = mark.stamp"),
 ("C20","M2-ge","ioflo/base/needing.py","(share.stamp > mark.stamp) or","(share.stamp >= mark.stamp) or"),
 ("C20","M3-append-enact","ioflo/base/needing.py","                frame.insertEnact(markerAct)","                frame.addEnact(markerAct)"),
 ("C20","M4-newfield-ignored","ioflo/base/needing.py","                    except AttributeError as ex: # new attribute so changed\n                        result = True","                    except AttributeError as ex: # new attribute so changed\n                        pass"),
 ("C20","M5-tracts-after-enter","ioflo/base/acting.py",
  "        for act in self._tracts:  # transit sub-context of segue precur\n            act()\n\n        framer.exit(exits) #exit uncommon frames in near outline reversed in place\n        framer.rexit(reexens[:]) #make copy since reversed in place\n        framer.renter(reexens)\n        framer.enter(enters)\n",
  "        framer.exit(exits) #exit uncommon frames in near outline reversed in place\n        framer.rexit(reexens[:]) #make copy since reversed in place\n        framer.renter(reexens)\n        framer.enter(enters)\n        for act in self._tracts:  # transit sub-context of segue precur\n            act()\n"),
 ("C20","M6-key-home-frame","ioflo/base/needing.py","            parts.append(frame.name)  # default is framername.framename","            parts.append(self._act.frame.name)  # default is framername.framename"),
 ("C20","M7-tracts-before-checkenter","ioflo/base/acting.py",
  "        #check enters, if successful, perform transition\n        if not framer.checkEnter(enters, exits):\n            return None\n",
  "        for act in self._tracts:\n            act()\n        #check enters, if successful, perform transition\n        if not framer.checkEnter(enters, exits):\n            return None\n"),
 ("C11","M1-counter-restarts-at-1","ioflo/base/framing.py","        self.recurred = 0\n        self.updateRecurred()","        self.recurred = 1\n        self.updateRecurred()"),
 ("C11","M2-timeout-strict","ioflo/base/building.py",
  """        need = self.makeImplicitDirectFramerNeed( name="elapsed",
                                                  comparison='>=',""",
  """        need = self.makeImplicitDirectFramerNeed( name="elapsed",
                                                  comparison='>',"""),
 ("C11","M3-repeat-rounds","ioflo/base/building.py","                                                  goal=int(value),","                                                  goal=int(round(value)),"),
 ("C11","M4-reentry-keeps-clock","ioflo/base/framing.py",
  "        if enters: #only enter  if there are explicit enters\n            self.restartTimer()",
  "        if enters and enters[-1] is not self.active: #only enter  if there are explicit enters\n            self.restartTimer()"),
 ("C11","M5-timeout-no-abs","ioflo/base/building.py",
  "        \"\"\"creates implicit transition to next on elapsed >= value\n\n           timeout 5.0\n        \"\"\"\n        self.verifyCurrentContext(tokens, index)\n\n        try:\n            value =  abs(Convert2Num(tokens[index]))",
  "        \"\"\"creates implicit transition to next on elapsed >= value\n\n           timeout 5.0\n        \"\"\"\n        self.verifyCurrentContext(tokens, index)\n\n        try:\n            value =  (Convert2Num(tokens[index]))"),
 ("C11","M6-elapsed-from-zero","ioflo/base/framing.py","            self.elapsed = self.store.stamp - self.stamp\n","            self.elapsed = self.store.stamp - self.stamp + 0.0 * self.recurred if self.recurred else self.store.stamp\n"),
 ("C11","M7-aux-reentry-keeps-clocks","ioflo/base/framing.py",
  "        self.done = False #reset done state\n        self.activate(self.first)\n        self.enter(self.actives)\n",
  "        again = self.schedule == AUX and self.done and self.stamp is not None and self.main is not None\n        self.done = False #reset done state\n        self.activate(self.first)\n        if again:\n            for frame in self.actives:\n                frame.enter()\n        else:\n            self.enter(self.actives)\n"),
 ("C11","M8-over-frame-aux-not-segued","ioflo/base/framing.py",
  "        for aux in self.auxes:\n            aux.segue()\n",
  "        for aux in self.auxes:\n            if self is self.framer.active:\n                aux.segue()\n"),
 ("C11","M9-aux-transition-restarts-main-timer","ioflo/base/framing.py",
  "        for aux in self.auxes:\n            aux.segue()\n",
  "        for aux in self.auxes:\n            if aux.segue():\n                self.framer.restartTimer()\n"),
 ("C20","M8-entry-need-tract-runs-on-entry","ioflo/base/acting.py",
  "        for act in self._tracts:  # transit sub-context of segue precur\n            act()\n\n        framer.exit(exits)",
  "        for act in self._tracts:  # transit sub-context of segue precur\n            act()\n        for fr in enters:\n            for be in fr.beacts:\n                for tr in getattr(be.actor, '_tracts', []):\n                    tr()\n\n        framer.exit(exits)"),
 ("C20","M9-entry-marker-needs-not-checked","ioflo/base/framing.py",
  "        for need in self.beacts:  #could use generator expression and all()\n",
  "        for need in [b for b in self.beacts if type(b.actor).__name__ not in ('NeedUpdate', 'NeedChange')]:  #could use generator expression and all()\n"),
 ("C13","M1-me-uses-main-framer","ioflo/base/acting.py",
  "                    if parts[1] == 'me': # current framer\n                        parts[1] = self.frame.framer.name",
  "                    if parts[1] == 'me': # current framer\n                        parts[1] = (self.frame.framer.main.framer.name if self.frame.framer.main else self.frame.framer.name)"),
 ("C13","M2-over-inode-appended","ioflo/base/acting.py",
  "                        oparts = frame.inode.rstrip(\".\").split(\".\") + oparts",
  "                        oparts = oparts + frame.inode.rstrip(\".\").split(\".\")"),
 ("C13","M3-nametopath-keeps-case","ioflo/aid/aiding.py","            pathParts.append(c.lower())","            pathParts.append(c)"),
 ("C13","M4-actor-default-drops-frame","ioflo/base/building.py",
  "                    relation = ('framer.' + 'me.' + 'frame.' + 'me' + '.' + relation)",
  "                    relation = ('framer.' + 'me.' + relation)"),
 ("C13","M5-default-inode-no-frame","ioflo/base/acting.py","                        iparts = \"framer.me.frame.me.actor.me\".split(\".\")","                        iparts = \"framer.me.actor.me\".split(\".\")"),
 ("C13","M6-frame-main-default-framer-me","ioflo/base/building.py",
  "                framername = ''\n                if name == 'main': # default framer for frame main is framer main\n                    framername = 'main'",
  "                framername = ''"),
 ("C13","M7-me-inode-keeps-over","ioflo/base/acting.py",
  "                    if oparts and oparts[0] == \"me\":  # me relative\n                        del oparts[0]\n                        break  # skip any further over frames",
  "                    if oparts and oparts[0] == \"me\":  # me relative\n                        del oparts[0]")
]


def run(wt, prop, name, path, old, new, tier="quick", seed="0"):
    subprocess.run(["git", "-C", wt, "checkout", "-q", "."], check=True)
    p = os.path.join(wt, path)
    s = open(p).read()
    if s.count(old) != 1:
        print("== %s: anchor text found %d times, skipped" % (name, s.count(old)))
        return
    open(p, "w").write(s.replace(old, new))
    verif = os.path.dirname(os.path.dirname(os.path.abspath(__file__)))
    env = dict(os.environ, IOFLO_REPO=wt, VERIF_SEED=seed)
    r = subprocess.run([sys.executable, "harness/vcheck.py", prop, "--tier", tier], cwd=verif, env=env,
                       capture_output=True, text=True)
    out = r.stdout.strip().splitlines()
    print("== %s %s: exit %d" % (prop, name, r.returncode))
    print("\n".join(out[-3:]))
    rep = None
    for l in out:
        if l.startswith("VIOLATION") and "replay=" in l:
            rep = l.split("replay=")[1].split()[0]
    if rep:
        os.makedirs(os.path.join(verif, ".scratch", "mutations"), exist_ok=True)
        keep = os.path.join(verif, ".scratch", "mutations", "replay-%s-%s.json" % (prop, name))
        subprocess.run(["cp", os.path.join(verif, rep), keep])
        r2 = subprocess.run([sys.executable, "harness/vcheck.py", prop, "--replay", keep], cwd=verif, env=env,
                            capture_output=True, text=True)
        print("   replay on mutant: exit", r2.returncode)
        r3 = subprocess.run([sys.executable, "harness/vcheck.py", prop, "--replay", keep], cwd=verif,
                            env=dict(os.environ), capture_output=True, text=True)
        print("   replay on IOFLO_REPO default: exit", r3.returncode)
    subprocess.run(["git", "-C", wt, "checkout", "-q", "."], check=True)


if __name__ == "__main__":
    wt = sys.argv[1]
    want = sys.argv[2:]
    for m in MUTS:
        if want and m[0] not in want and m[1] not in want:
            continue
        run(wt, *m)
