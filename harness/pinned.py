"""Run the pinned suite in a checkout and return the stable tests that did not pass (with retries of the
lost tests' files: several tests bind fixed loopback ports and collide with other pytest runs in the sandbox)."""
import os, json, subprocess, time
import xml.etree.ElementTree as ET
BASE = json.load(open("/root/.vp/BASELINE.json"))
STABLE = set(BASE["stable_pass"])
NETNS = subprocess.run(["unshare", "-n", "sh", "-c", "ip link set lo up"], capture_output=True).returncode == 0

def _run(cwd, args):
    x = "/tmp/pinned-junit-%d-%d.xml" % (os.getpid(), int(time.time() * 1000) % 100000)
    cmd = ["/venv/bin/python", "-m", "pytest", "-q", "-p", "no:cacheprovider", "--timeout=900",
           "--continue-on-collection-errors", "--junitxml=" + x] + args
    if NETNS:   # own network namespace: the suite's fixed loopback ports cannot collide with other runs
        import shlex
        cmd = ["unshare", "-n", "sh", "-c", "ip link set lo up; exec " + " ".join(shlex.quote(c) for c in cmd)]
    subprocess.run(cmd, cwd=cwd, stdout=subprocess.DEVNULL, stderr=subprocess.DEVNULL)
    ok = set()
    try:
        for tc in ET.parse(x).getroot().iter("testcase"):
            if not any(c.tag in ("failure", "error", "skipped") for c in tc):
                ok.add("%s::%s" % (tc.get("classname"), tc.get("name")))
    finally:
        if os.path.exists(x):
            os.remove(x)
    return ok

def lost_tests(cwd, retries=3):
    ok = _run(cwd, [])
    missing = STABLE - ok
    for i in range(retries):
        if not missing:
            break
        time.sleep(5 * (i + 1))
        files = sorted({m.split("::")[0].rsplit(".", 1)[0].replace(".", "/") + ".py" for m in missing})
        ok |= _run(cwd, files)
        missing = STABLE - ok
    return missing
