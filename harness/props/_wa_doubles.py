"""Socket / serial doubles shared by the E-wire checks of agent wire-a (C24, C25, C26, C28).

A double is *scripted*: every call to send / recv / accept / do_handshake takes its answer from a deque;
an exhausted script answers "would block".  Everything a double is asked to do is recorded, so that
the property oracles can be stated on what the "network" saw, never on the transport's own bookkeeping.
"""
import errno, os, socket, ssl, contextlib
from collections import deque

# the connection-loss errors named by the property text (C25): reset, network/host unreachable or down,
# timed out, refused.  Written down here from the property statement, not read from the code.
LOSS = [errno.ECONNRESET, errno.ENETRESET, errno.ENETUNREACH, errno.EHOSTUNREACH,
        errno.ENETDOWN, errno.EHOSTDOWN, errno.ETIMEDOUT, errno.ECONNREFUSED]
# some errors that are neither would-block nor connection loss
OTHER = [errno.EPIPE, errno.EBADF, errno.ENOTCONN, errno.EINVAL, errno.ENOBUFS, errno.EMSGSIZE,
         errno.EACCES, errno.ECONNABORTED, errno.EIO, errno.ENOMEM]
WOULD = [errno.EAGAIN, errno.EWOULDBLOCK]
FAKE_FD = 987654
REAL_OS_WRITE, REAL_OS_READ = os.write, os.read      # the unpatched functions


def oserr(code):
    return OSError(code, os.strerror(code))


def tls_want(v):
    if v % 2 == 0:
        return ssl.SSLWantReadError(ssl.SSL_ERROR_WANT_READ, "The operation did not complete (read)")
    return ssl.SSLWantWriteError(ssl.SSL_ERROR_WANT_WRITE, "The operation did not complete (write)")


class Script:
    """answers shared by all doubles: items are ('acc', k) | ('data', bytes) | ('raise', exc)"""

    def __init__(self, tls=False):
        self.tls = tls
        self.sends = deque()
        self.recvs = deque()
        self.sent = bytearray()       # every byte accepted, in order
        self.send_log = []            # (bytes offered, count accepted or exception)
        self.recvd = bytearray()      # every byte returned, in order
        self.recv_log = []            # chunks returned / exceptions
        self.bs_seen = []

    def block(self):
        return tls_want(0) if self.tls else oserr(errno.EAGAIN)

    def do_send(self, data):
        data = bytes(data)
        item = self.sends.popleft() if self.sends else ("raise", self.block())
        if item[0] == "acc":
            n = min(item[1], len(data))
            self.sent += data[:n]
            self.send_log.append((data, n))
            return n
        self.send_log.append((data, item[1]))
        raise item[1]

    def do_recv(self, bs):
        self.bs_seen.append(bs)
        item = self.recvs.popleft() if self.recvs else ("raise", self.block())
        if item[0] == "data":
            chunk = bytes(item[1])
            self.recvd += chunk
            self.recv_log.append(chunk)
            return chunk
        self.recv_log.append(item[1])
        raise item[1]


class Sock(Script):
    """stands for a connected, non-blocking socket (plain or TLS-wrapped)"""

    def __init__(self, tls=False, peer=("10.0.0.2", 4000), name=("127.0.0.1", 5000)):
        Script.__init__(self, tls)
        self.peer, self.name = peer, name
        self.blocking = None
        self.shutdowns = []
        self.closed = False
        self.handshakes = deque()
        self.handshake_calls = 0

    def setblocking(self, flag):
        self.blocking = flag

    def send(self, data):
        if self.closed:                    # as a real closed socket answers
            self.send_log.append((bytes(data), "EBADF"))
            raise oserr(errno.EBADF)
        return self.do_send(data)

    def recv(self, bs):
        if self.closed:
            self.recv_log.append("EBADF")
            raise oserr(errno.EBADF)
        return self.do_recv(bs)

    shut_exc = None                # what shutdown() raises on this socket (an OSError family member), if anything

    def shutdown(self, how):
        self.shutdowns.append(how)
        if self.shut_exc is not None:
            raise self.shut_exc
        if self.closed:
            raise oserr(errno.EBADF)

    def close(self):
        self.closed = True

    def getpeername(self):
        return self.peer

    def getsockname(self):
        return self.name

    def do_handshake(self):
        self.handshake_calls += 1
        item = self.handshakes.popleft() if self.handshakes else ("raise", tls_want(0))
        if item[0] == "ok":
            return None
        raise item[1]


class Ctx:
    """stands for an ssl.SSLContext: wrap_socket hands back the double (the TLS record layer is out of scope)"""
    verify_mode = ssl.CERT_NONE
    check_hostname = False

    def __init__(self):
        self.wrapped = []

    def wrap_socket(self, cs, **kw):
        self.wrapped.append((cs, kw))
        if cs is not None:
            cs.tls = True
        return cs


class FakeSerial(Script):
    """stands for a pyserial Serial object"""

    def write(self, data):
        return self.do_send(data)

    def read(self, bs):
        return self.do_recv(bs)

    def reset_input_buffer(self):
        pass

    def reset_output_buffer(self):
        pass

    def close(self):
        pass


@contextlib.contextmanager
def patched_os(script):
    """os.write / os.read on FAKE_FD go to `script` (inside this process, for the duration of one case)"""
    real_write, real_read = os.write, os.read

    def write(fd, data):
        if fd == FAKE_FD:
            return script.do_send(data)
        return real_write(fd, data)

    def read(fd, n):
        if fd == FAKE_FD:
            return script.do_recv(n)
        return real_read(fd, n)

    os.write, os.read = write, read
    try:
        yield
    finally:
        os.write, os.read = real_write, real_read


class NullFile:
    """swallows what the console prints while it runs at a talkative verbosity"""
    name, closed = "<null>", False

    def __init__(self):
        self.chars = 0

    def write(self, msg):
        self.chars += len(msg)

    def flush(self):
        pass


@contextlib.contextmanager
def console_at(level):
    """run with ioflo's console at verbosity `level` (0 mute .. 4 profuse); the logging statements of the
    transports are code on the data path (they format the payload), so checks run a share of cases at every level"""
    from ioflo.aid import consoling
    console = consoling.getConsole()
    old = (console._verbosity, console._file)
    sink = NullFile()
    console._verbosity, console._file = level, sink
    try:
        yield sink
    finally:
        console._verbosity, console._file = old


def verbosity_of(case_key):
    """a console verbosity (0..4) fixed by the case itself, so that replays run at the same level"""
    return int(case_key[:8], 16) % 5


def hx(b):
    b = bytes(b)
    return b.hex() if b else "-"


def unhx(s):
    return b"" if s == "-" else bytes.fromhex(s)
