"""Adapter for the bids/fiats check (C04): generated programs are written as FloScript, built by the
real Builder and run by the real Skedder; the real Framer runners, Want*/Fiat* actors and frames do all the
work. The harness only observes:
  * every scheduler send (proxy around `framer.runner`, phase from the caller frame) -> `r`/`y` lines and events,
  * every write to `framer.desire` (a property on a per-run subclass)               -> `w` lines,
  * every Want*.action target / Fiat*.action return (wrappers around the actions)    -> `b` / `f` lines,
  * every `checkStart()` result (instance wrapper)                                   -> `k` lines.

Case format (JSON):
  {"P": "1/8", "stamp": "0/1",
   "framers": [{"sched": "active"|"inactive"|"slave", "order": "front"|"mid"|"back", "period": "p/q",
                "frames": [{"be": [guard…], "en": [act…], "re": [act…], "ex": [act…], "pre": [trans…]}, …]}, …]}
  guard = ["c", cond] | ["f", ctl, slave]         cond = ["A"] | ["R", n] | ["F", flag, v]
  act   = ["b", ctl, "p/q"|null, "me"|"all"|[ids]] | ["f", ctl, slave] | ["p", flag, v]
  trans = [[cond…], targetFrame]
Framer k is named `fk`, frame j `sj`, flag n `.flag.kn`.
"""
import os, sys, shutil
from fractions import Fraction
import core
from props import sked_doubles as sd

CTL = {0: "stop", 1: "start", 2: "run", 3: "abort", 4: "ready"}
FUEL = 120


def taskables(case):
    out = []
    for order in ("front", "mid", "back"):
        out += [i for i, f in enumerate(case["framers"]) if f["sched"] != "slave" and f.get("order", "mid") == order]
    return out


def targets_of(case, me, tg):
    if tg == "me":
        return [me]
    if tg == "all":
        return taskables(case)
    return list(tg)


# ------------------------------------------------------------------ FloScript text

def cond_text(c):
    if c[0] == "R":
        return "recurred >= %d" % c[1]
    if c[0] == "F":
        return ".flag.k%d == %d" % (c[1], c[2])
    raise ValueError(c)


def dec(s):
    fr = Fraction(s)
    return repr(float(fr))


def act_text(a):
    if a[0] == "b":
        tg = a[3]
        names = tg if isinstance(tg, str) else " ".join("f%d" % t for t in tg)
        return "bid %s %s%s" % (CTL[a[1]], names, "" if a[2] is None else " at " + dec(a[2]))
    if a[0] == "f":
        return "%s f%d" % (CTL[a[1]], a[2])
    if a[0] == "p":
        return "put %d into .flag.k%d" % (a[2], a[1])
    raise ValueError(a)


def floscript(case):
    flags = set()

    def note(c):
        if c[0] == "F":
            flags.add(c[1])
    for f in case["framers"]:
        for fr in f["frames"]:
            for g in fr.get("be", []):
                if g[0] == "c":
                    note(g[1])
            for key in ("en", "re", "ex"):
                for a in fr.get(key, []):
                    if a[0] == "p":
                        flags.add(a[1])
            for t in fr.get("pre", []):
                for c in t[0]:
                    note(c)
    L = ["house h"]
    for k in sorted(flags):
        L.append("  init .flag.k%d with value 0" % k)
    for i, f in enumerate(case["framers"]):
        opts = "be %s" % f["sched"]
        if f["sched"] != "slave":
            opts += " in %s" % f.get("order", "mid")
        L.append("  framer f%d %s at %s first s0" % (i, opts, dec(f["period"])))
        for j, fr in enumerate(f["frames"]):
            L.append("    frame s%d%s" % (j, "" if fr.get("over") is None else " in s%d" % fr["over"]))
            if fr.get("be"):
                L.append("      benter")
                for g in fr["be"]:
                    if g[0] == "c":
                        L.append("        let me if " + cond_text(g[1]))
                    else:
                        L.append("        %s f%d" % (CTL[g[1]], g[2]))
            for key, verb in (("en", "enter"), ("re", "recur"), ("ex", "exit")):
                if fr.get(key) or key != "re":
                    L.append("      " + verb)
                    if key != "re":
                        L.append("        do bids rec")      # the recorder is the first enter / exit action of every frame
                    for a in fr.get(key, []):
                        L.append("        " + act_text(a))
            if fr.get("pre"):
                L.append("      native")
                for conds, target in fr["pre"]:
                    cs = [c for c in conds if c[0] != "A"]
                    L.append("      go s%d%s" % (target, "" if not cs else " if " + " and ".join(cond_text(c) for c in cs)))
    return "\n".join(L) + "\n"


# ------------------------------------------------------------------ running the real thing

class Run:
    def __init__(self, case):
        self.case = case
        self.events = []     # scheduler sends
        self.trace = []      # observation lines
        self.tick = 0
        self.cur_bid = None
        self.index = {}

    def show(self, x):
        fr = Fraction(x)
        return "%d/%d" % (fr.numerator, fr.denominator)


_deed = {"run": None, "done": False}


def ensure_deed():
    if _deed["done"]:
        return
    from ioflo.base import doing

    @doing.doify('BidsRec')
    def bidsrec(self, **kw):
        run = _deed["run"]
        fr = self._act.frame
        run.trace.append("m %d %s %s" % (run.index.get(fr.framer, -1), fr.name[1:],
                                         "e" if self._act.context == "enter" else "x"))
    _deed["done"] = True


def run_case(case):
    core.import_ioflo()
    ensure_deed()
    from ioflo.base import skedding, housing, wanting, fiating, framing
    run = Run(case)
    d = os.path.join(core.SCRATCH, "c04-%d" % os.getpid())
    os.makedirs(d, exist_ok=True)
    fn = os.path.join(d, "p.flo")
    with open(fn, "w") as f:
        f.write(floscript(case))
    housing.ClearRegistries()
    housing.House.Clear()
    sk = skedding.Skedder(name="sk", period=float(Fraction(case["P"])), stamp=float(Fraction(case["stamp"])),
                          real=False, filepath=fn)
    if not sk.build():
        return ["build-failed"]
    house = sk.houses[0]
    framers = list(house.taskers)
    idx = {fr: i for i, fr in enumerate(framers)}
    run.index = idx
    _deed["run"] = run
    if [fr.name for fr in framers] != ["f%d" % i for i in range(len(case["framers"]))]:
        return ["build-order-unexpected " + " ".join(fr.name for fr in framers)]

    # --- desire spy
    class Spy(framing.Framer):
        def _get(self):
            return self.__dict__["_desire"]

        def _set(self, v):
            self.__dict__["_desire"] = v
            i = idx.get(self)
            if i is None:
                return
            run.trace.append("w %d %s" % (i, v if v in (0, 1, 2, 3, 4) else 5))
            b = run.cur_bid
            if b is not None:
                by, ctl, period = b
                p = "-"
                if period is not None and ctl in (1, 2, 4):
                    p = run.show(self.period)
                run.trace.append("b %d %d %d %s" % (by, i, ctl, p))
        desire = property(_get, _set)

    for fr in framers:
        v = fr.__dict__.pop("desire")
        fr.__class__ = Spy
        fr.__dict__["_desire"] = v

    # --- runner proxy
    sked_file = skedding.__file__.rstrip("c")
    last = {}

    class Proxy:
        def __init__(self, fr):
            self.fr, self.gen = fr, fr.runner

        def send(self, c):
            caller = sys._getframe(1).f_code.co_filename.rstrip("c")
            i = idx[self.fr]
            if caller == sked_file:
                ph = sd.caller_phase()
                run.trace.append("r %s %d %s" % (ph, i, c if c in (0, 1, 2, 3, 4) else 5))
                tick, stamp = run.tick, self.fr.store.stamp
                st = self.gen.send(c)
                run.trace.append("y %d %d" % (i, st))
                run.events.append("%s %d %d %s %s y%d %s" % (ph, tick, i, c, run.show(stamp), st, run.show(self.fr.period)))
                return st
            st = self.gen.send(c)
            last[i] = st
            return st

        def close(self):
            return self.gen.close()

    for fr in framers:
        fr.runner = Proxy(fr)

    # --- checkStart
    for fr in framers:
        def wrapped(_fr=fr, _orig=fr.checkStart):
            ok = _orig()
            run.trace.append("k %d %d" % (idx[_fr], 1 if ok else 0))
            return ok
        fr.checkStart = wrapped

    # --- Want / Fiat actions
    patched = []
    wants = {wanting.WantStop: 0, wanting.WantStart: 1, wanting.WantRun: 2, wanting.WantAbort: 3, wanting.WantReady: 4}
    fiats = {fiating.FiatStop: 0, fiating.FiatStart: 1, fiating.FiatRun: 2, fiating.FiatAbort: 3, fiating.FiatReady: 4}
    for cls, ctl in wants.items():
        orig = cls.action

        def waction(self, _orig=orig, _ctl=ctl, **kw):
            by = idx.get(self._act.frame.framer, -1)
            prev = run.cur_bid
            run.cur_bid = (by, _ctl, kw.get("period"))
            try:
                return _orig(self, **kw)
            finally:
                run.cur_bid = prev
        cls.action = waction
        patched.append((cls, orig))
    for cls, ctl in fiats.items():
        orig = cls.action

        def faction(self, tasker, _orig=orig, _ctl=ctl, **kw):
            by = idx.get(self._act.frame.framer, -1)
            sl = idx.get(tasker, -1)
            ret = _orig(self, tasker=tasker, **kw)
            run.trace.append("f %d %d %d %s %d" % (by, sl, _ctl, last.get(sl, "?"), 1 if ret else 0))
            return ret
        cls.action = faction
        patched.append((cls, orig))

    # --- tick counter on the store
    store = house.store
    orig_cs = store.changeStamp
    seen = [0]

    def counting(stamp):
        seen[0] += 1
        if seen[0] > 1:
            run.tick += 1
            if run.tick >= FUEL:
                raise sd.Budget("tick budget exceeded")
        return orig_cs(stamp)
    store.changeStamp = counting

    try:
        try:
            sk.run()
            outcome = "returned"
        except core.HarnessTimeout:
            raise
        except sd.Budget:
            outcome = "fuel"
        except BaseException as ex:
            outcome = "raised " + sd.exc_name(ex)
    finally:
        for cls, orig in patched:
            cls.action = orig
        shutil.rmtree(d, ignore_errors=True)
    lines = [outcome]
    lines += ["E " + e for e in run.events]
    lines += ["T " + t for t in run.trace]
    lines.append("final " + " ".join("%d:%s:%s:%s" % (fr.status, fr.desire if fr.desire in (0, 1, 2, 3, 4) else 5,
                                                        run.show(fr.period), ",".join(a.name[1:] for a in fr.actives))
                                      for fr in framers))
    lines.append("ticks %d" % run.tick)
    return lines


# ------------------------------------------------------------------ driver text

def num(s):
    fr = Fraction(s)
    return "%d/%d" % (fr.numerator, fr.denominator)


def cond_toks(c):
    return [str(x) for x in c]


def request(case):
    out = ["run", str(FUEL), num(case["P"]), num(case["stamp"]), "1"]
    for order in ("front", "mid", "back"):
        ids = [i for i, f in enumerate(case["framers"]) if f["sched"] != "slave" and f.get("order", "mid") == order]
        out += [str(len(ids))] + [str(i) for i in ids]
    out.append(str(len(case["framers"])))
    for me, f in enumerate(case["framers"]):
        out += [f["sched"][0], num(f["period"]), str(len(f["frames"]))]
        for fr in f["frames"]:
            out.append("-" if fr.get("over") is None else str(fr["over"]))
            be = fr.get("be", [])
            out.append(str(len(be)))
            for g in be:
                out += (["c"] + cond_toks(g[1])) if g[0] == "c" else ["f", str(g[1]), str(g[2])]
            for key in ("en", "re", "ex"):
                acts = fr.get(key, [])
                out.append(str(len(acts)))
                for a in acts:
                    if a[0] == "b":
                        tg = targets_of(case, me, a[3])
                        out += ["b", str(a[1]), "-" if a[2] is None else num(max(Fraction(0), Fraction(a[2]))), str(len(tg))] + [str(t) for t in tg]
                    elif a[0] == "f":
                        out += ["f", str(a[1]), str(a[2])]
                    else:
                        out += ["p", str(a[1]), str(a[2])]
            pre = fr.get("pre", [])
            out.append(str(len(pre)))
            for conds, target in pre:
                out.append(str(len(conds)))
                for c in conds:
                    out += cond_toks(c)
                out.append(str(target))
    return " ".join(out)


def parse_reply(reply):
    if " | " not in reply:
        return [reply]
    head, evs, trace, final, ticks = reply.split(" | ")
    lines = ["returned" if head.startswith("returned") else head]
    lines += ["E " + e for e in evs.split(";") if e]
    lines += ["T " + t for t in trace.split(";") if t]
    lines += [final, ticks]
    return lines
