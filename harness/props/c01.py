"""C01 — every ioflo module imports in a fresh interpreter, in any order.

Translator: harness/translate/imports.py regenerates lean/IofloModel/Generated/ImportGraph.lean from
$IOFLO_REPO on every run (events of every module's top-level code + measurements of the interpreter).
Model: lean/IofloModel/Model/Imports.lean (CPython's import protocol over that graph).
Theorems: lean/IofloModel/Props/C01.lean.
Tie: a case is an ordered list of module names.  The real side runs ONE clean interpreter
(`/venv/bin/python -I`, sys.path[0] = the tree under test), imports the modules in that order (each import
guarded, so a failure does not stop the host program), and reports per module `ok` or
`ERR <class> <ioflo module whose statement raised> <line>`, then the names bound in every loaded ioflo module
(count + FNV-1a hash of the sorted names).  The model answers the same questions (driver engine `imports`).
Oracle (independent of the model): every import of the order succeeded, and each module behaved exactly as it
does when it is the first import of a fresh interpreter.
"""
import os, sys, json, subprocess, concurrent.futures, shlex
import core

sys.path.insert(0, os.path.join(core.VERIF, "harness"))
from translate import imports as tr

PY = "/venv/bin/python"
SYNTH = os.path.join(core.VERIF, "harness", "corpus", "C01-synth")        # synthetic scenario tree (its own `ioflo`)
SYNTH_PROJ = os.path.join(core.SCRATCH, "imports", "synthproj")
RUNDIR = os.path.join(core.SCRATCH, "imports", "run")
import itertools as _it
_COUNTER = _it.count()

RUNNER = r'''
import sys                      # NOTHING else may be imported before the imports under test: the point of C01
repo = sys.argv[1]; mods = sys.argv[2].split(",") if sys.argv[2] else []; resfile = sys.argv[3]
sys.path.insert(0, repo)
if len(sys.argv) > 4 and sys.argv[4] != "-":
    sys.path.insert(0, sys.argv[4])      # a directory with a stand-in for an optional third-party module
raised = []
for m in mods:
    try:
        __import__(m)           # what the statement `import m` executes
        raised.append(None)
    except BaseException as ex:
        raised.append(ex)
loaded = {k: (getattr(v, "__file__", None), sorted(vars(v))) for k, v in sorted(sys.modules.items())
          if k == "ioflo" or k.startswith("ioflo.")}
# ---- reporting only from here on
import json, traceback, os
root = os.path.join(repo, "ioflo") + os.sep
def where(tb):
    hit = ("__main__", 0)
    for fr in traceback.extract_tb(tb):
        fn = os.path.abspath(fr.filename)
        if fn.startswith(root) and fn.endswith(".py"):
            rel = fn[len(repo):].lstrip(os.sep)[:-3].replace(os.sep, ".")
            if rel.endswith(".__init__"):
                rel = rel[:-9]
            hit = (rel, fr.lineno)
    return hit
def cls(ex):
    for c, n in ((ModuleNotFoundError, "ModuleNotFoundError"), (ImportError, "ImportError"),
                 (AttributeError, "AttributeError"), (NameError, "NameError")):
        if isinstance(ex, c):
            return n
    return "Other"
out, detail, missing = [], [], []
for ex in raised:
    if ex is None:
        out.append("ok"); detail.append(""); missing.append(None)
    else:
        w = where(ex.__traceback__)
        out.append("ERR %s %s %d" % (cls(ex), w[0], w[1]))
        detail.append("%s: %s" % (type(ex).__name__, str(ex)[:300]))
        missing.append(getattr(ex, "name", None) if isinstance(ex, ModuleNotFoundError) else None)
def fnv(s):
    h = 14695981039346656037
    for b in s.encode("utf-8"):
        h = ((h ^ b) * 1099511628211) & 0xFFFFFFFFFFFFFFFF
    return h
state = []
wrong = None
for k, (f, names) in loaded.items():
    if f and not os.path.abspath(f).startswith(root):
        wrong = f
    state.append("%s:%d:%016x" % (k, len(names), fnv(",".join(names))))
with open(resfile, "w") as f:
    f.write(json.dumps({"out": out, "detail": detail, "missing": missing, "state": state, "wrong": wrong}))
'''


# Legitimate ways a host starts the supported interpreter.  "base" is what every ordinary case uses; the others are
# the host-configuration matrix (the model knows nothing about them: there the oracle is the check, see PARTIAL).
CONFIGS = {
    "base":      {"flags": ["-I"]},
    "no-stdout": {"flags": ["-I"], "close": "1>&-"},          # sys.stdout is None (daemon, cron, `>&-`, pythonw)
    "no-stderr": {"flags": ["-I"], "close": "2>&-"},
    "no-stdin":  {"flags": ["-I"], "close": "0<&-"},
    "no-std":    {"flags": ["-I"], "close": "0<&- 1>&- 2>&-"},
    "-S":        {"flags": ["-I", "-S"]},                      # no site: no site-packages, fewer preloaded modules
    "-E":        {"flags": ["-E", "-s"]},
    "plain":     {"flags": []},
    "-O":        {"flags": ["-I", "-O"]},
    "-OO":       {"flags": ["-I", "-OO"]},
    "-B":        {"flags": ["-I", "-B"]},
    "cwd":       {"flags": ["-I"], "cwd": "/proc"},           # somewhere else, not writable
    "C-locale":  {"flags": ["-s"], "env": {"LC_ALL": "C", "LANG": "C", "PYTHONCOERCECLOCALE": "0", "PYTHONUTF8": "0"}},
}
MATRIX = [c for c in CONFIGS if c != "base"]
NO_MODEL = {"-S"}      # start-up states the generated graph does not describe (it is measured under -I)


OPT_KINDS = ["absent", "stub", "importerror", "notfoundother"]
STUBDIR = os.path.join(core.SCRATCH, "imports", "stubs")
STUB_SRC = {
    "stub": "class _Any(object):\n    def __call__(self, *a, **k):\n        return self\n    def __getattr__(self, n):\n        return self\n"
            "def __getattr__(name):\n    return _Any()\n",
    "importerror": "raise ImportError('%(name)s is installed but broken (stand-in of the C01 check)')\n",
    "notfoundother": "import _c01_missing_dependency_of_%(name)s\n",
    "absent": "raise ModuleNotFoundError(\"No module named '%(name)s'\", name='%(name)s')\n",
}


def stub_dir(name, kind, exists):
    """directory to put in front of sys.path so that optional module `name` presents itself as `kind`; None when
    nothing is needed (the module is really absent on this host and `kind` is absent)"""
    if kind == "absent" and not exists:
        return None
    d = os.path.join(STUBDIR, "%s-%s" % (name, kind))
    path = os.path.join(d, name + ".py")
    txt = STUB_SRC[kind] % {"name": name}
    if not os.path.exists(path) or open(path).read() != txt:
        os.makedirs(d, exist_ok=True)
        with open(path + ".tmp%d" % os.getpid(), "w") as f:
            f.write(txt)
        os.replace(path + ".tmp%d" % os.getpid(), path)
    return d


def argv_for(cfg, body_args):
    c = CONFIGS[cfg]
    cmd = [PY] + c["flags"] + body_args
    if "close" in c:
        cmd = ["/bin/sh", "-c", 'exec "$0" "$@" ' + c["close"]] + cmd
    return cmd


def command(repo, order, cfg="base", stub=None):
    """the shell line that reproduces a case by hand"""
    c = CONFIGS[cfg]
    body = "import sys; sys.path.insert(0, %r); " % repo + ("sys.path.insert(0, %r); " % stub if stub else "") \
        + "; ".join("import " + m for m in order)
    env = " ".join("%s=%s" % kv for kv in sorted(c.get("env", {}).items()))
    line = "%s%s %s -c %s" % ("env " + env + " " if env else "", PY, " ".join(c["flags"]), shlex.quote(body))
    if "cwd" in c:
        line = "cd %s && %s" % (c["cwd"], line)
    if "close" in c:
        line += " " + c["close"]
    return " ".join(line.split())


class CHECK(core.Check):
    PROPERTY = "C01"
    LEAN_MODULES = ["IofloModel.Props.C01"]
    GENERATED = True
    ENGINE = "imports"
    N_QUICK = 8
    N_THOROUGH = 60
    N_SEARCH = 8
    RULE = ("a case is an ordered list of ioflo module names imported into ONE fresh interpreter. Exhaustive: every "
            "module alone (quick and thorough), every ordered pair of modules of the same package (thorough; of the pairs "
            "whose two modules are both loaded by `import ioflo` itself only every 7th, of the others every 3rd: "
            "the non-core same-package pairs are proved in the kernel table). Generated: "
            "random orders of random subsets (2..all modules, with repeats and with the top-level package at a random "
            "position). Optional third-party modules (sites taken from the generated graph: `import X` in a try with "
            "handlers): for each X and each host variant absent / importable stand-in / stand-in raising ImportError / "
            "stand-in raising ModuleNotFoundError for another module (stand-ins in a directory put in front of sys.path; "
            "the model runs the same variant, `Graph.withOpt`): the package and the modules containing the try (all in "
            "thorough, one rotating in quick). Host configurations (correspondence/oracle only): the package and, in thorough, every module "
            "alone, in quick 3 modules rotating with the seed, under each of: std streams closed (fd 0, 1, 2, all), -S, "
            "-E -s, no flags, -O, -OO, -B, cwd=/proc, C locale without UTF-8 mode. Thorough tier also: about 300 random ordered pairs and 100 random triples of modules that "
            "`import ioflo` does not load, across packages (the region where order independence is not proved); the synthetic tree harness/corpus/C01-synth (42 scenario packages exercising "
            "the import protocol: cycles, partial modules, star/__all__, fromlist, namespace packages, try/except, "
            "stdlib sub-module attributes ...; its modules alone, all ordered pairs and some permutations inside a "
            "scenario, random orders) run against the same model sources built over that tree; there only model == "
            "CPython is checked. Non-trivial = the order loads at least one module; distinct by the order")
    TRUSTED = ["translator harness/translate/imports.py: ast extraction of import-time events (module level, class bodies, "
               "decorators/defaults; not function bodies), constant folding of sys.version/sys.platform/__name__ tests, "
               "measurement of the non-ioflo modules (existence, what importing them loads and binds) in clean "
               "`/venv/bin/python -I` processes",
               "CPython 3.12 import semantics as encoded in Model/Imports.lean, validated by the correspondence: per-import "
               "outcome (class, raising module, line) and the exact set of names bound in every loaded ioflo module",
               "correspondence runs real imports in clean subprocesses of /venv/bin/python -I with sys.path[0] = tree under test"]
    PARTIAL = ["C01_each_cold_partial: excludes the region staleFrom (known finding D01c: two stale test modules import the "
               "removed ioflo.aio.nonblocking)",
               "C01_any_order_core_partial: in ANY sequence of imports of modules of the tree, every import of a module "
               "that `import ioflo` itself loads (55 of the 150 module files) succeeds; C01_after_root_partial: every module "
               "outside D01c imports after `import ioflo`; C01_first_noncore_partial: after any sequence of such imports "
               "the first import of any other module outside D01c succeeds; C01_reimport: once imported, always "
               "importable; C01_pair_partial / C01_any_order_pair_partial (kernel table over ordered pairs: for every module "
               "a, every other module m of its package and every module that statically imports a): `import a; import m` "
               "succeeds, and so does every sequence over {a, m} and the 55 core modules when the table relates a and m in "
               "both directions; C01_whole_tree_partial: all modules in one interpreter, in four total orders (name order, reverse, "
               "by sha1 of the name, by reversed name); C01_sweeps_same_state_partial: these four orders end in the SAME "
               "interpreter state (same modules loaded, same names bound to the same modules in every module); C01_optional_import_partial: for every optional third-party module X and every module m that "
               "tries to import X inside a try: m imports cold on hosts where X is absent, importable, raises ImportError, "
               "raises ModuleNotFoundError for another module (kernel table over the variant graphs; the handlers' classes "
               "come from the AST); C01_finished_namespaces_stable (generic importAll_frame): no sequence of imports changes "
               "the namespace of a module that had finished initialising, except for binding loaded sub-modules on their "
               "package. NOT proved "
               "(only exercised by the ordered pairs and random orders of the correspondence): that the first import of a "
               "module outside that set succeeds after imports of TWO OR MORE other modules outside that set, or after one "
               "that the pair table does not relate to it (C01_any_order_full)",
               "host start-up configuration (closed std streams, -S, -O, locale, cwd ...) is NOT part of the Lean model: "
               "the theorems are about the `-I` start-up state; the configuration matrix is checked by real imports only "
               "(oracle), so an import-time effect that depends on the environment inside a function called at import time "
               "(e.g. getConsole() -> Console.__init__ -> reopen() touching sys.stdout) is correspondence-only",
               "outside the model: imports and name uses inside function bodies executed at import time, dynamic namespace "
               "manipulation (globals().update), conditions the translator cannot fold (listed under translator.notes)"]
    TECHNIQUE = ("Lean 4: interpreter of CPython's import protocol over an import graph regenerated from the source on every "
                 "run; finite table by kernel evaluation (decide +kernel) + generic lemmas; differential correspondence "
                 "against real cold imports in clean subprocesses")
    LEVEL_TEXT = ("Proof over a regenerated model: C01_each_cold_partial (every module file of the tree imports in the model "
                  "of a newly started interpreter, except the two modules of known finding D01c, whose failure is "
                  "C01_counterexample_D01c) is a finite table checked by the Lean kernel on the graph generated from the "
                  "current source; the shared cold import of the root package is justified by the generic lemma "
                  "findAndLoad_via. Order: the generic theorems importModule_mono (an import never removes a module from "
                  "sys.modules) and importModule_again give C01_any_order_core_partial (in any sequence of imports every "
                  "import of a module that `import ioflo` itself loads succeeds), C01_after_root_partial and C01_reimport; "
                  "for first imports of the other modules in non-fresh states order independence is "
                  "exercised, not proved. The model is tied to CPython by comparing, for every module alone, for ordered "
                  "pairs and for random import orders, the outcome of every import and the names bound in every loaded "
                  "module with real imports in clean interpreters.")
    LEVEL_NOTE = ("Trusted: Lean kernel; axioms propext, Classical.choice, Quot.sound; the translator (ast extraction, "
                  "measurement of stdlib modules) and the import semantics of Model/Imports.lean, both validated only by "
                  "the correspondence runs; function bodies executed at import time are outside the model.")

    def __init__(self):
        # C01 never imports ioflo into the harness process: every import happens in a clean subprocess
        core.import_ioflo = lambda: None
        self.repo = core.REPO
        self._cache = {}
        self._graph = None
        self._driver_ready = False
        self._stale = {}
        self._tree = None
        self._synth = None
        self._synth_ready = False
        self._synth_done = False

    # ------------------------------------------------------------------ translator / graph
    def translate(self):
        self._tree = self.tree_hash()
        with core.lake_lock():
            self._graph = tr.translate(self.repo)
        if self.tree_hash() != self._tree:
            raise core.Infra("the source tree %s changed while it was being translated; run the check again" % self.repo)
        return self._graph

    def graph(self):
        if self._graph is None:
            self._graph = tr.build(self.repo)
        return self._graph

    def domain(self):
        return list(self.graph()["domain"])

    def dynamic_modules(self):
        return set(self.graph().get("dynamic", []))

    def ensure_driver(self):
        """the driver must be the one generated from the tree under test (replay mode skips stage A)"""
        if self._driver_ready:
            return
        if self._graph is None or "sha1" not in self._graph:
            self.translate()
        ok, log = core.lake_build(["drv-imports"])
        if not ok:
            raise core.Infra("cannot build drv-imports: " + log[-1500:])
        self._driver_ready = True

    # ------------------------------------------------------------------ synthetic semantics tree (thorough tier)
    def synth_graph(self):
        if self._synth is None:
            self._synth = tr.build(SYNTH)
        return self._synth

    def ensure_synth(self):
        """a scratch lake project with the same model and driver sources over the graph of the synthetic tree"""
        if self._synth_ready:
            return
        g = self.synth_graph()
        lean = os.path.join(core.LEAN, "IofloModel")
        files = {"lean-toolchain": open(os.path.join(core.LEAN, "lean-toolchain")).read(),
                 "lakefile.toml": 'name = "IofloModel"\nversion = "0.1.0"\ndefaultTargets = ["drv-imports"]\n\n'
                                  '[[lean_lib]]\nname = "IofloModel"\n\n[[lean_exe]]\nname = "drv-imports"\n'
                                  'root = "IofloModel.Drv.Imports"\n',
                 "IofloModel/Model/Imports.lean": open(os.path.join(lean, "Model", "Imports.lean")).read(),
                 "IofloModel/Drv/Proto.lean": open(os.path.join(lean, "Drv", "Proto.lean")).read(),
                 "IofloModel/Drv/Imports.lean": open(os.path.join(lean, "Drv", "Imports.lean")).read(),
                 "IofloModel/Generated/ImportGraph.lean": tr.lean_text(g)}
        with core.lake_lock():
            for rel, txt in files.items():
                path = os.path.join(SYNTH_PROJ, rel)
                os.makedirs(os.path.dirname(path), exist_ok=True)
                if not os.path.exists(path) or open(path).read() != txt:
                    with open(path, "w") as f:
                        f.write(txt)
            rc, out = core.sh(["lake", "build"], cwd=SYNTH_PROJ)
        if rc != 0:
            raise core.Infra("cannot build the driver over the synthetic tree: " + out[-1500:])
        self._synth_ready = True

    def synth_cases(self, rng):
        import itertools
        dom = list(self.synth_graph()["domain"])
        cases = [{"order": [m], "synth": 1} for m in dom]
        by = {}
        for m in dom:
            by.setdefault(m.split(".")[1] if "." in m else "", []).append(m)
        for k, ms in sorted(by.items()):
            for a, b in itertools.permutations(ms, 2):
                cases.append({"order": [a, b], "synth": 1})
            if 2 < len(ms) <= 5:
                perms = list(itertools.permutations(ms))
                for p in (perms if len(perms) <= 6 else rng.sample(perms, 6)):
                    cases.append({"order": list(p), "synth": 1})
        for _ in range(30):
            c = self._random_case(rng, dom)
            c["synth"] = 1
            cases.append(c)
        return cases

    # ------------------------------------------------------------------ real side
    def _run(self, order, synth=False, cfg="base", opt=None):
        repo = SYNTH if synth else self.repo
        stub = self.stub_for(opt) if opt else None
        c = CONFIGS[cfg]
        os.makedirs(RUNDIR, exist_ok=True)
        import threading
        resfile = os.path.join(RUNDIR, "r-%d-%d-%d.json" % (os.getpid(), threading.get_ident(), next(_COUNTER)))
        env = {"PATH": os.environ.get("PATH", ""), "IOFLO_VERIF": "1"}
        env.update(c.get("env", {}))
        closing = "close" in c
        p = subprocess.run(argv_for(cfg, ["-c", RUNNER, repo, ",".join(order), resfile, stub or "-"]),
                           stdin=None if closing else subprocess.DEVNULL,
                           stdout=None if closing else subprocess.PIPE,
                           stderr=None if closing else subprocess.PIPE, text=True,
                           cwd=c.get("cwd", "/"), timeout=600, env=env)
        try:
            with open(resfile) as f:
                r = json.loads(f.read())
            os.remove(resfile)
        except (OSError, ValueError):
            return ["HARNESS no result rc=%s %s" % (p.returncode, (p.stderr or "")[-300:].replace("\n", " | "))]
        if r["wrong"]:
            return ["HARNESS ioflo imported from %s instead of %s" % (r["wrong"], repo)]
        dyn = set(self.synth_graph().get("dynamic", [])) if synth else self.dynamic_modules()
        state = [x for x in r["state"] if x.split(":")[0] not in dyn]
        self._detail = getattr(self, "_detail", {})
        self._missing = getattr(self, "_missing", {})
        for m, o, d, ms in zip(order, r["out"], r["detail"], r["missing"]):
            if d:
                self._detail[(cfg if not opt else "opt:%s:%s" % tuple(opt), tuple(order), m)] = d
                self._missing[(cfg, tuple(order), m)] = ms
        return r["out"] + [" ".join(state) if state else "-"]

    def tree_hash(self):
        import hashlib
        h = hashlib.sha1()
        for m, info in sorted(tr.discover(self.repo).items()):
            if info["path"]:
                with open(info["path"], "rb") as f:
                    h.update(m.encode() + b"\0" + f.read() + b"\0")
        return h.hexdigest()

    def check_tree_unchanged(self):
        """the graph was generated from the files as they were at the start of the run; if somebody edits or
        commits to the tree while the real imports run, model and implementation see different sources"""
        if self._tree is not None and self.tree_hash() != self._tree:
            raise core.Infra("the source tree %s changed while the check was running; run it again" % self.repo)

    def prefetch(self, cases):
        cases = list(cases)
        todo = [c for c in cases if core.case_key(c) not in self._cache]
        with concurrent.futures.ThreadPoolExecutor(16) as pool:
            for c, out in zip(todo, pool.map(lambda c: self._run(c["order"], bool(c.get("synth")), c.get("cfg", "base"), c.get("opt")), todo)):
                self._cache[core.case_key(c)] = out
        if todo:
            self.check_tree_unchanged()
        return cases

    def impl(self, case):
        k = core.case_key(case)
        if k not in self._cache:
            self._cache[k] = self._run(case["order"], bool(case.get("synth")), case.get("cfg", "base"), case.get("opt"))
        return self._cache[k]

    # ------------------------------------------------------------------ model side
    def optional(self):
        return self.graph().get("optional", {})

    def stub_for(self, opt):
        name, kind = opt
        return stub_dir(name, kind, bool(self.optional().get(name, {}).get("exists")))

    def optional_cases(self, tier, dom):
        """host variants of the optional third-party modules the tree tries to import inside try/except (the sites come
        from the generated graph): the package and the modules that contain such a `try`"""
        import random
        seed = int(os.environ.get("VERIF_SEED", "0") or 0)
        cases = []
        for i, (name, d) in enumerate(sorted(self.optional().items())):
            for j, kind in enumerate(OPT_KINDS):
                if kind == "stub" and d["exists"]:
                    continue
                ms = [m for m in d["modules"] if m in dom]
                if tier != "thorough" and ms:
                    ms = [random.Random(seed * 100 + i * 10 + j).choice(ms)]
                for m in (["ioflo"] if "ioflo" in dom else []) + ms:
                    cases.append({"order": [m], "opt": [name, kind]})
        return cases

    def requests(self, case):
        first = "variant %s %s" % tuple(case["opt"]) if case.get("opt") else "variant -"
        return [first] + ["load " + m for m in case["order"]] + ["state"]

    def model_post(self, case, replies):
        if case.get("cfg") in NO_MODEL:
            return self.impl(case)      # start-up state the generated graph does not describe: oracle only
        dyn = set(self.synth_graph().get("dynamic", [])) if case.get("synth") else self.dynamic_modules()
        outs = replies[1:-1]
        state = [x for x in replies[-1].split() if x.split(":")[0] not in dyn and x != "-"]
        return outs + [" ".join(state) if state else "-"]

    DRV_ENV = {"MALLOC_TRIM_THRESHOLD_": "2000000000", "MALLOC_MMAP_THRESHOLD_": "2000000000",
               "MALLOC_TOP_PAD_": "67108864"}   # the model's state is a few large naturals: keep glibc from trimming

    def _drive(self, lines, synth=False):
        if not lines:
            return []
        exe = os.path.join(SYNTH_PROJ, ".lake", "build", "bin", "drv-imports") if synth else \
            os.path.join(core.BIN, "drv-" + self.ENGINE)
        p = subprocess.run([exe], input="\n".join(lines) + "\n",
                           stdout=subprocess.PIPE, stderr=subprocess.PIPE, text=True, timeout=3600,
                           env=dict(os.environ, **self.DRV_ENV))
        if p.returncode != 0:
            raise core.Infra("driver %s failed rc=%s: %s" % (self.ENGINE, p.returncode, p.stderr[-2000:]))
        out = p.stdout.split("\n")
        if out and out[-1] == "":
            out.pop()
        if len(out) != len(lines):
            raise core.Infra("driver %s: %d requests, %d replies" % (self.ENGINE, len(lines), len(out)))
        return out

    def model(self, cases):
        """like core.Check.model, but the cases are dealt over up to 16 driver processes"""
        cases = list(cases)
        if any(c.get("synth") for c in cases) and not all(c.get("synth") for c in cases):
            idx_s = [i for i, c in enumerate(cases) if c.get("synth")]
            idx_m = [i for i, c in enumerate(cases) if not c.get("synth")]
            res = [None] * len(cases)
            for idx in (idx_s, idx_m):
                for i, o in zip(idx, self.model([cases[i] for i in idx])):
                    res[i] = o
            return res
        synth = bool(cases) and bool(cases[0].get("synth"))
        if synth:
            self.ensure_synth()
        else:
            self.ensure_driver()
        k = max(1, min(16, len(cases) // 4))
        batches = [cases[i::k] for i in range(k)]

        def run(batch):
            reqs, spans = [], []
            for c in batch:
                r = list(self.requests(c))
                spans.append((len(reqs), len(r)))
                reqs.extend(r)
            replies = self._drive(reqs, synth)
            return [list(self.model_post(c, replies[a:a + n])) for c, (a, n) in zip(batch, spans)]
        with concurrent.futures.ThreadPoolExecutor(k) as pool:
            outs = list(pool.map(run, batches))
        res = [None] * len(cases)
        for i, o in enumerate(outs):
            res[i::k] = o
        return res

    # ------------------------------------------------------------------ cases
    def corpus(self):
        return self.prefetch(super().corpus())

    def exhaustive(self, tier):
        dom = self.domain()
        cases = [{"order": [m]} for m in dom]
        cases += self.matrix_cases(tier, dom)
        cases += self.optional_cases(tier, dom)
        if tier == "thorough":
            # what `import ioflo` itself loads (taken from the real run): a pair of two such modules only repeats
            # "the second import is a no-op", so only every 7th of those pairs is kept
            core_out = self.impl({"order": ["ioflo"]}) if "ioflo" in dom else ["-"]
            core = {x.split(":")[0] for x in core_out[-1].split()}
            by_pkg = {}
            for m in dom:
                by_pkg.setdefault(m.rpartition(".")[0], []).append(m)
            k = 0
            for pkg, ms in sorted(by_pkg.items()):
                for a in ms:
                    for b in ms:
                        if a != b:
                            k += 1
                            if (a in core and b in core and k % 7) or (k % 3 and not (a in core and b in core)):
                                continue
                            cases.append({"order": [a, b]})
        return self.prefetch(cases)

    def matrix_cases(self, tier, dom):
        """host start-up configurations: thorough = the package and every module alone under every configuration;
        quick = the package under every configuration plus a subset of the modules that rotates with VERIF_SEED"""
        import random
        cases = []
        seed = int(os.environ.get("VERIF_SEED", "0") or 0)
        for i, cfg in enumerate(MATRIX):
            if tier == "thorough":
                ms = list(dom)
            else:
                r = random.Random(seed * 1000 + i)
                ms = (["ioflo"] if "ioflo" in dom else []) + r.sample(dom, min(3, len(dom)))
            seen = set()
            for m in ms:
                if m not in seen:
                    seen.add(m)
                    cases.append({"order": [m], "cfg": cfg})
        return cases

    def _random_case(self, rng, dom):
        kind = rng.randrange(5)
        if kind == 0:
            k = rng.randrange(2, 6)
        elif kind == 1:
            k = rng.randrange(6, 30)
        elif kind == 2:
            k = len(dom)
        else:
            k = rng.randrange(2, len(dom) + 1)
        order = rng.sample(dom, min(k, len(dom)))
        if rng.randrange(3) == 0 and order:                 # a repeat
            order.insert(rng.randrange(len(order) + 1), rng.choice(order))
        if rng.randrange(4) == 0 and "ioflo" in dom:          # the top-level package somewhere
            order = [m for m in order if m != "ioflo"]
            order.insert(rng.randrange(len(order) + 1), "ioflo")
        return {"order": order}

    def generate(self, rng, n, tier):
        dom = self.domain()
        cases = [self._random_case(rng, dom) for _ in range(n)]
        if tier == "thorough" and not self._synth_done:
            self._synth_done = True
            # the part of C01_any_order_full that is not proved: first imports of modules outside the core after
            # other such modules.  A seeded sample of ordered pairs and triples across packages.
            core_out = self.impl({"order": ["ioflo"]}) if "ioflo" in dom else ["-"]
            core = {x.split(":")[0] for x in core_out[-1].split()}
            non = [m for m in dom if m not in core]
            for _ in range(300 if len(non) > 2 else 0):
                a, b = rng.sample(non, 2)
                if a.rpartition(".")[0] != b.rpartition(".")[0]:
                    cases.append({"order": [a, b]})
            for _ in range(100 if len(non) > 3 else 0):
                cases.append({"order": rng.sample(non, 3)})
            cases += self.synth_cases(rng)
        return self.prefetch(cases)

    def search(self, rng, n, tier):
        return self.generate(rng, n, tier)

    # ------------------------------------------------------------------ oracle
    def cold(self, m):
        return self.impl({"order": [m]})[0]

    def oracle(self, case, out):
        if case.get("synth"):
            return None       # these modules are meant to fail; only model == CPython is checked on them
        order = case["order"]
        cfg = case.get("cfg", "base")
        if case.get("opt"):
            name, kind = case["opt"]
            for m, o in zip(order, out):
                if o != "ok":
                    d = getattr(self, "_detail", {}).get(("opt:%s:%s" % (name, kind), tuple(order), m), "")
                    return ("import of %s failed on a host where the optional module %s is %s: %s [%s]; reproduce: %s" % (
                        m, name, {"absent": "absent", "stub": "installed and importable", "importerror":
                                  "installed but raises ImportError", "notfoundother":
                                  "installed but lacks one of its own dependencies (ModuleNotFoundError)"}[kind],
                        o, d, command(self.repo, order[:order.index(m) + 1], "base", self.stub_for(case["opt"]))))
            return None
        if len(out) != len(order) + 1:
            return "harness: %s" % (out[:1],)
        for m, o in zip(order, out):
            if o != "ok":
                if self.expected_absent(cfg, order, m, o):
                    continue
                d = getattr(self, "_detail", {}).get((cfg, tuple(order), m), "")
                return "import of %s failed%s: %s [%s]; reproduce: %s" % (
                    m, "" if cfg == "base" else " in host configuration `%s`" % cfg, o, d,
                    command(self.repo, order[:order.index(m) + 1], cfg))
        seen = set()
        for m, o in zip(order, out):
            if m in seen:
                continue
            seen.add(m)
            c = self.cold(m)
            if c.split()[:2] != o.split()[:2] and not self.expected_absent(cfg, order, m, o):
                return "import of %s after %s%s: %s, but alone in a fresh interpreter: %s; reproduce: %s" % (
                    m, order[:order.index(m)], "" if cfg == "base" else " in host configuration `%s`" % cfg, o, c,
                    command(self.repo, order[:order.index(m) + 1], cfg))
        return None

    def expected_absent(self, cfg, order, m, o):
        """under `-S` there is no site-packages directory: a module of the tree whose own import of a third-party
        distribution fails with ModuleNotFoundError there is not an ioflo defect (DESIGN C01: optional third-party
        modules).  Decided from the real run only: the missing module is not ioflo's and lives in site-packages."""
        if cfg != "-S" or not o.startswith("ERR ModuleNotFoundError"):
            return False
        name = getattr(self, "_missing", {}).get((cfg, tuple(order), m))
        if not name or name == "ioflo" or name.startswith("ioflo."):
            return False
        import importlib.util
        try:
            spec = importlib.util.find_spec(name.partition(".")[0])
        except Exception:
            return False
        ok = bool(spec and spec.origin and "site-packages" in spec.origin)
        if ok:
            self._absent = getattr(self, "_absent", set())
            self._absent.add("%s: %s (imported by %s)" % (cfg, name, m))
        return ok

    def nontrivial(self, case, out):
        return len(case["order"]) > 0 and not out[0].startswith("HARNESS")

    def bucket(self, case, out):
        if case.get("synth"):
            return "synthetic-semantics-tree"
        if case.get("opt"):
            return "optional:%s:%s" % tuple(case["opt"]) + ("+failing-import" if any(o.startswith("ERR") for o in out[:-1]) else "")
        if case.get("cfg"):
            return "host-config:" + case["cfg"] + ("+failing-import" if any(o.startswith("ERR") for o in out[:-1]) else "")
        n = len(case["order"])
        b = "single" if n == 1 else "pair" if n == 2 else "order-3..29" if n < 30 else "order-30+"
        if any(o.startswith("ERR") for o in out[:-1]):
            b += "+failing-import"
        return b

    def is_stale(self, m):
        if m not in self._stale:
            self.ensure_driver()
            self._stale[m] = self._drive(["stale " + m])[0] == "true"
        return self._stale[m]

    def region(self, finding, case):
        """D01c: every failing import of the case is a module whose own top-level code imports a name that exists
        nowhere (Lean predicate `staleFrom`, evaluated by the driver), and it fails with ImportError in itself"""
        if finding.get("region") != "staleFrom":
            return False
        out = self.impl(case)
        bad = [(m, o) for m, o in zip(case["order"], out) if o != "ok"]
        return bool(bad) and all(self.is_stale(m) and o.split()[:3] == ["ERR", "ImportError", m] for m, o in bad)

    def shrink_candidates(self, case):
        order = case["order"]
        extra = {k: v for k, v in case.items() if k != "order"}
        if len(order) > 4:
            yield dict(extra, order=order[:len(order) // 2])
            yield dict(extra, order=order[len(order) // 2:])
        for i in range(len(order)):
            yield dict(extra, order=order[:i] + order[i + 1:])
        if case.get("cfg"):
            yield {"order": order}        # does it also fail in the ordinary configuration?

    def extra_evidence(self):
        g = self.graph()
        nodes = g["nodes"]
        nevents = sum(1 for nd in nodes.values() for _ in tr.walk_events(nd["body"]))
        return {
            "translator": {"graph_sha1": g.get("sha1"), "nodes": len(nodes), "domain_modules": len(g["domain"]),
                           "events": nevents, "preloaded": g["preloaded"], "python": g["python"],
                           "notes": g["notes"], "dynamic_namespace_modules": sorted(g.get("dynamic", [])),
                           "expected_absent_non_ioflo_modules": sorted(
                               n for n, nd in nodes.items() if not nd["ioflo"] and not nd["exists"]
                               and "." not in n)},
            "tree": self.repo,
            "host_configurations": {c: " ".join(argv_for(c, ["-c", "..."])) + ((" cwd=" + CONFIGS[c]["cwd"]) if "cwd" in CONFIGS[c] else "")
                                    + ((" env " + " ".join("%s=%s" % kv for kv in sorted(CONFIGS[c]["env"].items()))) if "env" in CONFIGS[c] else "")
                                    for c in CONFIGS},
            "expected_absent_under_-S": sorted(getattr(self, "_absent", set())),
            "std_stream_uses_at_import": g.get("std_stream_uses", []),
            "optional_modules": g.get("optional", {}),
        }
