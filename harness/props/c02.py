"""C02 — the scheduler runs each due tasker once per tick, on its period, in declared order.
Model: lean/IofloModel/Model/Sked.lean (Skedder.run / addReadyTask, generic over the time type).
Theorems: lean/IofloModel/Props/C02.lean.
Tie: the real Skedder/House/Store with scripted taskers around the real base Tasker runner and the
real Want* actors (props/sked_doubles.py) against the model: exact (Rat) on dyadic grids, Lean Float
on decimal grids.
Oracle (independent of the model): once per pass, declared order, no run after abort, and the k-th run
is at the first pass whose exact time (fractions.Fraction) reaches the due time."""
import itertools, struct
from fractions import Fraction
import core
from props import sked_doubles as sd


def placed(case):
    out = []
    for h in case["houses"]:
        out += h["f"] + h["m"] + h["b"]
    return out


class CHECK(core.Check):
    PROPERTY = "C02"
    LEAN_MODULES = ["IofloModel.Props.C02"]
    ENGINE = "sked"
    N_QUICK = 700
    N_THOROUGH = 30000
    N_SEARCH = 1500
    RULE = ("scheduler configurations: tick period x per-tasker periods (0, <P, =P, multiples, non-multiples, negative) x "
            "1-2 houses with front/mid/back placement x active/inactive x scripted bids (stop/start/run/abort/ready, with "
            "period changes), self-stops, generator returns, rare exceptions; mode x = dyadic numbers (exact model), "
            "mode f = decimal numbers run as binary64 (Float model); 30% of the exact-mode cases run the SAME Skedder again once or twice "
            "(after a normal stop, a KeyboardInterrupt or an exception), with all or some taskers re-made in between. Bounded-exhaustive: one and two taskers over the period "
            "grid x order x stop index. non-trivial = at least 3 passes and some tasker ran at least twice; distinct by case content")
    TRUSTED = ["correspondence: real Skedder.run/addReadyTask, House.orderTaskables, Store.changeStamp, base Tasker.makeRunner and "
               "Want*.action run in-process; the scripted tasker wrapper, the recorder and the loop/finally phase probe "
               "(caller frame line inside the `finally:` body, located with ast) of harness/props/sked_doubles.py are test doubles",
               "binary64: Lean `Float` (hardware) and the kernel-evaluable model F64 (Model/SkedF64.lean) are both run on every "
               "decimal case and must equal CPython's float bit for bit; all timing theorems are over exact time (Rat)",
               "the model describes skedding.py as repaired by fixes/D02a-skedder-status-after-stopiteration.patch",
               "real-time mode (time.sleep, MonoTimer) not modelled"]
    PARTIAL = ["C02_kth_run_float_partial: for binary64 time the due-pass law is proved only outside the decidable region "
               "`floatDrift` (binary64 run = exact run, event by event); inside it the code deviates: known finding D2, "
               "C02_counterexample_decimal / C02_counterexample_decimal_passes (kernel-evaluated on F64)",
               "real-time mode of Skedder.run (sleeping on MonoTimer) is outside the model",
               "the clamp max(0.0, period) of Want*.action is in the model and compared, but the oracle takes the period read "
               "after each run as given (the property does not state the clamp)"]
    TECHNIQUE = ("Lean 4 theorems (one pass = chain of per-entry steps over the deque; invariants over passes and over the "
                 "whole run incl. the abort sweep; due-time recurrence over Rat; kernel evaluation of a binary64 model for the "
                 "counterexample) + differential correspondence with the real scheduler")
    LEVEL_TEXT = ("Proof on a model of Skedder.run that is generic over the time type and over the tasker environment. Full: "
                  "C02_start_declared_order, C02_pass_sublist, C02_declared_order, C02_runs_once (every pass of every run sends to a "
                  "sublist of the declared fronts+mids+backs order, each id at most once), C02_aborted_never_runs (no send after "
                  "status ABORTED / StopIteration / exception, abort sweep included), and over exact time C02_runs_iff_due, "
                  "C02_kth_run (first pass after the previous run whose time reaches retime0 + k*p), C02_every_tick_when_p_le_P, "
                  "C02_period_change_next_reschedule, C02_from_start. C02_rerun_starts_declared, C02_rerun_order_once "
                  "(run() always leaves the deque empty - fix D03a -, so every later run of the same Skedder starts from the declared "
                  "order and obeys the same laws; C02_old_sweep_left_stale_entries documents the code before the fix). Partial: C02_kth_run_float_partial (binary64 time only outside "
                  "the region floatDrift); C02_counterexample_decimal(_passes) prove the deviation of known finding D2 on the "
                  "kernel-evaluable binary64 model (tick 0.1, period 0.2: passes 0,2,4,7,9,11).")
    LEVEL_NOTE = ("Trusted: Lean kernel; axioms propext, Classical.choice, Quot.sound; the hand transcription of skedding.py / "
                  "tasking.py / wanting.py validated by the correspondence runs (exact model on dyadic grids, hardware Float and the "
                  "F64 model on decimal grids); the scripted test taskers and the phase probe; real-time mode not covered; "
                  "assumes fix patch D02a applied (status after StopIteration).")

    # ------------------------------------------------------------------ generation
    MULT_X = ["0", "1/2", "1", "3/2", "2", "3", "5/4", "1/4", "7/2", "-1", "1", "0"]
    MULT_F = ["0", "1/2", "1", "3/2", "2", "3", "7/3", "1/3", "2/7", "10", "2", "-2"]
    P_X = ["1/8", "1/16", "1/4", "1/2", "1/1", "3/8", "5/16", "1/1024", "2/1", "-1/8", "1/8"]
    P_F = ["1/10", "1/5", "3/10", "7/10", "1/100", "1/3", "1/1000", "11/10", "1/10", "-1/10", "1/8"]

    def gen_case(self, rng, mode=None):
        mode = mode or ("x" if rng.random() < 0.6 else "f")
        P = Fraction(rng.choice(self.P_X if mode == "x" else self.P_F))
        mults = self.MULT_X if mode == "x" else self.MULT_F
        zero = rng.random() < 0.03
        if zero:
            P = Fraction(0)

        def per():
            return str(Fraction(0) if zero else abs(P) * Fraction(rng.choice(mults)))
        n = rng.choice([1, 2, 2, 3, 3, 4, 5, 6])
        if mode == "x":
            stamp = rng.choice(["0/1"] * 6 + ["1/2", "10/1", "-3/4", "5/8"])
        else:
            stamp = rng.choice(["0/1"] * 6 + ["1/10", "3/10", "1/1", "-1/5"])
        taskers = []
        for i in range(n):
            K = rng.randint(1, 9)
            script = []
            for k in sorted(rng.sample(range(K), min(K, rng.choice([0, 0, 1, 1, 2, 3])))):
                acts = []
                for _ in range(rng.choice([1, 1, 2])):
                    r = rng.random()
                    if r < 0.9:
                        ctl = rng.choice([0, 1, 2, 2, 2, 1, 3, 4])
                        tg = sorted(set(rng.randrange(n) for _ in range(rng.choice([1, 1, 2]))))
                        p = per() if ctl in (1, 2, 4) and rng.random() < 0.6 else None
                        acts.append(["b", ctl, p, tg])
                    elif r < 0.94:
                        acts.append(["r"]); break
                    elif r < 0.98:
                        kind = rng.choice(["k", "e", "e", "s", "b"])
                        acts.append(["x", kind, {"k": "KeyboardInterrupt", "s": "SystemExit", "e": rng.choice(["RuntimeError", "ValueError"]),
                                                 "b": "FakeBase"}[kind]]); break
                    else:
                        acts.append(["b", 5, None, [rng.randrange(n)]])
                script.append([k, acts])
            tail_act = rng.choice([["b", 0, None, [i]]] * 6 + [["b", 3, None, [i]], ["r"]])
            taskers.append({"active": rng.random() < 0.8, "period": per(), "script": script, "tail": [K, [tail_act]]})
        ids = list(range(n))
        rng.shuffle(ids)
        if n > 2 and rng.random() < 0.25:
            ids = ids[:-1]                  # one tasker exists but is not scheduled
        nh = 2 if len(ids) >= 2 and rng.random() < 0.2 else 1
        houses = [{"f": [], "m": [], "b": []} for _ in range(nh)]
        for i in ids:
            houses[rng.randrange(nh)][rng.choice("fmb")].append(i)
        case = {"mode": mode, "P": str(P), "stamp": stamp, "houses": houses, "taskers": taskers}
        if mode == "x" and rng.random() < 0.3:
            # the same Skedder is run again, once or twice, after re-making all or some of the taskers
            case["reruns"] = []
            for _ in range(rng.choice([1, 1, 2])):
                ids = sorted(i for i in range(n) if rng.random() < (1.0 if rng.random() < 0.6 else 0.5))
                case["reruns"].append(ids)
        return case

    def generate(self, rng, n, tier):
        cases = [self.gen_case(rng) for _ in range(n)]
        # exact-mode cases first: a failure is then reported on dyadic numbers when one exists, away from
        # the binary64 rounding of finding D2
        return sorted(cases, key=lambda c: c["mode"] != "x")

    def exhaustive(self, tier):
        """one tasker: every period of the grid x stop index; two taskers: periods x periods x both orders"""
        grid_x = ["0", "1/2", "1", "3/2", "2", "3", "5/4"]
        grid_f = ["0", "1/2", "1", "2", "3", "7/3"]
        for mode, P, grid in (("x", Fraction(1, 8), grid_x), ("f", Fraction(1, 10), grid_f)):
            for m in grid:
                for K in ((3, 7) if tier == "quick" else range(1, 10)):
                    yield {"mode": mode, "P": str(P), "stamp": "0/1", "houses": [{"f": [0], "m": [], "b": []}],
                           "taskers": [{"active": True, "period": str(P * Fraction(m)), "script": [],
                                        "tail": [K, [["b", 0, None, [0]]]]}]}
            if tier == "thorough":
                for m1, m2, order, K in itertools.product(grid, grid, ((0, 1), (1, 0)), (2, 5, 8)):
                    t = lambda m, i, K=K: {"active": True, "period": str(P * Fraction(m)), "script": [],
                                           "tail": [K, [["b", 0, None, [i]]]]}
                    yield {"mode": mode, "P": str(P), "stamp": "0/1",
                           "houses": [{"f": [order[0]], "m": [], "b": [order[1]]}], "taskers": [t(m1, 0), t(m2, 1)]}

    # ------------------------------------------------------------------ the two sides
    def impl(self, case):
        return sd.run_case(case)

    def requests(self, case):
        if case["mode"] == "f":       # the region predicate of D2 is evaluated in the same driver batch
            return [sd.run_request(case), sd.drift_request(case), sd.soft_request(case)]
        return [sd.run_request(case)]

    def model_post(self, case, replies):
        lines = sd.parse_reply(replies[0], multi=case.get("reruns") is not None)
        return lines

    # ------------------------------------------------------------------ oracle
    def _exact_period(self, case, text):
        if case["mode"] == "x":
            return Fraction(text)
        x = struct.unpack(">d", bytes.fromhex(text))[0]
        cands = [Fraction(case["P"]), Fraction(case["stamp"]), Fraction(0)]
        for t in case["taskers"]:
            cands.append(Fraction(t["period"]))
            for _, acts in t.get("script", []) + ([t["tail"]] if t.get("tail") else []):
                for a in acts:
                    if a[0] == "b" and a[2] is not None:
                        cands.append(Fraction(a[2]))
        for c in cands:
            for v in (c, abs(c), max(Fraction(0), c)):
                if float(v) == x:
                    return v
        return Fraction(x)

    def oracle(self, case, out):
        if not out or out[0].startswith("HARNESS-EXC"):
            return "harness exception: %s" % out[:1]
        if case.get("reruns") is None:
            return self._oracle_run(case, out, abs(Fraction(case["stamp"])))[0]
        # several run() calls on one Skedder: the rules hold for every run; a later run starts at the stamp the
        # previous one reached
        runs, cur = [], None
        for l in out:
            if l.startswith("run "):
                cur = []
                runs.append(cur)
            elif cur is not None:
                cur.append(l)
        t0 = abs(Fraction(case["stamp"]))
        for k, lines in enumerate(runs):
            why, nticks = self._oracle_run(case, lines, t0)
            if why is not None:
                return "run %d of the same scheduler: %s" % (k + 1, why)
            t0 = t0 + nticks * abs(Fraction(case["P"]))
        return None

    def _oracle_run(self, case, out, t0):
        if out and out[0] == "fuel":
            return None, 0        # cut by the pass budget (the model must say `fuel` too)
        try:
            evs = []
            for l in out[1:]:
                if l.startswith("aborted") or l.startswith("ticks"):
                    continue
                ph, tick, tid, ctl, stamp, res, per = l.split()
                evs.append((int(tick), int(tid), int(ctl), stamp, res, per, ph))
            nticks = int([l for l in out if l.startswith("ticks")][0].split()[1])
        except Exception as ex:
            return "unreadable trace: %r" % (ex,), 0
        order = placed(case)
        # the abort sweep of the `finally` clause comes after every send of the main loop
        k = len(evs)
        while k > 0 and evs[k - 1][6] == "F":
            k -= 1
        if any(e[6] != "L" for e in evs[:k]):
            return "a send outside the main loop precedes a send of the main loop", nticks
        return self._loop_rules(case, [e[:6] for e in evs[:k]], [e[:6] for e in evs[k:]], nticks, order, t0), nticks

    def _loop_rules(self, case, evs, sweep, nticks, order, t0):
        pos = {i: k for k, i in enumerate(order)}
        P = abs(Fraction(case["P"]))
        dead = set()
        raised_in_last = any(e[4].startswith("raise") for e in evs)
        # (a) once per pass, declared order; (b) never after abort; (c) passes in order
        last_tick, seen, last_pos = -1, set(), -1
        for tick, tid, ctl, stamp, res, per in evs:
            if tid not in pos:
                return "tasker %d is not scheduled but was run" % tid
            if tick < last_tick:
                return "pass numbers decrease"
            if tick != last_tick:
                last_tick, seen, last_pos = tick, set(), -1
            if tid in seen:
                return "tasker %d ran twice in pass %d" % (tid, tick)
            seen.add(tid)
            if pos[tid] <= last_pos:
                return "pass %d: tasker %d ran out of declared order" % (tick, tid)
            last_pos = pos[tid]
            if tid in dead:
                return "tasker %d ran in pass %d after it aborted" % (tid, tick)
            if res in ("y3", "stop") or res.startswith("raise"):
                dead.add(tid)
        ids = [e[1] for e in sweep]
        if len(set(ids)) != len(ids):
            return "abort sweep sends twice to one tasker"
        for i in ids:
            if i in dead:
                return "abort sweep reaches tasker %d which had aborted" % i
        # (d) k-th run at the first pass whose exact time reaches the due time
        for tid in order:
            runs = [(e[0], e[4], e[5]) for e in evs if e[1] == tid]
            due, prev, alive = t0, -1, True
            for tick, res, per in runs:
                if t0 + tick * P < due:
                    return "tasker %d ran in pass %d at %s before its due time %s" % (tid, tick, t0 + tick * P, due)
                if tick - 1 > prev and t0 + (tick - 1) * P >= due:
                    return "tasker %d was due at %s (pass %d or earlier) but ran only in pass %d" % (tid, due, tick - 1, tick)
                prev = tick
                if res in ("y3", "stop") or res.startswith("raise"):
                    alive = False
                    break
                due = due + self._exact_period(case, per)
            if alive:
                # passes after its last run in which it was not run: complete passes only
                top = nticks
                if raised_in_last:
                    # the pass that raised is incomplete: only taskers before the raiser were visited
                    raiser = [e[1] for e in evs if e[4].startswith("raise")][0]
                    if pos[tid] > pos[raiser]:
                        top = nticks - 1
                if top > prev and t0 + top * P >= due:
                    return "tasker %d was due at %s but did not run up to pass %d" % (tid, due, top)
        return None

    # ------------------------------------------------------------------ bookkeeping
    def nontrivial(self, case, out):
        try:
            nticks = int([l for l in out if l.startswith("ticks")][0].split()[1])
        except Exception:
            return False
        runs = {}
        for l in out[1:]:
            if l[0] in "LF":
                tid = l.split()[2]
                runs[tid] = runs.get(tid, 0) + 1
        return nticks >= 2 and any(v >= 2 for v in runs.values())

    def bucket(self, case, out):
        changes = any(a[0] == "b" and a[2] is not None for t in case["taskers"] for _, acts in t.get("script", []) for a in acts)
        first = [l for l in out if not l.startswith("run ")][:1]
        return "%s/%s/%s%s" % (case["mode"], (first[0].split()[0] if first else "?"), "periodbid" if changes else "fixed",
                               "/rerun%d" % len(case["reruns"]) if case.get("reruns") is not None else "")

    _drift = {}

    def region(self, finding, case):
        if finding.get("id") != "D2" or case.get("mode") != "f":
            return False
        k = core.case_key(case)
        if k not in self._drift:
            self._drift[k] = core.Driver(self.ENGINE).run([sd.drift_request(case)])[0]
        return self._drift[k] == "true"

    def shrink_candidates(self, case):
        for c in self._shrinks(case):
            # a candidate inside the region of D2 would be reported as the known finding, not as this failure
            if c["mode"] == "f" and self.region({"id": "D2"}, c):
                continue
            yield c

    def _shrinks(self, case):
        import copy
        n = len(case["taskers"])
        for hi, h in enumerate(case["houses"]):
            for key in "fmb":
                for i in list(h[key]):
                    if len(placed(case)) > 1:
                        c = copy.deepcopy(case)
                        c["houses"][hi][key].remove(i)
                        yield c
        for i in range(n):
            t = case["taskers"][i]
            for k in range(len(t.get("script", []))):
                c = copy.deepcopy(case)
                del c["taskers"][i]["script"][k]
                yield c
            if t.get("tail") and t["tail"][0] > 1:
                c = copy.deepcopy(case)
                c["taskers"][i]["tail"][0] = t["tail"][0] - 1
                yield c
            if Fraction(t["period"]) != 0:
                c = copy.deepcopy(case)
                c["taskers"][i]["period"] = "0"
                yield c
        if case["stamp"] not in ("0", "0/1"):
            c = copy.deepcopy(case)
            c["stamp"] = "0/1"
            yield c
        if case.get("reruns"):
            c = copy.deepcopy(case)
            c["reruns"] = c["reruns"][:-1] or None
            if c["reruns"] is None:
                del c["reruns"]
            yield c
