"""C03 — the scheduler stops when nothing runs and aborts every remaining tasker, however the run ends.
Model: lean/IofloModel/Model/Sked.lean (Skedder.run incl. exception paths and the `finally:` sweep) with the concrete
environment lean/IofloModel/Model/SkedLoop.lean (framers with nested frames, recorder actions, bids, crash plan).
Theorems: lean/IofloModel/Props/C03.lean.
Tie: generated FloScript programs built by the real Builder and run by the real Skedder, once without a crash and
once for EVERY crash point (the k-th executed action raises RuntimeError / KeyboardInterrupt / SystemExit / a bare
BaseException) and every pass boundary (KeyboardInterrupt / exception while the stamps are advanced).
Oracle (independent of the model): passes continue exactly while a scheduled tasker is started/running; the sweep sends
one ABORT to each tasker still scheduled, none to the others; exceptions other than KeyboardInterrupt leave run();
each aborted/stopped framer exits its entered frames bottom-up and ends with none entered."""
import copy
from fractions import Fraction
import core
from props import loop_doubles as ld

KINDS = [("e", "RuntimeError"), ("k", "KeyboardInterrupt"), ("e", "ValueError"), ("s", "SystemExit"), ("b", "FakeBase")]


class CHECK(core.Check):
    PROPERTY = "C03"
    LEAN_MODULES = ["IofloModel.Props.C03"]
    ENGINE = "skedloop"
    N_QUICK = 7            # programs; each is run at every crash point
    N_THOROUGH = 150
    N_SEARCH = 12
    RULE = ("programs: 1-3 worker framers (active/inactive, front/mid/back, periods 0..2P) with 1-4 frames in a forest (`frame x in y`), "
            "any first frame, recorder deeds at enter and exit of every frame, plain deeds, stop/abort/start/run/ready bids in every "
            "context, transitions on recurred (also to ancestors, descendants and the frame itself), plus a supervisor that stops all; "
            "each program is run without a crash, with the k-th executed action raising (k = 1..all, exception kind cycling over "
            "RuntimeError, KeyboardInterrupt, ValueError, SystemExit, bare BaseException; thorough: two kinds per point) and with an "
            "exception at every pass boundary. non-trivial = a crash plan that fired, or a run of at least 3 passes; distinct by content")
    TRUSTED = ["correspondence: real Builder, Skedder.run, Framer.makeRunner, Frame/Framer enter/exit/recur/segue, Transiter, Want* run "
               "in-process; crash injection (action counter in the harness deeds and Want*.action wrappers, store.changeStamp hook) and "
               "observation (runner proxy, caller-frame phase probe, generator liveness via gi_frame) by harness/props/loop_doubles.py",
               "crash points are at the start of an action and at the stamp update between passes; an asynchronous interrupt between two "
               "bytecodes of Skedder.run itself is not modelled",
               "frames: nested outlines and transitions as in framing.py, without auxiliaries, entry guards, clones; exact time only"]
    PARTIAL = ["C03_sweep_aborts_each_once_partial: the sweep reaches every remaining tasker unless an ABORT handler lets a "
               "KeyboardInterrupt / SystemExit / bare BaseException out (region sweepRaised, known finding D03b, "
               "C03_counterexample_sweep_crash); handlers raising an Exception no longer stop it (fix D03a, "
               "C03_sweep_survives_exceptions; C03_old_sweep_stopped_at_exception documents the old behaviour)",
               "asynchronous KeyboardInterrupt inside the loop body itself (between popleft and send) is outside the model",
               "auxiliaries / conditional auxiliaries of the aborted framers (exitAll of auxes) belong to the E-flo engine"]
    TECHNIQUE = ("Lean 4 theorems on the generic scheduler model (stop condition = status of the scheduled taskers; sweep = one ABORT per "
                 "remaining entry; outcome by ending) and on the concrete framer environment (exitAll exits the entered frames bottom-up; "
                 "entered-frame bookkeeping invariant), + differential correspondence over every crash point of generated programs")
    LEVEL_TEXT = ("Proof on the model. Generic scheduler (any time type, any tasker environment, so every crash point): "
                  "C03_more_iff_live, C03_tick_ending, C03_stops_first_idle_tick (the loop goes on exactly while a scheduled tasker is "
                  "started or running; all ways a pass can end), C03_sweep_events (one ABORT per remaining entry, in deque order, up to "
                  "a raising handler), C03_aborted_not_swept, C03_outcome (KeyboardInterrupt returns, every other exception leaves run "
                  "after the sweep), C03_loop_exception_is_from_send are full; C03_sweep_aborts_each_once_partial is partial (region "
                  "sweepRaised = a non-Exception BaseException in the sweep) with C03_counterexample_sweep_crash for known finding D03b; "
                  "C03_sweep_survives_exceptions is full (fix D03a), C03_old_sweep_stopped_at_exception documents the code before it. Concrete framers: C03_loopEnv_faithful, "
                  "C03_abort_exits_bottom_up, C03_stop_exits_bottom_up, C03_entered_empty_at_return, C03_start_enters_first_outline, "
                  "C03_exits_bottom_up_every_visit (in every reached state the entered frames are none or the outline of a frame of the "
                  "program, so exits are bottom-up on every visit, not only the first) are full.")
    LEVEL_NOTE = ("Trusted: Lean kernel; axioms propext, Classical.choice, Quot.sound; the hand transcription of skedding.py and of the "
                  "framer/frames subset validated by the correspondence over every crash point; the crash-injection doubles.")

    # ------------------------------------------------------------------ generation
    def gen_acts(self, rng, me, workers, ctx):
        acts = []
        for _ in range(rng.choice([0, 0, 1, 1, 2])):
            r = rng.random()
            if r < 0.45:
                acts.append("s")
            elif r < 0.55 and ctx == "re":
                acts.append("r")
            else:
                ctl = rng.choice([0, 0, 3, 3, 1, 2, 4])
                if ctx == "ex" and ctl in (1, 2, 4):
                    ctl = rng.choice([0, 3])
                tg = "me" if rng.random() < 0.35 or not workers else sorted(set(rng.choice(workers) for _ in range(rng.choice([1, 1, 2]))))
                acts.append(["b", ctl, tg])
        return acts

    def gen_program(self, rng):
        nw = rng.choice([1, 2, 2, 3])
        workers = list(range(nw))
        framers = []
        for i in workers:
            nf = rng.choice([1, 2, 3, 3, 4])
            frames = []
            for j in range(nf):
                over = None if j == 0 or rng.random() < 0.35 else rng.randrange(j)
                fr = {"over": over, "en": ["r"] + self.gen_acts(rng, i, workers, "en"), "re": self.gen_acts(rng, i, workers, "re"),
                      "ex": ["r"] + self.gen_acts(rng, i, workers, "ex"), "tr": []}
                if nf > 1 and rng.random() < 0.7:
                    for _ in range(rng.choice([1, 1, 2])):
                        target = rng.randrange(nf) if rng.random() < 0.15 else rng.choice([k for k in range(nf) if k != j])
                        fr["tr"].append([rng.randint(1, 3), target])
                frames.append(fr)
            if nf >= 3 and rng.random() < 0.5:
                # a round trip: a top-level frame with an under frame is left for another top-level frame and
                # re-entered later (every visit must enter top-down and exit bottom-up)
                frames[0]["over"], frames[1]["over"], frames[2]["over"] = None, 0, None
                frames[1]["tr"] = [[rng.randint(1, 2), 2]]
                frames[2]["tr"] = [[rng.randint(1, 2), rng.choice([0, 1])]]
            framers.append({"sched": "active" if rng.random() < 0.8 else "inactive", "order": rng.choice(["front", "mid", "mid", "back"]),
                            "period": str(Fraction(rng.choice([0, 0, 0, 1, 2, 5, 7]), 8)), "first": rng.randrange(nf), "frames": frames})
        K = rng.randint(1, 5)
        framers.append({"sched": "active", "order": "back", "period": "0", "first": 0, "frames": [
            {"over": None, "en": ["r"], "re": [], "ex": ["r"], "tr": [[K, 1]]},
            {"over": None, "en": ["r"], "re": [["b", 0, workers]], "ex": ["r"], "tr": [[3, 2]]},
            {"over": None, "en": ["r", ["b", 0, "me"]], "re": [], "ex": ["r"], "tr": []}]})
        return {"P": "1/8", "stamp": "0/1", "framers": framers, "crash": None, "bcrash": None}

    def crash_points(self, base, tier, salt):
        """the program without a crash, then one case per crash point"""
        yield base
        out = ld.run_case(base)
        try:
            count = int([l for l in out if l.startswith("count")][0].split()[1])
            ticks = int([l for l in out if l.startswith("ticks")][0].split()[1])
        except Exception:
            return
        for k in range(1, count + 1):
            kinds = [KINDS[(k + salt) % len(KINDS)]]
            if tier == "thorough":
                kinds.append(KINDS[(k + salt + 1) % len(KINDS)])
            for kind, name in kinds:
                c = copy.deepcopy(base)
                c["crash"] = [k, kind, name]
                yield c
        for t in range(ticks):
            kind, name = KINDS[(t + salt) % 2]
            c = copy.deepcopy(base)
            c["bcrash"] = [t, kind, name]
            yield c
            # … and a second exception in one of the last actions of that run: these are the exit actions that the
            # abort sweep triggers in the framers that were still running
            out2 = ld.run_case(c)
            try:
                total = int([l for l in out2 if l.startswith("count")][0].split()[1])
            except Exception:
                continue
            for k in range(max(1, total - (5 if tier == "thorough" else 2)), total + 1):
                c2 = copy.deepcopy(c)
                kind2, name2 = KINDS[(k + t + salt) % len(KINDS)]
                c2["crash"] = [k, kind2, name2]
                yield c2

    _programs = 0
    _points = 0

    def generate(self, rng, n, tier):
        for _ in range(n):
            base = self.gen_program(rng)
            self._programs += 1
            for c in self.crash_points(base, tier, rng.randrange(5)):
                if c.get("crash") or c.get("bcrash"):
                    self._points += 1
                yield c

    def extra_evidence(self):
        return {"programs": self._programs, "crash_points_run": self._points,
                "explanation": "every generated program is run at each of its crash points (k-th executed action, each pass "
                               "boundary, and the last actions of each boundary-interrupted run, i.e. inside the abort sweep)"}

    # ------------------------------------------------------------------ the two sides
    def impl(self, case):
        return ld.run_case(case)

    def requests(self, case):
        return [ld.request(case)]

    _region = {}

    def model_post(self, case, replies):
        reply = replies[0]
        if " | " in reply:
            self._region[core.case_key(case)] = self._base_in_sweep(reply)
        return ld.parse_reply(reply)

    # ------------------------------------------------------------------ oracle
    def oracle(self, case, out):
        if not out or out[0].startswith("HARNESS-EXC") or out[0].startswith("build"):
            return "no run: %s" % out[:1]
        if out[0] == "fuel":
            return None
        try:
            evs = []
            for l in out:
                if l.startswith("E "):
                    ph, tick, tid, ctl, stamp, res, per = l.split()[1:]
                    evs.append((ph, int(tick), int(tid), int(ctl), res))
            N = int([l for l in out if l.startswith("ticks")][0].split()[1])
        except Exception as ex:
            return "unreadable trace %r" % (ex,)
        declared = ld.taskables(case)
        loop = [e for e in evs if e[0] == "L"]
        sweep = [e for e in evs if e[0] == "F"]
        if evs[len(loop):] != sweep:
            return "a main-loop send follows a send of the abort sweep"
        # ---- statuses pass by pass
        status = {i: 0 for i in declared}
        gone = set()
        loop_exc = None
        live_after = {}
        ready_after = {}
        for n in range(N + 1):
            for ph, tick, tid, ctl, res in [e for e in loop if e[1] == n]:
                if tid in gone:
                    return "tasker %d was run in pass %d after it ended" % (tid, n)
                if res.startswith("y"):
                    status[tid] = int(res[1:])
                    if status[tid] == 3:
                        gone.add(tid)
                else:
                    gone.add(tid)
                    status[tid] = 3
                    if res.startswith("raise:") and loop_exc is None:
                        loop_exc = res[6:]
            ready = [i for i in declared if i not in gone]
            ready_after[n] = ready
            live_after[n] = any(status[i] in (1, 2) for i in ready)
        if [e for e in loop if e[1] > N]:
            return "sends in a pass beyond the pass counter"
        bc = case.get("bcrash")
        boundary_exc = None
        if bc is not None and N >= bc[0] + 1:
            if N != bc[0] + 1:
                return "the loop went on after the exception delivered at the boundary of pass %d" % bc[0]
            boundary_exc = {"k": "KeyboardInterrupt", "s": "SystemExit", "b": "FakeBase"}.get(bc[1], bc[2])
        # ---- the loop goes on exactly while somebody is started or running
        last_full = N - 1
        for n in range(N):
            if not (live_after[n] and ready_after[n]):
                return "pass %d left no scheduled tasker started or running, yet the loop went on" % n
        if loop_exc is None and boundary_exc is None:
            if live_after[N] and ready_after[N]:
                return "the loop ended after pass %d although tasker(s) were still started or running" % N
        # ---- the sweep: an Exception raised by a handler does not stop it; KeyboardInterrupt / SystemExit / a bare
        # BaseException does
        BASE = ("KeyboardInterrupt", "SystemExit", "FakeBase")
        remaining = ready_after[N]
        swept = [e[2] for e in sweep]
        sweep_exc, sweep_base = None, None
        for ph, tick, tid, ctl, res in sweep:
            if ctl != 3:
                return "the abort sweep sent control %d to tasker %d" % (ctl, tid)
            if sweep_base is not None:
                return "the abort sweep went on after %s" % sweep_base
            if res.startswith("raise:"):
                if res[6:] in BASE:
                    sweep_base = res[6:]
                elif sweep_exc is None:
                    sweep_exc = res[6:]
        if len(set(swept)) != len(swept):
            return "the abort sweep sent two aborts to one tasker"
        for t in swept:
            if t not in remaining:
                return "the abort sweep reached tasker %d which was no longer scheduled" % t
        missing = [t for t in remaining if t not in swept]
        if missing:
            return "tasker(s) %s were still scheduled when the run ended but were never sent an abort" % missing
        # ---- what leaves run()
        want = "returned"
        first = sweep_base or sweep_exc or (loop_exc if loop_exc != "KeyboardInterrupt" else None) or \
            (boundary_exc if boundary_exc != "KeyboardInterrupt" else None)
        if first:
            want = "raised " + first
        if out[0] != want:
            return "run() ended with `%s`, expected `%s`" % (out[0], want)
        # ---- enter / exit bracketing of every framer that was told to stop or abort
        stack = {i: [] for i in range(len(case["framers"]))}
        cur = None
        dead = set()
        for l in out:
            if not l.startswith("T "):
                continue
            t = l.split()[1:]
            if t[0] == "r":
                cur = (int(t[2]), int(t[3]))
            elif t[0] == "m":
                i, f, ctx = t[1].split(".")
                i, f = int(i), int(f)
                if i in dead:
                    continue
                if ctx == "e":
                    # frames are entered top-down: the frame above must be the innermost entered one
                    over = case["framers"][i]["frames"][f].get("over")
                    if (stack[i][-1:] or [None])[0] != over and not (over is None and not stack[i]):
                        return "framer %d enters frame %d (over %s) while its innermost entered frame is %s" % (
                            i, f, over, stack[i][-1:] or None)
                    stack[i].append(f)
                elif ctx == "x":
                    if not stack[i] or stack[i][-1] != f:
                        return "framer %d exits frame %d but its innermost entered frame is %s" % (i, f, stack[i][-1:] or None)
                    stack[i].pop()
                elif f not in stack[i]:
                    return "framer %d recurs frame %d which is not entered" % (i, f)
            elif t[0] == "e":
                i, res = int(t[1]), t[2]
                if not res.startswith("y"):
                    dead.add(i)
                elif cur and cur[0] == i and cur[1] in (0, 3) and stack[i]:
                    return "framer %d was sent %s and yielded status %s with frames %s still entered" % (
                        i, "ABORT" if cur[1] == 3 else "STOP", res[1:], stack[i])
                cur = None
        return None

    # ------------------------------------------------------------------ bookkeeping
    def nontrivial(self, case, out):
        try:
            ticks = int([l for l in out if l.startswith("ticks")][0].split()[1])
        except Exception:
            return False
        fired = any(("raise:" in l) for l in out if l.startswith("E ")) or (
            case.get("bcrash") is not None and ticks == case["bcrash"][0] + 1)
        exits = sum(1 for l in out if l.startswith("T m ") and l.endswith(".x"))
        return fired or (ticks >= 3 and exits >= 2)

    def bucket(self, case, out):
        kind = "nocrash"
        if case.get("crash"):
            kind = "action:" + case["crash"][2]
        elif case.get("bcrash"):
            kind = "boundary:" + case["bcrash"][2]
        where = "-"
        for l in out:
            if l.startswith("E ") and "raise:" in l:
                where = "loop" if l.split()[1] == "L" else "sweep"
                break
        return "%s/%s/%s" % (kind, where, out[0].split()[0] if out else "?")

    @staticmethod
    def _base_in_sweep(reply):
        for e in reply.split(" | ")[1].split(";"):
            if e.startswith("F ") and "raise:" in e:
                name = e.split("raise:")[1].split()[0]
                if name in ("KeyboardInterrupt", "SystemExit", "FakeBase"):
                    return True
        return False

    def region(self, finding, case):
        """D03b: `Ioflo.Sked.sweepRaised` — a send of the abort sweep raised a BaseException that is not an Exception
        (evaluated on the model's run)"""
        if finding.get("id") != "D03b":
            return False
        k = core.case_key(case)
        if k in self._region:
            return self._region[k]
        reply = core.Driver(self.ENGINE).run([ld.request(case)])[0]
        if " | " not in reply:
            return False
        return self._base_in_sweep(reply)

    def shrink_candidates(self, case):
        n = len(case["framers"])
        for i in range(n - 1):
            f = case["framers"][i]
            for j, fr in enumerate(f["frames"]):
                for key in ("re", "tr"):
                    for k in range(len(fr.get(key, []))):
                        c = copy.deepcopy(case)
                        del c["framers"][i]["frames"][j][key][k]
                        yield c
                for key in ("en", "ex"):
                    for k in range(1, len(fr.get(key, []))):
                        c = copy.deepcopy(case)
                        del c["framers"][i]["frames"][j][key][k]
                        yield c
        if case.get("crash") and case["crash"][0] > 1:
            c = copy.deepcopy(case)
            c["crash"][0] -= 1
            yield c
