"""C04 — bids and fiats change a tasker's state at its next run, last bid wins.
Model: lean/IofloModel/Model/Bids.lean (Framer.makeRunner table, Want*/Fiat* actions, flat frames) on top of
Model/Sked.lean (Skedder.run). Theorems: lean/IofloModel/Props/C04.lean.
Tie: generated FloScript programs (active / inactive / slave framers, bids of every kind with `at period`,
fiats in every context, entry guards) built by the real Builder and run by the real Skedder, against the model:
every scheduler send, every write to `desire`, every bid target, every fiat result, every checkStart result.
Oracle (independent of the model): the control received is the last value written to the target's desire; the
abort sweep sends ABORT; slaves are never sent to by the scheduler and change status only in fiats; a fiat returns
`status == requested`; a start/ready whose checkStart fails leaves STOPPED with desire STOP; every status yielded
follows the documented control x status table."""
import copy
from fractions import Fraction
import core
from props import bids_doubles as bd

EXPECTED = {0: 0, 1: 1, 2: 2, 3: 3, 4: 4}    # control -> status a fiat asks for (same integers)


def doc_table(c, st, chk):
    """documented control x status table of a framer: status after the run.
    chk: result of checkStart if it was consulted (None otherwise)"""
    if c not in (0, 1, 2, 4):        # abort or anything else
        return 3
    if st == 3:
        return 3
    live, idle = st in (1, 2), st in (0, 4)
    if c == 2:
        return 2 if live else st
    if c == 4:
        return (4 if chk else 0) if idle else st
    if c == 1:
        return (1 if chk else 0) if idle else st
    if c == 0:
        return 0 if live else st
    return 3


class CHECK(core.Check):
    PROPERTY = "C04"
    LEAN_MODULES = ["IofloModel.Props.C04"]
    ENGINE = "bids"
    N_QUICK = 250
    N_THOROUGH = 6000
    N_SEARCH = 400
    RULE = ("FloScript programs: 1-4 worker framers (active/inactive, front/mid/back, periods 0..3P) with 1-4 frames in a forest (`frame x in y`: nested outlines, a recorder deed first in every enter and exit context), 0-3 slave "
            "framers whose frames may fiat slaves declared after them (nested fiats, any depth), a supervisor that stops everything after a while; frames carry entry guards (flag needs, fiats in benter), "
            "bids of all five kinds to me/named/all with and without `at period`, fiats of all five kinds in benter/enter/recur/exit, "
            "flag puts, transitions on recurred/flag. Bounded-exhaustive: the 6 x 5 x 2 control x status x checkStart table on a real "
            "framer. non-trivial = at least one bid delivered or one fiat executed and at least 3 passes; distinct by case content")
    TRUSTED = ["correspondence: real Builder (FloScript text), Skedder.run, Framer.makeRunner, frames, Want*/Fiat* actors run in-process; "
               "observation by harness/props/bids_doubles.py: proxy around framer.runner, a `desire` property on a per-run Framer "
               "subclass, wrappers around Want*/Fiat*.action and framer.checkStart, caller-frame phase probe",
               "frames form outlines (over/under) without auxiliaries or clones; slaves fiat their own slaves to any depth (a slave fiats only "
               "slaves declared after it, so no generator is resumed while it is executing); "
               "the frame engine proper belongs to the E-flo engine",
               "exact time only (dyadic periods); the model of Skedder.run is the one of C02 (as repaired by fix patch D02a)"]
    PARTIAL = ["auxiliaries, conditional auxiliaries, clones, `done`, elapsed needs: not in this model (E-flo engine)",
               "a fiat on a framer whose generator is executing (a cycle of masters and slaves; ValueError in Python) is outside the "
               "model (driver answers `unsupported`)",
               "non-framer taskers (Tasker, Server, Logger tables) are covered only as far as C02 models the base Tasker"]
    TECHNIQUE = ("Lean 4 theorems (finite table by decide; frame conditions of every hook by induction over action lists; trace invariants "
                 "lifted through the scheduler model by a generic step-invariant theorem) + differential correspondence on generated FloScript")
    LEVEL_TEXT = ("Full proof on the model: C04_runner_table (status after any run = documented 6x5x2 table, for every program), "
                  "C04_runner_table_total, C04_fiat_reports_truth and C04_fiat_tree_sound (at every depth of the master/slave tree, by induction "
                  "over the depth: truthful fiat entries, statuses change only through logged fiats, desire = last write), "
                  "C04_stop_abort_exit_outline, C04_start_enters_outline, C04_exit_order (a start / stop / abort by bid or fiat enters resp. "
                  "exits the whole outline of nested frames, bottom-up on the way out), C04_lower_frame_bids_last_every_visit (in every reached "
                  "state the entered frames of every framer are none or an outline of its unchanged program; the lower frame's bid is issued "
                  "after the upper frame's and wins, on every visit), C04_failed_start_leaves_stopped, C04_control_is_last_bid (every main-loop "
                  "send carries the last value written to the target's desire; abort sweep sends ABORT), C04_slaves_only_by_fiat "
                  "(scheduler never sends to a slave; a slave's status changes only inside a fiat on it), C04_bid_writes.")
    LEVEL_NOTE = ("Trusted: Lean kernel; axioms propext, Classical.choice, Quot.sound; hand transcription of framing.Framer.makeRunner, "
                  "wanting.py, fiating.py validated by the correspondence runs; frame outlines without auxiliaries/clones; observation doubles.")

    # ------------------------------------------------------------------ generation
    def gen_acts(self, rng, me, workers, slaves, ctx, in_slave):
        acts = []
        for _ in range(rng.choice([0, 0, 1, 1, 2])):
            r = rng.random()
            if in_slave and [x for x in slaves if x > me] and r < 0.35:
                r = 0.7           # a slave with slaves of its own fiats them more often
            if r < 0.55:
                ctl = rng.choice([0, 1, 2, 3, 4, 1, 2, 0])
                if ctx == "ex" and ctl in (1, 2, 4):
                    ctl = rng.choice([0, 3])
                if in_slave:
                    tg = sorted(set(rng.choice(workers) for _ in range(rng.choice([1, 1, 2])))) if workers else None
                    if tg is None:
                        continue
                else:
                    k = rng.random()
                    if k < 0.3:
                        tg = "me"
                    else:
                        tg = sorted(set(rng.choice(workers) for _ in range(rng.choice([1, 1, 2]))))
                p = None
                if ctl in (1, 2, 4) and rng.random() < 0.4:
                    p = str(Fraction(rng.choice([0, 1, 2, 3, -1]), 8))
                elif ctl in (0, 3) and rng.random() < 0.1:
                    p = str(Fraction(rng.choice([1, 2]), 8))
                acts.append(["b", ctl, p, tg])
            elif r < 0.8 and [x for x in slaves if not in_slave or x > me]:
                # a slave fiats only slaves declared after it: the master/slave relation stays a DAG
                acts.append(["f", rng.choice([0, 1, 2, 3, 4, 1, 2, 4]), rng.choice([x for x in slaves if not in_slave or x > me])])
            else:
                acts.append(["p", rng.randrange(3), rng.choice([0, 1])])
        return acts

    def gen_frames(self, rng, me, workers, slaves, in_slave):
        nf = rng.choice([1, 2, 2, 3, 3, 4])
        frames = []
        for j in range(nf):
            fr = {"over": None if j == 0 or rng.random() < 0.45 else rng.randrange(j),
                  "be": [], "en": [], "re": [], "ex": [], "pre": []}
            if rng.random() < 0.25:
                fr["be"].append(["c", ["F", rng.randrange(3), rng.choice([0, 1])]])
            below = [x for x in slaves if not in_slave or x > me]
            if below and rng.random() < 0.15:
                fr["be"].append(["f", rng.choice([4, 4, 1, 0]), rng.choice(below)])
            for key in ("en", "re", "ex"):
                fr[key] = self.gen_acts(rng, me, workers, slaves, key, in_slave)
            if nf > 1:
                for _ in range(rng.choice([1, 1, 2])):
                    target = rng.choice([k for k in range(nf) if k != j])
                    cond = rng.choice([["R", rng.randint(1, 3)], ["R", rng.randint(1, 4)], ["F", rng.randrange(3), rng.choice([0, 1])], ["A"]])
                    fr["pre"].append([[cond], target])
            frames.append(fr)
        return frames

    def gen_case(self, rng):
        nw = rng.choice([1, 2, 2, 3, 3, 4])
        ns = rng.choice([0, 1, 1, 2, 2, 3])
        kinds = ["w"] * nw + ["s"] * ns
        rng.shuffle(kinds)
        kinds.append("sup")
        workers = [i for i, k in enumerate(kinds) if k == "w"]
        slaves = [i for i, k in enumerate(kinds) if k == "s"]
        framers = []
        for i, k in enumerate(kinds):
            per = str(Fraction(rng.choice([0, 0, 0, 1, 2, 3]), 8))
            if k == "w":
                framers.append({"sched": "active" if rng.random() < 0.7 else "inactive",
                                "order": rng.choice(["front", "mid", "mid", "back"]), "period": per,
                                "frames": self.gen_frames(rng, i, workers, slaves, False)})
            elif k == "s":
                framers.append({"sched": "slave", "period": "0", "frames": self.gen_frames(rng, i, workers, slaves, True)})
            else:
                K = rng.randint(2, 9)
                framers.append({"sched": "active", "order": "back", "period": "0", "frames": [
                    {"pre": [[[["R", K]], 1]]},
                    {"re": [["b", 0, None, workers]], "pre": [[[["R", 4]], 2]]},
                    {"en": [["b", 0, None, "me"]]}]})
        if len(workers) >= 2 and rng.random() < 0.3:
            # `bid stop X` in the one pass in which X is STARTED: Y starts X and stops it one pass later, before
            # (Y in front) or after (Y in back) X has run for the first time
            y, x = rng.sample(workers, 2)
            framers[x]["sched"], framers[x]["period"] = "inactive", "0"
            framers[y]["sched"], framers[y]["period"] = "active", "0"
            framers[y]["order"] = rng.choice(["front", "back"])
            framers[x]["order"] = "mid"
            framers[y]["frames"] = [{"over": None, "be": [], "en": [["b", 1, None, [x]]], "re": [], "ex": [], "pre": [[[["R", 1]], 1]]},
                                    {"over": None, "be": [], "en": [["b", 0, None, [x]]], "re": [], "ex": [], "pre": []}]
        return {"P": "1/8", "stamp": rng.choice(["0/1", "0/1", "1/2"]), "framers": framers}

    def generate(self, rng, n, tier):
        for _ in range(n):
            yield self.gen_case(rng)

    def exhaustive(self, tier):
        for c in range(6):
            for st in range(5):
                for chk in (0, 1):
                    yield {"kind": "table", "c": c, "st": st, "chk": chk}

    # ------------------------------------------------------------------ the two sides
    def impl(self, case):
        if case.get("kind") == "table":
            return self.impl_table(case)
        return bd.run_case(case)

    def impl_table(self, case):
        """drive one real slave framer into status `st`, set its entry guard to `chk`, send `c`"""
        core.import_ioflo()
        import os, shutil
        from ioflo.base import skedding, housing, framing
        d = os.path.join(core.SCRATCH, "c04t-%d" % os.getpid())
        os.makedirs(d, exist_ok=True)
        fn = os.path.join(d, "t.flo")
        with open(fn, "w") as f:
            f.write("house h\n  init .flag.k0 with value 1\n  framer f0 be slave first s0\n    frame s0\n      let me if .flag.k0 == 1\n")
        try:
            housing.ClearRegistries(); housing.House.Clear()
            sk = skedding.Skedder(name="sk", period=0.125, real=False, filepath=fn)
            if not sk.build():
                return ["build-failed"]
            fr = sk.houses[0].taskers[0]
            fr.store.changeStamp(0.0)
            route = {0: [], 4: [4], 1: [1], 2: [1, 2], 3: [3]}[case["st"]]
            for c in route:
                fr.runner.send(c)
            if fr.status != case["st"]:
                return ["could-not-reach-status %d" % fr.status]
            fr.store.fetch(".flag.k0").update(value=case["chk"])
            writes = []

            class Spy(framing.Framer):
                def _get(self):
                    return self.__dict__["_desire"]

                def _set(self, v):
                    self.__dict__["_desire"] = v
                    writes.append(v)
                desire = property(_get, _set)
            v = fr.__dict__.pop("desire")
            fr.__class__ = Spy
            fr.__dict__["_desire"] = v
            st = fr.runner.send(case["c"] if case["c"] < 5 else 99)
            return ["%d %s" % (st, writes[-1] if writes else "-")]
        finally:
            shutil.rmtree(d, ignore_errors=True)

    def requests(self, case):
        if case.get("kind") == "table":
            return ["table %d %d %d" % (case["c"], case["st"], case["chk"])]
        return [bd.request(case)]

    def model_post(self, case, replies):
        if case.get("kind") == "table":
            return replies
        return bd.parse_reply(replies[0])

    # ------------------------------------------------------------------ oracle
    def oracle(self, case, out):
        if not out or out[0].startswith("HARNESS-EXC") or out[0].startswith("build"):
            return "no run: %s" % out[:1]
        if case.get("kind") == "table":
            st = int(out[0].split()[0])
            consulted = case["c"] in (1, 4) and case["st"] in (0, 4)
            want = doc_table(case["c"], case["st"], bool(case["chk"]) if consulted else None)
            if st != want:
                return "control %d in status %d (checkStart %s): status %d, documented table says %d" % (
                    case["c"], case["st"], case["chk"], st, want)
            if consulted and not case["chk"] and out[0].split()[1] != "0":
                return "failed start/ready did not leave desire STOP"
            return None
        if out[0] not in ("returned", "fuel"):
            return "run did not return normally: %s" % out[0]
        slaves = set(i for i, f in enumerate(case["framers"]) if f["sched"] == "slave")
        n = len(case["framers"])
        last_write = {}
        status = {i: 0 for i in range(n)}
        prev_write = None
        entered = {i: [] for i in range(n)}
        cur = None            # scheduler send in progress: [id, control, status before, check result]
        pending_check = {}    # framer -> last checkStart result not yet consumed by a send's end
        for l in out:
            if not l.startswith("T "):
                continue
            t = l.split()[1:]
            kind = t[0]
            if kind == "m":
                # frames are entered top-down and exited innermost first
                i, f = int(t[1]), int(t[2])
                if t[3] == "e":
                    over = case["framers"][i]["frames"][f].get("over")
                    if (entered[i][-1:] or [None])[0] != over and not (over is None and not entered[i]):
                        return "framer %d enters frame %d (over %s) while its innermost entered frame is %s" % (
                            i, f, over, entered[i][-1:] or None)
                    entered[i].append(f)
                else:
                    if not entered[i] or entered[i][-1] != f:
                        return "framer %d exits frame %d but its innermost entered frame is %s" % (i, f, entered[i][-1:] or None)
                    entered[i].pop()
            elif kind == "w":
                last_write[int(t[1])] = int(t[2])
                prev_write = (int(t[1]), int(t[2]))
            elif kind == "b":
                # a bid of control c assigns c to the target's desire
                if prev_write != (int(t[2]), int(t[3])):
                    return "framer %s bid control %s on framer %s but %s was written to its desire" % (
                        t[1], t[3], t[2], prev_write[1] if prev_write and prev_write[0] == int(t[2]) else "nothing")
            elif kind == "r":
                ph, i, c = t[1], int(t[2]), int(t[3])
                if i in slaves:
                    return "the scheduler sent control %d to slave framer %d" % (c, i)
                if ph == "L":
                    if i not in last_write:
                        return "framer %d was run before any desire was set" % i
                    if last_write[i] != c:
                        return "framer %d received control %d but the last value written to its desire was %d" % (i, c, last_write[i])
                elif c != 3:
                    return "abort sweep sent control %d to framer %d" % (c, i)
                cur = [i, c, status[i]]
                pending_check.pop(i, None)
            elif kind == "k":
                pending_check[int(t[1])] = int(t[2])
            elif kind == "y":
                i, st = int(t[1]), int(t[2])
                if cur is None or cur[0] != i:
                    return "status yielded by framer %d without a send" % i
                why = self._table_rule(i, cur[1], cur[2], st, pending_check.pop(i, None), last_write)
                if why:
                    return why
                status[i] = st
                if st in (0, 3) and entered[i]:
                    return "framer %d yielded status %d with frames %s still entered" % (i, st, entered[i])
                cur = None
            elif kind == "f":
                by, sl, c, st, ret = int(t[1]), int(t[2]), int(t[3]), int(t[4]), int(t[5])
                if sl not in slaves:
                    return "fiat on non-slave framer %d" % sl
                if bool(ret) != (st == EXPECTED[c]):
                    return "fiat %d on slave %d yielded status %d but returned %s" % (c, sl, st, bool(ret))
                why = self._table_rule(sl, c, status[sl], st, pending_check.pop(sl, None), last_write)
                if why:
                    return why
                status[sl] = st
                if st in (0, 3) and entered[sl]:
                    return "slave %d is left in status %d by a fiat with frames %s still entered" % (sl, st, entered[sl])
        # a bid is delivered at the target's next due pass: a scheduled framer of period 0 is run in every pass
        # until it is aborted
        try:
            ticks = int([l for l in out if l.startswith("ticks")][0].split()[1])
        except Exception:
            ticks = -1
        evs = [l.split() for l in out if l.startswith("E L ")]
        for i in bd.taskables(case):
            mine = [e for e in evs if int(e[3]) == i]
            if Fraction(case["framers"][i]["period"]) != 0 or any(e[7] != "0/1" for e in mine):
                continue
            passes = [int(e[2]) for e in mine]
            end = ticks
            for e in mine:
                if e[6] == "y3":
                    end = int(e[2])
                    break
            want = list(range(0, end + 1)) if out[0] != "fuel" else list(range(0, min(end + 1, ticks)))
            if passes[:len(want)] != want:
                missing = [n_ for n_ in want if n_ not in passes][:1]
                return "framer %d (period 0) was due in pass %s but was not run" % (i, missing[0] if missing else "?")
        if out[0] == "fuel":
            return None       # cut by the pass budget: nothing more to say (the model must say `fuel` too)
        # final statuses: nothing changed a status outside a send / a fiat
        fin = [l for l in out if l.startswith("final")][0].split()[1:]
        for i in range(n):
            st = int(fin[i].split(":")[0])
            if st != status[i]:
                return "framer %d ends in status %d but its last run / fiat yielded %d" % (i, st, status[i])
        return None

    def _table_rule(self, i, c, before, after, chk, last_write):
        consulted = c in (1, 4) and before in (0, 4)
        if consulted and chk is None:
            return "framer %d: start/ready in status %d without a checkStart" % (i, before)
        want = doc_table(c, before, bool(chk) if consulted else None)
        if after != want:
            return "framer %d: control %d in status %d%s gave status %d, documented table says %d" % (
                i, c, before, "" if not consulted else " (checkStart %d)" % chk, after, want)
        if consulted and not chk and last_write.get(i) != 0:
            return "framer %d: failed start/ready left desire %s, not STOP" % (i, last_write.get(i))
        return None

    # ------------------------------------------------------------------ bookkeeping
    def nontrivial(self, case, out):
        if case.get("kind") == "table":
            return True
        try:
            ticks = int([l for l in out if l.startswith("ticks")][0].split()[1])
        except Exception:
            return False
        sup = len(case["framers"]) - 1
        worker_bid = any(l.startswith("T b ") and int(l.split()[2]) != sup for l in out)
        return ticks >= 3 and (worker_bid or any(l.startswith("T f ") for l in out))

    def bucket(self, case, out):
        if case.get("kind") == "table":
            return "table"
        tags = []
        if any(l.startswith("T f ") for l in out):
            slaves = set(i for i, f in enumerate(case["framers"]) if f["sched"] == "slave")
            nested = any(l.startswith("T f ") and int(l.split()[2]) in slaves for l in out)
            tags.append("nestedfiat" if nested else "fiat")
        if any(l.startswith("T k ") and l.endswith(" 0") for l in out):
            tags.append("failedstart")
        if any(l.startswith("T b ") and not l.endswith(" -") for l in out):
            tags.append("periodbid")
        return "+".join(tags) or "bids-only"

    def shrink_candidates(self, case):
        if case.get("kind") == "table":
            return
        for i, f in enumerate(case["framers"]):
            for j, fr in enumerate(f["frames"]):
                for key in ("be", "en", "re", "ex", "pre"):
                    for k in range(len(fr.get(key, []))):
                        if f is case["framers"][-1]:
                            continue          # keep the supervisor: without it the program does not end
                        c = copy.deepcopy(case)
                        del c["framers"][i]["frames"][j][key][k]
                        yield c
        for i, f in enumerate(case["framers"]):
            if Fraction(f["period"]) != 0:
                c = copy.deepcopy(case)
                c["framers"][i]["period"] = "0"
                yield c
