"""C05 — a running framer's active frames are exactly its active frame's outline.

Model     lean/IofloModel/Model/Flo.lean (+ Outline.lean), engine `flo`.
Theorems  lean/IofloModel/Props/C05.lean: the invariant FInv (actives = outline(active); = head(main) while a
          conditional auxiliary of the framer runs; [] when not started/running) is carried through every
          operation of every auxiliary level (Lemmas/Flo.lean) and every run (`C05_reachable_partial`) under the
          decidable hypothesis "no ghost flag raised"; `C05_counterexample_D3` shows the full statement false.
Tie       generated FloScript programs run by the real Builder/Skedder; compared after every tick: status,
          active frame, active frames, done of every framer (floeng.py).
Oracle    independent of the model: outlines/heads recomputed from the program's `in`/`under` declarations,
          then the invariant is checked on the implementation's own snapshots.
"""
import json
import core, floeng, floref
from props.c07 import FloCheck


def static_structure(prog):
    """outline / head of every frame and the conditional-aux clauses, from the declarations (harness code)"""
    m = floref.Machine(prog)
    outline, head, owner, cond = {}, {}, {}, []
    for F in m.framers:
        for f in F.frames:
            outline[f.gid] = [x.gid for x in f.outline]
            head[f.gid] = [x.gid for x in f.head]
            owner[f.gid] = F.idx
            for aux in f.condauxes:
                if aux not in f.auxes:          # (an aux that is also a plain aux of the frame runs as a plain one)
                    cond.append((f.gid, aux.idx))
    return outline, head, owner, cond


class CHECK(FloCheck):
    PROPERTY = "C05"
    LEAN_MODULES = ["IofloModel.Props.C05"]
    WANT = ("S", "Z")
    SHARE = 0.08
    N_QUICK = 350
    N_THOROUGH = 12000
    N_SEARCH = 600
    RULE = ("generated FloScript programs (floeng.gen_susp: frame chains 2-4 deep with siblings and primary-under "
            "overrides, conditional auxes at several depths incl. two per frame and nested ones, transitions to self / "
            "ancestor / descendant / other subtree, stop/abort/start bids at chosen ticks; floeng.gen_program: random "
            "mixed programs), 4-14 ticks each; compared per tick and per framer: status, active, actives, done. "
            "Non-trivial = a transition is taken, an auxiliary entered or a running framer stopped; distinct by program. In 40 % of the framers the frames are declared in an order independent of the hierarchy (random or exactly reversed: children before parents, forward `in`/`under`/`go`/`first` references).")
    TRUSTED = ["correspondence: real Builder + Skedder on generated FloScript vs the Lean interpreter (engine 'flo'), "
               "end-of-tick snapshots taken when Skedder.run evaluates `if not ready`",
               "oracle recomputes outline/head from the declared `in`/`under` links (harness code floref.Machine.link)",
               "well-formedness `WF` of a program (acyclic auxiliary references, one clause per auxiliary, `done me` only, "
               "outlines from a forest) is a hypothesis of the theorems; the generator keeps auxiliary references acyclic "
               "but does share auxiliaries between clauses — those runs are covered by the correspondence and the oracle "
               "only (they rely on the fix commits D3b, D3d and D3e: a conditional clause for an auxiliary that is also a plain "
               "auxiliary of the same frame does nothing)"]
    PARTIAL = ["C05_step_partial / C05_tick_partial / C05_reachable_partial: hypothesis `bad = false` (no Suspender "
               "truncated while another conditional auxiliary of the same framer was running; no enterAll on a still "
               "active framer); the full statement is refuted by C05_counterexample_D3 (known finding D3)",
               "theorems quantify over well-formed programs (WF); exceptions raised by actions are not modelled"]
    TECHNIQUE = ("Lean 4: inductive invariant over all operations of the framer model, by induction on the auxiliary "
                 "depth and on runs (frame conditions over the auxiliary tree) + differential correspondence")
    LEVEL_TEXT = ("Proved for every well-formed program, every action semantics, every auxiliary depth and every sequence "
                  "of controls: C05_step_partial, C05_tick_partial, C05_reachable_partial (the invariant FInv + status part "
                  "holds at every boundary of a run at which no ghost flag is up), C05_init, C05_actives_outline (the "
                  "property's wording from the invariant). PARTIAL: hypothesis `bad = false`; C05_counterexample_D3 proves "
                  "the unrestricted statement false on a concrete well-formed program (overlapping conditional auxiliaries), "
                  "which is replayed on ioflo as known finding D3.")
    LEVEL_NOTE = ("Trusted: Lean kernel; axioms propext, Classical.choice, Quot.sound; the transcription of framing.py/"
                  "acting.py into Model/Flo.lean, validated by the correspondence (C07 compares full traces, this check "
                  "the per-tick status/active/actives/done); ghost flags overlap/reenter are model instrumentation.")

    def generate(self, rng, n, tier):
        return self.gen_cases(rng, n, mix=(("mixed", 0.25), ("susp", 0.75)))

    # compare what the property speaks about: status, active, actives (and done / main, which decide "running")
    @staticmethod
    def _strip(lines):
        out = []
        for l in lines:
            if l.startswith("ERR"):
                out.append(l)
                continue
            toks = l.split(" ")
            k = 2 if toks[0] == "S" else 1
            recs = [":".join(t.split(":")[:6]) for t in toks[k:]]
            out.append(" ".join(toks[:k] + recs))
        return out

    def impl(self, case):
        return self._strip(floeng.run_impl(case["prog"], self.WANT))

    def model_post(self, case, replies):
        self.note_flags(replies[0])
        return self._strip(floeng.model_lines(replies[0], self.WANT))

    def oracle(self, case, out):
        prog = floeng.expand(case["prog"])      # named clones as explicit non-original auxiliaries
        outline, head, owner, cond = static_structure(prog)
        tk = set(floeng.taskables(prog))
        for line in out:
            if line.startswith("ERR"):
                continue            # build/run errors are not this property's business
            toks = line.split(" ")
            k = 2 if toks[0] == "S" else 1
            where = " ".join(toks[:k])
            st = {}
            for t in toks[k:]:
                i, status, active, actives, done, main = t.split(":")[:6]
                st[int(i)] = (status, None if active == "-" else int(active),
                              [] if actives == "-" else [int(x) for x in actives.split(".")], done == "1",
                              None if main == "-" else int(main))
            for i, (status, active, actives, done, _main) in st.items():
                if i in tk and status not in ("started", "running"):
                    if actives or active is not None:
                        return "%s: framer m%d is %s but has active frames %s" % (where, i, status, actives)
                    continue
                if active is None:
                    if actives:
                        return "%s: framer m%d has no active frame but active frames %s" % (where, i, actives)
                    if i in tk:
                        return "%s: framer m%d is %s without an active frame" % (where, i, status)
                    continue
                running = [(m, x) for (m, x) in cond if owner[m] == i and not st[x][3] and st[x][4] == m]
                if not running:
                    if actives != outline[active]:
                        return "%s: framer m%d active f%d: active frames %s, outline %s, no conditional aux running" % (
                            where, i, active, actives, outline[active])
                else:
                    for (m, x) in running:
                        if actives != head[m]:
                            return ("%s: framer m%d: conditional aux m%d of frame f%d is running, active frames %s, "
                                    "outline cut at f%d is %s" % (where, i, x, m, actives, m, head[m]))
        return None

    def region(self, finding, case):
        reply = core.Driver("flo").run([floeng.encode(case["prog"])])[0]
        flags = [l for l in reply.split("|") if l.startswith("G ")]
        if not flags:
            return False
        want = {"D3": "overlap=1", "D3c": "reenter=1", "D3e": "both=1"}.get(finding.get("id"))
        return want is not None and want in flags[0]
