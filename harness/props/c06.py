"""C06 — frame enter and exit actions are properly bracketed and ordered.

Pure part (engine `outline`): `Framer.ExEn` and the outlines it works on.
  Model: lean/IofloModel/Model/Outline.lean; theorems lean/IofloModel/Props/C06.lean (C06_exen_*).
  Tie: (a) the real staticmethod `Framer.ExEn` on all pairs of small lists and on random pairs;
       (b) frame forests declared through `over`/`unders` names, resolved by the real
           `Framer.presolve/resolve` (resolveOverLinks, resolveUnderLinks, traceOutline, traceHead), then
           `Framer.ExEn(nears, far)` with nears = an outline, a head (outline cut by a conditional auxiliary),
           a prefix or an arbitrary list of frames.
Trace part (engine `flo`): see floeng.py — generated FloScript programs run by the real Builder/Skedder with
  recorder deeds in every context of every frame, compared event by event with the Lean interpreter.
Oracle (independent of the model): index-based reference of the outline difference; bracket/ordering
  checker on the recorded events.
"""
import itertools, signal, re, json
import core, floeng, floref


class _Diverged(BaseException):
    pass


def _alarm(signum, frame):
    raise _Diverged()


def lst(l):
    return ".".join(str(x) for x in l) if l else "-"


def opt(x):
    return "-" if x is None else str(x)


def ref_exen(far, nears, fars):
    """the property, stated directly: cut at the first index where the outlines differ or the target appears"""
    for i in range(min(len(nears), len(fars))):
        if nears[i] == far or nears[i] != fars[i]:
            return nears[i:], fars[i:], nears[:i]
    return [], [], list(nears)


def show_exen(r):
    return "ex=%s en=%s re=%s" % (lst(r[0]), lst(r[1]), lst(r[2]))


class _Obj(object):
    """stand-in with an .outline attribute: ExEn only uses identity and far.outline"""
    def __init__(self, i):
        self.i = i
        self.outline = []


def build_forest(n, overs, unders):
    """declare n frames with `over` / `unders` names as the builder does, resolve with the real code"""
    from ioflo.base import housing, framing, excepting
    housing.House.Clear()
    housing.ClearRegistries()
    house = housing.House(name='h')
    house.assignRegistries()
    fr = framing.Framer(name='m', store=house.store)
    fr.assignFrameRegistry()
    frames = []
    for i in range(n):
        f = framing.Frame(name='f%d' % i, store=house.store, framer=fr.name)
        if overs[i] is not None:
            f.over = 'f%d' % overs[i]
        f.unders = ['f%d' % u for u in unders[i]]
        frames.append(f)
    fr.first = 'f0'
    old = signal.signal(signal.SIGALRM, _alarm)
    signal.setitimer(signal.ITIMER_REAL, 0.2)
    try:
        fr.presolve()
        fr.resolve()
    except excepting.ResolveError as ex:
        msg = " ".join(str(a) for a in ex.args)
        for key, kind in (("Bad over link", "badOver"), ("unders create loop", "underLoop"), ("create loop", "loop"),
                          ("Bad under", "badUnder"), ("Duplicate under", "dupUnder")):
            if key in msg:
                return None, "ERR " + kind
        return None, "ERR ResolveError " + msg[:60]
    except _Diverged:
        return None, "ERR diverge"
    finally:
        signal.setitimer(signal.ITIMER_REAL, 0)
        signal.signal(signal.SIGALRM, old)
    return frames, None



# ----------------------------------------------------------------------------- trace part (engine `flo`)

CTX_LETTER = {"precur": "p", "exit": "x", "rexit": "t", "renter": "n", "enter": "e", "recur": "r"}
RUN_PATTERN = re.compile(r"^p*x*t*n*e*r*$")     # one run of a scheduled framer, in terms of recorder contexts


def strip_flo(lines):
    """keep the recorder events and, of the snapshots, per framer `i:status:active:actives`"""
    out = []
    for l in lines:
        if l.startswith("E ") or l.startswith("ERR"):
            out.append(l)
        elif l.startswith("S ") or l.startswith("Z"):
            toks = l.split(" ")
            k = 2 if toks[0] == "S" else 1
            out.append(" ".join(toks[:k] + [":".join(t.split(":")[:4]) for t in toks[k:]]))
    return out


def trace_oracle(prog, lines):
    """the property stated on the implementation's own trace: bracketing, entered set at every tick boundary,
    order and extent of exits / re-exits / re-enters / enters of each run of a scheduled framer"""
    m = floref.Machine(prog)               # static structure only (links, outlines), harness code
    outline, owner, over = {}, {}, {}
    for F in m.framers:
        for f in F.frames:
            outline[f.gid] = [x.gid for x in f.outline]
            owner[f.gid] = F.idx
            over[f.gid] = f.over.gid if f.over is not None else None
    tk = set(floeng.taskables(prog))
    # frames whose enter and exit can be seen: they carry a recorder deed in both contexts
    seen = set()
    has = {c: set() for c in CTX_LETTER}
    g0 = 0
    for fr in prog["framers"]:
        for f in fr["frames"]:
            ctxs = {it["ctx"] for it in f["items"] if it["t"] == "act" and it["act"]["k"] == "rec"}
            if "enter" in ctxs and "exit" in ctxs:
                seen.add(g0)
            for c in ctxs:
                has[c].add(g0)
            g0 += 1

    def ancestor(a, b):                    # is a a proper ancestor of b
        b = over[b]
        while b is not None:
            if b == a:
                return True
            b = over[b]
        return False

    entered = {}
    events = []                            # (frame, ctx) of the current tick
    prev = None                            # previous snapshot: framer -> (status, active, actives)
    for line in lines:
        if line.startswith("ERR"):
            return None
        if line.startswith("E "):
            _, fname, ctx, _tag = line.split(" ")
            g = int(fname[1:])
            if g not in seen:
                events.append((g, ctx))
                continue
            if ctx == "enter":
                if not (events and events[-1] == (g, "enter")):       # several deeds of one context run together
                    if entered.get(g):
                        return "frame f%d is entered again without an exit in between" % g
                    entered[g] = True
            elif ctx == "exit":
                if not (events and events[-1] == (g, "exit")):
                    if not entered.get(g):
                        return "frame f%d is exited without having been entered" % g
                    entered[g] = False
            events.append((g, ctx))
            continue
        toks = line.split(" ")
        k = 2 if toks[0] == "S" else 1
        where = " ".join(toks[:k])
        snap = {}
        for t in toks[k:]:
            i, status, active, actives = t.split(":")[:4]
            snap[int(i)] = (status, None if active == "-" else int(active),
                            [] if actives == "-" else [int(x) for x in actives.split(".")])
        # (1) entered but not exited = full outlines of all active framers (scheduled and auxiliary)
        want = set()
        for i, (status, active, actives) in snap.items():
            if active is not None:
                want |= set(outline[active]) & seen
        got = {g for g, v in entered.items() if v} & seen
        if got != want:
            extra, missing = sorted(got - want), sorted(want - got)
            return "%s: entered-not-exited frames %s, outlines of the active framers %s (left entered: %s, not entered: %s)" % (
                where, sorted(got), sorted(want), extra, missing)
        # (2) each run of a scheduled framer: contexts in the documented order, exits bottom-up, enters top-down
        for i in tk:
            ev = [(g, c) for (g, c) in events if owner[g] == i]
            pat = "".join(CTX_LETTER[c] for (_, c) in ev)
            if not RUN_PATTERN.match(pat):
                return "%s: framer m%d ran contexts in the order %s (expected precur* exit* rexit* renter* enter* recur*)" % (
                    where, i, " ".join(c for (_, c) in ev))
            for ctx, up in (("exit", True), ("rexit", True), ("renter", False), ("enter", False)):
                fr = [g for (g, c) in ev if c == ctx]
                fr = [g for n, g in enumerate(fr) if n == 0 or fr[n - 1] != g]
                for a, b in zip(fr, fr[1:]):
                    if not (ancestor(b, a) if up else ancestor(a, b)):
                        return "%s: framer m%d %s actions ran on f%d then f%d: not %s" % (
                            where, i, ctx, a, b, "bottom-up" if up else "top-down")
            # (3) a transition exits / enters what the outline difference says
            if prev is not None and i in prev and prev[i][0] in ("started", "running") and snap[i][0] == "running":
                exits = [g for (g, c) in ev if c == "exit"]
                exits = [g for n, g in enumerate(exits) if n == 0 or exits[n - 1] != g]
                enters = [g for (g, c) in ev if c == "enter"]
                enters = [g for n, g in enumerate(enters) if n == 0 or enters[n - 1] != g]
                rex = [g for (g, c) in ev if c == "rexit"]
                rex = [g for n, g in enumerate(rex) if n == 0 or rex[n - 1] != g]
                ren = [g for (g, c) in ev if c == "renter"]
                ren = [g for n, g in enumerate(ren) if n == 0 or ren[n - 1] != g]
                if exits or enters or rex or ren:
                    far = snap[i][1]
                    cands = [prev[i][2], outline[prev[i][1]]]
                    ok = False
                    for nears in cands:
                        ex, en, re_ = ref_exen(far, nears, outline[far])
                        if (exits == [g for g in reversed(ex) if g in has["exit"]]
                                and enters == [g for g in en if g in has["enter"]]
                                and rex == [g for g in reversed(re_) if g in has["rexit"]]
                                and ren == [g for g in re_ if g in has["renter"]]):
                            ok = True
                    if not ok:
                        ex, en, re_ = ref_exen(far, cands[1], outline[far])
                        return ("%s: framer m%d went from outline %s to f%d: exits %s rexits %s renters %s enters %s; the outline "
                                "difference gives exits %s rexits %s renters %s enters %s" % (
                                    where, i, cands[1], far, exits, rex, ren, enters, list(reversed(ex)),
                                    list(reversed(re_)), re_, en))
        prev = snap
        events = []
    return None


class CHECK(core.Check):
    PROPERTY = "C06"
    LEAN_MODULES = ["IofloModel.Props.C06", "IofloModel.Props.C06T"]
    ENGINE = "flo"             # trace part; the pure part talks to the second driver `drv-outline` (see model())
    GENERATED = True           # only used to get `translate()` called in stage A: it builds the second driver
    N_QUICK = 500
    N_THOROUGH = 9000
    N_SEARCH = 800

    def __init__(self):
        self._cov = {}

    def translate(self):
        ok, log = core.lake_build(["drv-outline"])
        if not ok:
            raise core.Infra("drv-outline does not build: " + log[-500:])
    RULE = ("kind=exen: Framer.ExEn on all pairs of lists over 3 frame ids up to length 2 (quick) / 4 (thorough) "
            "x every target, plus random pairs; kind=forest: random frame forests (<= 8 frames, declared over/unders "
            "names incl. primary-under overrides, cross links, duplicates, undeclared names, loops) resolved by the real "
            "Framer.resolve, then ExEn queries with nears = outline / head / prefix / random list; kind=flo (45 % of the "
            "generated cases): FloScript programs (floeng.gen_susp / gen_program) with recorder deeds in all six contexts "
            "of every frame, run 4-14 ticks by the real Builder/Skedder. Non-trivial = the forest resolves and some query "
            "has non-empty exits or enters (exen: non-empty result; flo: a transition, auxiliary entry or stop happens); "
            "distinct by content")
    TRUSTED = ["correspondence (pure part): Framer.ExEn (staticmethod), Frame.resolveOverLinks/resolveUnderLinks/traceOutline/"
               "traceHead of the working tree run in-process on the same declarations as the Lean model (engine 'outline'); "
               "frames are built by calling framing.Frame/Framer directly with the `over`/`unders` name strings the builder "
               "would leave",
               "correspondence (trace part): recorder events and per-tick status/active/actives of every framer from the real "
               "Builder + Skedder vs the Lean interpreter (engine 'flo')",
               "oracle (trace part): bracketing, entered set = full outlines of the active framers at every tick boundary, "
               "order/extent of exits, rexits, renters, enters of every run of a scheduled framer, computed from the "
               "implementation's own events with outlines recomputed by harness code"]
    PARTIAL = ["C06_bracket_step_partial / C06_bracket_reachable_partial: hypothesis `bad2 = false` on the reached state "
               "(ghost flags: `left` = exitAll or a taken transition worked on a truncated outline, `reenter` = enterAll on a "
               "still active framer) and static well-formedness WF + WFE (outlines without repetition); the full statement is "
               "refuted by C06_counterexample_D3c (known finding D3c); programs in which an auxiliary is named by several clauses are outside WF (after fixes D3b/D3d they are covered by the correspondence and the trace oracle only)",
               "`enter/exit events alternate` is stated through the ghost map `ent` / flag `dbl`, which the model updates in the "
               "same step that emits the `.enter` / `.exit` event (noteEnter / noteExit)",
               "the order of a taken transition (tracts, exits bottom-up, rexits, renters, enters top-down, activation) is "
               "C07_transit_taken / C08_transit_enters_checked_list; bottom-up / top-down order on the implementation is "
               "checked by the trace oracle"]
    TECHNIQUE = ("Lean 4 theorems (structural induction over the two outlines; least-index characterisation) + "
                 "differential correspondence against the real staticmethod, the real link resolution and full event traces")
    LEVEL_TEXT = ("Pure part, full proof on the model for all pairs of lists: C06_exen_split (ExEn cuts both outlines at the "
                  "least index where they differ or the target appears, else returns ([],[],nears)), C06_exen_exits_suffix, "
                  "C06_exen_common_prefix, C06_exen_enters_nonempty_iff, C06_exen_target_reentered, C06_exen_first_differs. "
                  "Trace part (Props/C06T.lean, Lemmas/FloTrace.lean), for every well-formed program, semantics, auxiliary depth "
                  "and sequence of controls: C06_bracket_step_partial, C06_bracket_reachable_partial (no frame is ever entered "
                  "while entered or exited while not entered, and the entered frames are exactly the full outlines of the active "
                  "frames of all framers, suspended frames included, at every boundary where no ghost flag left/reenter is up), "
                  "C06_bracket_init, C06_inactive_nothing_entered (a stopped/aborted framer has no entered frame). PARTIAL: "
                  "hypothesis bad2 = false; C06_counterexample_D3c refutes the unrestricted statement.")
    LEVEL_NOTE = ("Trusted: Lean kernel; axioms propext, Classical.choice, Quot.sound; the transcription of Framer.ExEn, of "
                  "the link resolution / outline tracing and of the framer core, validated by the correspondence runs only.")

    # ------------------------------------------------------------------ cases
    def exhaustive(self, tier):
        L = 4 if tier == "thorough" else 2
        syms = [0, 1, 2]
        lists = [list(t) for k in range(L + 1) for t in itertools.product(syms, repeat=k)]
        for a in lists:
            for b in lists:
                for far in syms:
                    yield {"kind": "exen", "far": far, "nears": a, "fars": b}

    def _forest(self, rng):
        n = rng.choice([1, 2, 3, 3, 4, 4, 5, 6, 8])
        mode = rng.random()
        order = list(range(n))
        rng.shuffle(order)          # declaration order is independent of depth
        pos = {f: i for i, f in enumerate(order)}
        overs = [None] * n
        for i in range(1, n):
            f = order[i]
            if rng.random() < 0.8:
                overs[f] = order[rng.randrange(i)]      # parent earlier in `order` -> acyclic
        unders = [[] for _ in range(n)]
        for g in range(n):
            kids = [f for f in range(n) if overs[f] == g]
            r = rng.random()
            if kids and r < 0.45:
                unders[g] = [rng.choice(kids)]                      # primary-under override
            elif r < 0.54 and n > 1:
                # cross link: to a frame later in `order` (keeps the under graph acyclic); rarely unconstrained
                cand = [f for f in range(n) if f != g and (pos[f] > pos[g] or rng.random() < 0.03)]
                if cand:
                    unders[g] = [rng.choice(cand)]
            elif r < 0.56 and len(kids) >= 2:
                unders[g] = rng.sample(kids, 2)
        if mode < 0.05 and n >= 2:                                   # loop through frame 0 (declared first)
            a = rng.randrange(1, n)
            overs[0] = a
            overs[a] = 0
        elif mode < 0.08:
            overs[rng.randrange(n)] = n + rng.randrange(3)           # undeclared over
        elif mode < 0.11:
            unders[rng.randrange(n)] = [n + 1]                       # undeclared under
        elif mode < 0.14 and n >= 2:
            g = rng.randrange(n)
            u = rng.choice([f for f in range(n) if f != g])
            unders[g] = [u, u]                                       # duplicate
        return n, overs, unders

    def generate(self, rng, n, tier):
        for i in range(n):
            r0 = rng.random()
            if r0 < 0.45:
                if rng.random() < 0.7:
                    prog = floeng.fill_recs(floeng.gen_susp(rng, full=True))
                else:
                    prog = floeng.fill_recs(floeng.gen_program(rng))
                yield {"kind": "flo", "prog": prog}
                continue
            if rng.random() < 0.25:
                k = rng.choice([3, 4, 5])
                L = rng.randrange(7)
                a = [rng.randrange(k) for _ in range(rng.randrange(L + 1))]
                b = list(a[:rng.randrange(len(a) + 1)]) if rng.random() < 0.6 else []
                b += [rng.randrange(k) for _ in range(rng.randrange(4))]
                yield {"kind": "exen", "far": rng.randrange(k), "nears": a, "fars": b}
                continue
            nn, overs, unders = self._forest(rng)
            qs = []
            for _ in range(rng.randrange(2, 7)):
                qs.append({"far": rng.randrange(nn), "mode": rng.choice(["outline", "outline", "head", "prefix", "random"]),
                           "of": rng.randrange(nn), "cut": rng.randrange(9),
                           "list": [rng.randrange(nn) for _ in range(rng.randrange(5))]})
            yield {"kind": "forest", "n": nn, "overs": overs, "unders": unders, "queries": qs}

    # ------------------------------------------------------------------ implementation side
    def _nears(self, q, outlines, heads):
        """the nears list of a query, from outlines/heads as lists of frame numbers"""
        if q["mode"] == "outline":
            return list(outlines[q["of"]])
        if q["mode"] == "head":
            return list(heads[q["of"]])
        if q["mode"] == "prefix":
            o = outlines[q["of"]]
            return list(o[:q["cut"] % (len(o) + 1)])
        return list(q["list"])

    def impl(self, case):
        from ioflo.base import framing
        if case["kind"] == "flo":
            return strip_flo(floeng.run_impl(case["prog"], ("E", "S", "Z")))
        if case["kind"] == "exen":
            objs = {}
            def ob(i):
                return objs.setdefault(i, _Obj(i))
            far = ob(case["far"])
            far.outline = [ob(i) for i in case["fars"]]
            nears = [ob(i) for i in case["nears"]]
            r = framing.Framer.ExEn(nears, far)
            return [show_exen([[o.i for o in part] for part in r])]
        frames, err = build_forest(case["n"], case["overs"], case["unders"])
        if err:
            return [err]
        num = {f: i for i, f in enumerate(frames)}
        out = ["ok " + " ".join("%s/%s/%s/%s" % (opt(num[f.over] if f.over else None),
                                                  opt(num[f.unders[0]] if f.unders else None),
                                                  lst([num[x] for x in f.head]), lst([num[x] for x in f.outline]))
                                for f in frames)]
        outlines = [[num[x] for x in f.outline] for f in frames]
        heads = [[num[x] for x in f.head] for f in frames]
        for q in case["queries"]:
            nears = [frames[i] for i in self._nears(q, outlines, heads)]
            r = framing.Framer.ExEn(nears, frames[q["far"]])
            out.append(show_exen([[num[o] for o in part] for part in r]))
        return out

    # ------------------------------------------------------------------ model side
    def requests(self, case):
        if case["kind"] == "flo":
            return [floeng.encode(case["prog"])]
        if case["kind"] == "exen":
            return ["exenl %d %s %s" % (case["far"], lst(case["nears"]), lst(case["fars"]))]
        reqs = ["resolve %d %s %s" % (case["n"], ",".join(opt(o) for o in case["overs"]),
                                       ";".join(lst(u) for u in case["unders"]))]
        # the queries are expressed relative to the MODEL's outlines (second pass in model())
        return reqs

    def model(self, cases):
        """two passes: resolve every forest, then ask the ExEn queries with nears taken from the model's outlines"""
        flo_cases = [c for c in cases if c["kind"] == "flo"]
        flo_out = {}
        if flo_cases:
            reps = core.Driver("flo").run([floeng.encode(c["prog"]) for c in flo_cases])
            for c, r in zip(flo_cases, reps):
                flo_out[id(c)] = strip_flo(floeng.model_lines(r, ("E", "S", "Z")))
        all_cases = cases
        cases = [c for c in all_cases if c["kind"] != "flo"]
        drv = core.Driver("outline")
        first = drv.run([self.requests(c)[0] for c in cases])
        reqs, spans = [], []
        for c, r in zip(cases, first):
            lines = [self.requests(c)[0]]
            if c["kind"] == "forest" and r.startswith("ok "):
                fr = [t.split("/") for t in r.split()[1:]]
                par = lambda s: [] if s == "-" else [int(x) for x in s.split(".")]
                outlines = [par(t[3]) for t in fr]
                heads = [par(t[2]) for t in fr]
                for q in c["queries"]:
                    lines.append("exen %d %s" % (q["far"], lst(self._nears(q, outlines, heads))))
            spans.append((len(reqs), len(lines)))
            reqs.extend(lines)
        replies = drv.run(reqs)
        outs = []
        for c, (a, k) in zip(cases, spans):
            rs = replies[a:a + k]
            if c["kind"] == "forest":
                if rs[0].startswith("ok "):       # only the primary under is part of the property
                    toks = []
                    for t in rs[0].split()[1:]:
                        o, u, h, ol = t.split("/")
                        toks.append("%s/%s/%s/%s" % (o, u.split(".")[0], h, ol))
                    rs[0] = "ok " + " ".join(toks)
                elif rs[0] in ("ERR untraceable", "ERR diverge"):
                    rs[0] = "ERR diverge"
            outs.append(rs)
        it = iter(outs)
        return [flo_out[id(c)] if c["kind"] == "flo" else next(it) for c in all_cases]

    # ------------------------------------------------------------------ oracle
    def oracle(self, case, out):
        par = lambda s: [] if s == "-" else [int(x) for x in s.split(".")]
        def parse_exen(line):
            try:
                parts = dict(p.split("=") for p in line.split())
                return par(parts["ex"]), par(parts["en"]), par(parts["re"])
            except Exception:
                return None
        if case["kind"] == "flo":
            return trace_oracle(floeng.expand(case["prog"]), out)
        if case["kind"] == "exen":
            got = parse_exen(out[0]) if out else None
            want = ref_exen(case["far"], case["nears"], case["fars"])
            if got is None or tuple(got) != tuple(want):
                return "ExEn(%s, far=%d with outline %s) = %s, outline difference is %s" % (
                    case["nears"], case["far"], case["fars"], out[:1], show_exen(want))
            return None
        if not out or not out[0].startswith("ok "):
            if out and out[0].startswith("ERR "):
                return None          # a declaration error; which error is raised is not C06's business
            return "unexpected output %r" % (out[:1],)
        fr = [t.split("/") for t in out[0].split()[1:]]
        over = [None if t[0] == "-" else int(t[0]) for t in fr]
        under = [None if t[1] == "-" else int(t[1]) for t in fr]
        heads = [par(t[2]) for t in fr]
        outlines = [par(t[3]) for t in fr]
        n = len(fr)
        for f in range(n):
            h, g = [f], over[f]
            while g is not None and len(h) <= n:
                h.append(g); g = over[g]
            h.reverse()
            if heads[f] != h:
                return "head of frame %d is %s, chain of over links is %s" % (f, heads[f], h)
            o, g = list(h), under[f]
            while g is not None and len(o) <= 2 * n:
                o.append(g); g = under[g]
            if outlines[f] != o:
                return "outline of frame %d is %s, head + primary unders is %s" % (f, outlines[f], o)
        if len(out) != 1 + len(case["queries"]):
            return "expected %d ExEn results, got %d" % (len(case["queries"]), len(out) - 1)
        for q, line in zip(case["queries"], out[1:]):
            nears = self._nears(q, outlines, heads)
            want = ref_exen(q["far"], nears, outlines[q["far"]])
            got = parse_exen(line)
            if got is None or tuple(got) != tuple(want):
                return "ExEn(%s, far=%d with outline %s) = %s, outline difference is %s" % (
                    nears, q["far"], outlines[q["far"]], line, show_exen(want))
        return None

    # ------------------------------------------------------------------ bookkeeping
    def _flocov(self, case):
        key = core.case_key(case)
        if key not in self._cov:
            m = floref.Machine(case["prog"]); m.run()
            if len(self._cov) > 4000:
                self._cov.pop(next(iter(self._cov)))
            self._cov[key] = dict(m.cov)
        return self._cov[key]

    def region(self, finding, case):
        if case.get("kind") != "flo":
            return False
        reply = core.Driver("flo").run([floeng.encode(case["prog"])])[0]
        flags = [l for l in reply.split("|") if l.startswith("G ")]
        want = {"D3": "overlap=1", "D3c": "left=1", "D3e": "both=1"}.get(finding.get("id"))
        return bool(flags) and want is not None and want in flags[0]

    def nontrivial(self, case, out):
        if case["kind"] == "flo":
            cov = self._flocov(case)
            return any(k in cov for k in ("go-taken", "susp-start", "aux-enter", "stop-up"))
        if case["kind"] == "exen":
            return bool(out) and out[0] != "ex=- en=- re=-"
        return bool(out) and out[0].startswith("ok ") and any("ex=-" not in l or "en=-" not in l for l in out[1:])

    def bucket(self, case, out):
        if case["kind"] == "flo":
            if out and out[0].startswith("ERR"):
                return "flo:" + out[0]
            cov = self._flocov(case)
            for k in ("go-while-suspended", "stop-while-suspended", "abort-while-suspended", "susp-nested-start",
                      "susp-complete", "susp-start", "go-forced", "go-common", "go-taken", "aux-enter", "stop-up"):
                if k in cov:
                    return "flo:" + k
            return "flo:idle"
        if case["kind"] == "exen":
            return "exen:" + ("fallthrough" if out and out[0].startswith("ex=- en=-") else
                              "forced" if case["far"] in case["nears"] else "cut")
        if not out or not out[0].startswith("ok "):
            return "forest:" + (out[0] if out else "?")
        return "forest:ok"

    def shrink_candidates(self, case):
        if case["kind"] == "flo":
            for p in floeng.shrink_program(case["prog"]):
                yield {"kind": "flo", "prog": p}
            return
        if case["kind"] == "exen":
            for key in ("nears", "fars"):
                l = case[key]
                for i in range(len(l)):
                    c = dict(case); c[key] = l[:i] + l[i + 1:]; yield c
            return
        qs = case["queries"]
        for i in range(len(qs)):
            c = dict(case); c["queries"] = qs[:i] + qs[i + 1:]; yield c
        n = case["n"]
        if n > 1:   # drop the last frame when nothing refers to it
            last = n - 1
            if all(o != last for o in case["overs"]) and all(last not in u for u in case["unders"]) \
                    and all(q["far"] != last and q["of"] != last and last not in q["list"] for q in qs):
                c = dict(case); c["n"] = n - 1; c["overs"] = case["overs"][:-1]; c["unders"] = case["unders"][:-1]
                yield c
        for g in range(n):
            if case["unders"][g]:
                c = dict(case); c["unders"] = [list(u) for u in case["unders"]]; c["unders"][g] = []; yield c
