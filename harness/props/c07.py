"""C07 — framer runs agree with a reference interpreter of FloScript semantics.

Reference = the Lean interpreter lean/IofloModel/Model/Flo.lean + FloProg.lean (engine `flo`).
Theorems  = lean/IofloModel/Props/C07.lean (first-match evaluation of segue, transition order, refusal is a no-op).
Tie       = generated FloScript programs (floeng.py) built by the REAL Builder and run by the REAL Skedder; a
            recorder deed (`doing.doify`) logs every executed recorder action, the end-of-tick hook (`if not ready`
            of Skedder.run, observed through a deque subclass) snapshots status/active/actives/done/main/elapsed/
            recurred of every framer and the store values; compared line by line with the Lean interpreter.
Oracle    = floref.py, a second reference interpreter in plain Python written from the documented semantics
            (independent of the Lean model): the implementation's lines must equal its lines.
"""
import itertools, json
import core, floeng, floref

FEATURE_ORDER = ["susp-nested-start", "go-while-suspended", "stop-while-suspended", "abort-while-suspended",
                 "susp-complete", "susp-done-first-run", "susp-start", "go-refused-guard", "go-refused-empty",
                 "go-forced", "go-common", "go-taken", "aux-enter", "stop-up", "start-refused", "start"]


def rec(ctx, tag):
    return {"t": "act", "ctx": ctx, "act": {"k": "rec", "tag": tag, "ret": 0}}


class FloCheck(core.Check):
    """shared by the properties that are checked on the `flo` engine"""
    ENGINE = "flo"
    WANT = ("E", "S", "V", "K", "Z")
    SHARE = 0.04               # probability that an `aux` clause of gen_susp reuses an auxiliary of another clause

    def __init__(self):
        self._cov = {}
        self.totals = {}
        self.cond_seen = [0, 0]
        self.flag_counts = {}            # ghost flags / wf of the model runs (from the driver's `G` record)

    def requests(self, case):
        return [floeng.encode(case["prog"])]

    def note_flags(self, reply):
        for l in reply.split("|"):
            if l.startswith("G "):
                self.flag_counts["runs"] = self.flag_counts.get("runs", 0) + 1
                for t in l.split(" ")[1:]:
                    k, _, v = t.partition("=")
                    if v == "1":
                        self.flag_counts[k] = self.flag_counts.get(k, 0) + 1

    def model_post(self, case, replies):
        self.note_flags(replies[0])
        return floeng.model_lines(replies[0], self.WANT)

    def impl(self, case):
        return floeng.run_impl(case["prog"], self.WANT)

    def ref(self, case):
        """reference run + coverage (cached per case)"""
        key = core.case_key(case)
        if key not in self._cov:
            m = floref.Machine(case["prog"])
            out = m.run()
            self._cov[key] = (out, dict(m.cov), (len(m.outcomes), sum(1 for v in m.outcomes.values() if len(v) == 2)))
            if len(self._cov) > 4000:
                self._cov.pop(next(iter(self._cov)))
            for k in m.cov:
                self.totals[k] = self.totals.get(k, 0) + 1
            self.cond_seen[0] += len(m.outcomes)
            self.cond_seen[1] += sum(1 for v in m.outcomes.values() if len(v) == 2)
        return self._cov[key]

    def nontrivial(self, case, out):
        cov = self.ref(case)[1]
        return any(k in cov for k in ("go-taken", "susp-start", "susp-done-first-run", "aux-enter", "stop-up"))

    def bucket(self, case, out):
        if out and out[0].startswith("ERR"):
            return out[0]
        cov = self.ref(case)[1]
        for k in FEATURE_ORDER:
            if k in cov:
                return k
        return "idle"

    def shrink_candidates(self, case):
        for p in floeng.shrink_program(case["prog"]):
            yield {"prog": p, "gen": case.get("gen", "shrunk")}

    def extra_evidence(self):
        c = self.cond_seen
        return {"model_runs_with_ghost_flag_or_wf": dict(sorted(self.flag_counts.items())),
                "programs_with_feature": dict(sorted(self.totals.items())),
                "conditions_evaluated": c[0],
                "conditions_seen_both_true_and_false": c[1],
                "conditions_both_fraction": round(c[1] / c[0], 3) if c[0] else None}

    # generators shared by the flo properties
    def gen_cases(self, rng, n, mix=(("mixed", 0.45), ("susp", 0.55))):
        for _ in range(n):
            r, acc = rng.random(), 0.0
            for name, w in mix:
                acc += w
                if r < acc:
                    break
            prog = floeng.gen_program(rng) if name == "mixed" else floeng.gen_susp(rng, full=(name == "suspfull"), share=self.SHARE)
            yield {"prog": prog, "gen": name}


def small_programs(tier):
    """bounded-exhaustive family: one main framer (k frames, every over structure), an auxiliary that is done
    after one more run, .v0 counting the runs of frame f0; per frame a sequence of preacts from
    {go f if .v0 >= c, aux m1 if .v0 >= c}"""
    aux = {"sched": "aux", "first": None, "frames": [
        {"over": None, "under": None, "items": [rec("enter", 90), rec("recur", 91), rec("exit", 92),
                                                  {"t": "go", "far": "next", "needs": [{"k": "re", "op": ">=", "n": 1}]}]},
        {"over": None, "under": None, "items": [{"t": "act", "ctx": "enter", "act": {"k": "done"}}]}]}

    def alphabet(k):
        al = []
        for c in (1, 2):
            for far in range(k):
                al.append({"t": "go", "far": far, "needs": [{"k": "cd", "sh": 0, "op": ">=", "v": c}]})
            al.append({"t": "aux", "aux": 1, "needs": [{"k": "cd", "sh": 0, "op": ">=", "v": c}]})
        return al

    def family(k, maxlen):
        al = alphabet(k)
        seqs = [list(t) for L in range(maxlen + 1) for t in itertools.product(al, repeat=L)]
        overs = list(itertools.product(*[[None] + list(range(j)) for j in range(k)]))
        for ov in overs:
            for combo in itertools.product(seqs, repeat=k):
                frames = []
                for j in range(k):
                    items = [rec("enter", 10 * j + 1), rec("recur", 10 * j + 2), rec("exit", 10 * j + 3)]
                    if j == 0:
                        items.append({"t": "act", "ctx": "recur", "act": {"k": "inc", "dst": 0, "v": 1}})
                    frames.append({"over": ov[j], "under": None, "items": items + json.loads(json.dumps(combo[j]))})
                yield {"prog": {"ticks": 5, "period": 8, "shares": [0],
                                "framers": [{"sched": "active", "first": None, "frames": frames},
                                            json.loads(json.dumps(aux))]},
                       "gen": "exhaustive"}
    if tier == "thorough":
        for c in family(2, 2):
            yield c
        for c in family(3, 1):
            yield c
    else:
        for c in family(2, 1):
            yield c


class CHECK(FloCheck):
    PROPERTY = "C07"
    LEAN_MODULES = ["IofloModel.Props.C07", "IofloModel.Props.C07M"]
    N_QUICK = 350
    N_THOROUGH = 12000
    N_SEARCH = 600
    RULE = ("programs of the interpreted FloScript subset (floeng.gen_program: random frame forests, go/timeout/repeat "
            "with direct/indirect/boolean/elapsed/recurred/done/status needs and `is updated` / `is changed` needs (on "
            "12 % / 8 % of the transitions and conditional-aux clauses, with and without `in frame`), let guards, actions in six contexts, "
            "put/set/inc/copy, plain and conditional auxes, bids, done; floeng.gen_susp: clock-driven conditional auxes at "
            "several depths, transitions out of suspended outlines, stop/abort at chosen ticks), each run 4-14 ticks on a "
            "dyadic tick; plus the bounded-exhaustive family (1 main framer of 2 frames x <=2 preacts or 3 frames x <=1 "
            "preact from {go f if .v0>=c, aux m1 if .v0>=c}, every over structure) — all of it in the thorough tier. "
            "Non-trivial = the run takes a transition, enters an auxiliary or stops a running framer; distinct by program. In 40 % of the framers the frames are declared in an order independent of the hierarchy (random or exactly reversed: children before parents, forward `in`/`under`/`go`/`first` references).")
    TRUSTED = ["correspondence: the real Builder + Skedder run generated FloScript (floeng.render) in-process; the Lean "
               "interpreter gets the same program as numbers (floeng.encode: names, `next`/`me`/`all` resolved by the harness)",
               "recorder deed registered with doing.doify and an end-of-tick snapshot taken when Skedder.run evaluates "
               "`if not ready` (a deque subclass installed as skedder.ready); no hook in /repo",
               "oracle floref.py: second reference interpreter (Python) of the documented semantics",
               "time is exact: tick period and timeouts are multiples of 1/8 s",
               "marks: after every tick the stamp of every marked share and stamp/used/data of every mark are read from "
               "share.marks of the real store and compared (record K)"]
    PARTIAL = ["verbs outside the interpreted subset (server, logger, rear/raze, fiats/slaves, insular clones (`as mine`), clones of "
               "clones, `via` inodes, `by <marker>` keys, "
               "do-deeds other than the recorder, `bid … at period`) are not interpreted",
               "actions that raise are not modelled; RecursionError of cyclic auxiliaries is Err.depth and is not generated"]
    TECHNIQUE = ("translation-validation style differential testing of the real Builder/Skedder against a Lean 4 reference "
                 "interpreter, plus Lean theorems about the interpreter's evaluation order")
    LEVEL_TEXT = ("Proved on the Lean interpreter: C07_segue_first_match (segue = preacts of the active frames top-down in "
                  "declaration order up to the first truthy one), C07_first_enabled_transition_taken, C07_transit_* (needs, "
                  "then entry guards, then tracts/exit/rexit/renter/enter/activate; a refused transition changes nothing), "
                  "C07_suspend_* ; C07_depth_monotone_step/_tick/_finalize, C07_depth_irrelevant_tick (Props/C07M: a result obtained "
                  "with nesting-depth fuel n is the result for every greater depth). The agreement of ioflo with the interpreter is a correspondence over generated and "
                  "bounded-exhaustive programs, not a proof.")
    LEVEL_NOTE = ("Trusted: Lean kernel; axioms propext, Classical.choice, Quot.sound; the Lean interpreter as the statement "
                  "of the documented semantics; the harness' rendering of a program to FloScript text and to the driver's "
                  "numeric form; CPython floats on a dyadic time grid.")

    def exhaustive(self, tier):
        return small_programs(tier)

    def generate(self, rng, n, tier):
        return self.gen_cases(rng, n)

    def oracle(self, case, out):
        want = self.ref(case)[0]
        if out == want:
            return None
        for k, (a, b) in enumerate(zip(out, want)):
            if a != b:
                return "line %d: ioflo %r, documented semantics %r" % (k, a, b)
        return "ioflo produced %d lines, documented semantics %d" % (len(out), len(want))
