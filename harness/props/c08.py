"""C08 — entry guards are never bypassed and refused transitions have no effect.

Model     lean/IofloModel/Model/Flo.lean (checkEnter / checkEnterC / frameCheckEnter / auxCheck / auxClaim / checkStart,
          transit, framerStep) — the repaired Framer.checkEnter of fixes/D3d-checkenter-claims-aux-once.patch
Theorems  lean/IofloModel/Props/C08.lean
Tie       generated programs (floeng.gen_guards: `let` guards at several depths on shares only a clock framer
          writes, guarded transition targets, auxiliaries with guarded first frames, an original auxiliary named
          by two frames; plus floeng.gen_susp / gen_program), real Builder + Skedder vs the Lean interpreter:
          recorder events, per-tick status/active/actives/done/main/elapsed/recurred, store values.
Oracle    on the implementation's own trace, independent of the model: every frame that is entered in a tick has
          all its `let` guards true on the store values of that tick (for guards over clock-only shares), no
          original auxiliary is held by two entered frames, a run without an entry leaves elapsed/recurred
          running on (no reset, no exit actions), and the update/change marks of a framer's transitions change
          only in a run in which that framer enters a frame.
"""
import core, floeng, floref
from props.c07 import FloCheck


def clock_only_shares(prog):
    """shares written by framer 0 (the clock of gen_guards) and by nobody else"""
    writers = {}
    for i, fr in enumerate(prog["framers"]):
        for f in fr["frames"]:
            for it in f["items"]:
                if it["t"] == "act" and it["act"]["k"] in ("put", "set", "inc", "incf", "copy"):
                    writers.setdefault(it["act"]["dst"], set()).add(i)
    return {sh for sh in range(len(prog["shares"])) if writers.get(sh, set()) <= {0}}


def holds(nd, vals):
    a, b = vals[nd["sh"]], nd["v"]
    r = {"==": a == b, "!=": a != b, "<": a < b, "<=": a <= b, ">=": a >= b, ">": a > b}[nd["op"]]
    return (not r) if nd.get("neg") else r


class CHECK(FloCheck):
    PROPERTY = "C08"
    LEAN_MODULES = ["IofloModel.Props.C08"]
    N_QUICK = 350
    N_THOROUGH = 12000
    N_SEARCH = 600
    RULE = ("generated FloScript programs: floeng.gen_guards (let guards at several depths on clock-driven shares that "
            "flip at chosen ticks, guarded targets of go, `is updated` / `is changed` conditions (with/without `in frame`) on 30 % "
            "of the transitions and conditional-aux clauses, plain and conditional auxiliaries with guarded first frames, an "
            "original auxiliary named by two frames, also through an auxiliary's own frame (10 % of the main framers: z named "
            "by a frame and by the first frame of that outline's other auxiliary y; 12 %: through a named clone of a moot "
            "framer, clone above/below the other claimant, after a further original, two levels deep), control sequences on "
            "an inactive framer (45 %: the clock bids `ready`, later — in the tick in which it also flips the guard share — "
            "`start`/`ready`/`stop`), inactive framers started later) 60 %, gen_susp 25 %, gen_program "
            "15 %; 4-14 ticks. Non-trivial = a transition is taken, an auxiliary entered or a start/transition refused; "
            "distinct by program. In 40 % of the framers the frames are declared in an order independent of the hierarchy (random or exactly reversed: children before parents, forward `in`/`under`/`go`/`first` references).")
    TRUSTED = ["correspondence: real Builder + Skedder vs the Lean interpreter (engine 'flo'): recorder events, per-tick "
               "state of every framer and store values",
               "oracle: guards are evaluated by the harness on the end-of-tick store values, which is exact only for "
               "guards over shares written by the clock framer alone (it runs first in every tick); other guards are "
               "covered by the correspondence only"]
    PARTIAL = ["needs are pure in the model; the transit marker acts of `is updated` / `is changed` needs are the `tracts` of "
               "the transition (Preact.transit … tracts), run only when it is taken (C08_transit_refused_is_noop); the stamps and "
               "marks themselves live in the concrete store of Model/FloProg.lean and are compared after every tick",
               "`checked` is the state of the attempt: transit and exit acts of the same transition run after the check"]
    TECHNIQUE = "Lean 4 theorems about the check/act structure of the framer model + differential correspondence"
    LEVEL_TEXT = ("Proved for every program, semantics and auxiliary level: C08_check_enter / C08_frame_check (a passed "
                  "check means: non-empty enters, every before-enter need of every entered frame holds, every auxiliary is "
                  "free / owned by the frame / owned by an exited frame and passes its own checkStart), "
                  "C08_transit_enter_implies_checked, C08_transit_enters_checked_list (enter is called with exactly the "
                  "checked list, in the state of the check), C08_transit_refused_is_noop / C08_transit_false_unchanged (state "
                  "identical), C08_suspend_start_checked, C08_start_refused_is_noop, C08_start_refused_untouched, "
                  "C08_start_checks_first, C08_empty_enters_refused, C08_checkStart_unfold; C08_claims_distinct (one passed check "
                  "never approves the same original auxiliary for two aux clauses of the frames it enters; by induction over "
                  "the nesting depth the `claimed` list stays duplicate-free through aux.checkStart(claimed)), "
                  "C08_shared_aux_refused (two frames of `enters` naming one original auxiliary: refused); marks: "
                  "C08_mark_consumes_update, C08_refused_keeps_update_pending, C08_enter_mark_sees_same_time_write.")
    LEVEL_NOTE = ("Trusted: Lean kernel; axioms propext, Classical.choice, Quot.sound; the transcription in Model/Flo.lean "
                  "validated by the correspondence; the oracle's guard evaluation is restricted to clock-only shares.")

    def generate(self, rng, n, tier):
        for _ in range(n):
            r = rng.random()
            if r < 0.6:
                yield {"prog": floeng.fill_recs(floeng.gen_guards(rng)), "gen": "guards"}
            elif r < 0.85:
                yield {"prog": floeng.fill_recs(floeng.gen_susp(rng)), "gen": "susp"}
            else:
                yield {"prog": floeng.fill_recs(floeng.gen_program(rng)), "gen": "mixed"}

    def region(self, finding, case):
        reply = core.Driver("flo").run([floeng.encode(case["prog"])])[0]
        flags = [l for l in reply.split("|") if l.startswith("G ")]
        want = {"D3": "overlap=1", "D3c": "reenter=1", "D3e": "both=1"}.get(finding.get("id"))
        return bool(flags) and want is not None and want in flags[0]

    def nontrivial(self, case, out):
        cov = self.ref(case)[1]
        return any(k in cov for k in ("go-taken", "susp-start", "aux-enter", "go-refused-guard", "start-refused"))

    def bucket(self, case, out):
        if out and out[0].startswith("ERR"):
            return out[0]
        cov = self.ref(case)[1]
        for k in ("go-refused-guard", "start-refused", "go-refused-empty", "susp-start", "aux-enter", "go-forced",
                  "go-taken", "start"):
            if k in cov:
                return case.get("gen", "?") + ":" + k
        return case.get("gen", "?") + ":idle"

    def oracle(self, case, out):
        prog = floeng.expand(case["prog"])      # named clones as explicit non-original auxiliaries
        m = floref.Machine(prog)                      # static structure only
        owner, lets, plain = {}, {}, {}
        has_enter, has_exit = set(), set()
        for F in m.framers:
            for f in F.frames:
                owner[f.gid] = F.idx
                lets[f.gid] = list(f.beacts)
                plain[f.gid] = [a.idx for a in f.auxes]
        g = 0
        for fr in prog["framers"]:
            for f in fr["frames"]:
                ctxs = {it["ctx"] for it in f["items"] if it["t"] == "act" and it["act"]["k"] == "rec"}
                if "enter" in ctxs:
                    has_enter.add(g)
                if "exit" in ctxs:
                    has_exit.add(g)
                g += 1
        # framers all of whose frames show their enter and exit: only those can be judged by rules (3)
        obs = {i for i in range(len(prog["framers"]))
               if all((f in has_enter and f in has_exit) for f, o in owner.items() if o == i)}
        # guards are judged on end-of-tick values only in gen_guards programs: there framer 0 is a plain clock that
        # runs first, owns no auxiliary, and is the only writer of the guard shares
        clock = clock_only_shares(prog) if case.get("gen") == "guards" else set()
        tk = set(floeng.taskables(prog))
        # marks whose conditions sit on transitions of scheduled framers only (not on conditional-aux clauses):
        # (share, key) -> framer that owns them
        mark_owner, aux_marks = {}, set()
        for i, fr in enumerate(prog["framers"]):
            for j, f in enumerate(fr["frames"]):
                for it in f["items"]:
                    for nd in (it.get("needs", []) if it["t"] in ("go", "aux") else []):
                        if nd["k"] in ("up", "chg"):
                            pr = (nd["sh"], floeng.mark_key(prog, i, j, nd))
                            mark_owner[pr] = i
                            if it["t"] == "aux" or i not in tk:
                                aux_marks.add(pr)
        prev_marks = None
        period = prog["period"]
        entered = {}
        entry_tick = {}                # framer -> tick of its last entry (start, transition, forced re-entry)
        events, prev = [], None
        lines = list(out)
        k = 0
        while k < len(lines):
            line = lines[k]
            if line.startswith("ERR"):
                return None
            if line.startswith("E "):
                _, fname, ctx, _tag = line.split(" ")
                events.append((int(fname[1:]), ctx))
                k += 1
                continue
            if line.startswith("S ") or line.startswith("Z"):
                vals = None
                if k + 1 < len(lines) and lines[k + 1].startswith("V "):
                    vals = [int(x) for x in lines[k + 1][2:].split(",")]
                toks = line.split(" ")
                kk = 2 if toks[0] == "S" else 1
                where = " ".join(toks[:kk])
                snap = {}
                for t in toks[kk:]:
                    i, status, active, actives, done, main, el, rec = t.split(":")
                    snap[int(i)] = (status, active, actives, done, None if main == "-" else int(main), int(el), int(rec))
                # (1) every frame entered in this tick had all its clock-only guards true
                seq = [(g_, c) for n, (g_, c) in enumerate(events) if n == 0 or events[n - 1] != (g_, c)]
                for (g_, c) in seq:
                    if c == "enter":
                        entered[g_] = True
                        if vals is not None and toks[0] == "S":
                            for nd in (lets[g_] if owner[g_] != 0 else []):
                                if nd["k"] == "cd" and nd["sh"] in clock and not holds(nd, vals):
                                    return "%s: frame f%d was entered although its guard `%s` is false (store %s)" % (
                                        where, g_, floeng.need_text(prog, owner[g_], nd), vals)
                    elif c == "exit":
                        entered[g_] = False
                if toks[0] == "S":
                    for i in tk:
                        if any(c == "enter" and owner[g_] == i for (g_, c) in seq):
                            entry_tick[i] = int(toks[1])
                # (2) an original auxiliary is not held by two entered frames
                for y in range(len(prog["framers"])):
                    holders = [f for f, auxes in plain.items() if y in auxes and entered.get(f) and f in has_enter and f in has_exit]
                    if len(holders) > 1:
                        return "%s: auxiliary m%d is a plain auxiliary of the entered frames %s at once" % (where, y, holders)
                # (3) a run of a running framer that entered nothing exited nothing and let the clocks run on
                if prev is not None and toks[0] == "S":
                    for i in tk & obs:
                        if prev[i][0] in ("started", "running") and snap[i][0] == "running":
                            mine = [(g_, c) for (g_, c) in seq if owner[g_] == i]
                            ent = [g_ for (g_, c) in mine if c == "enter"]
                            ext = [g_ for (g_, c) in mine if c == "exit"]
                            if not ent:
                                if ext:
                                    return "%s: framer m%d exited %s without entering anything" % (where, i, ext)
                                if snap[i][1] != prev[i][1]:
                                    return "%s: framer m%d changed its active frame without entering anything" % (where, i)
                                tick = int(toks[1])
                                ran = (i in entry_tick and snap[i][5] == (tick - entry_tick[i]) * period
                                       and snap[i][6] == prev[i][6] + 1)
                                idle = (snap[i][5:] == prev[i][5:] and not mine)     # START/READY sent to a running framer
                                if not (ran or idle):
                                    return ("%s: framer m%d entered nothing but elapsed/recurred went from %d/%d to %d/%d "
                                            "(tick %d)" % (where, i, prev[i][5], prev[i][6], snap[i][5], snap[i][6], period))
                            elif any(f in has_enter for f in ent):
                                if snap[i][5] != 0 or snap[i][6] != 0:
                                    return "%s: framer m%d entered %s but elapsed/recurred are %d/%d" % (
                                        where, i, ent, snap[i][5], snap[i][6])
                        if prev[i][0] in ("stopped", "readied") and snap[i][0] in ("stopped", "readied"):
                            mine = [(g_, c) for (g_, c) in seq if owner[g_] == i]
                            if mine:
                                return "%s: framer m%d stayed %s but ran %s" % (where, i, snap[i][0], mine)
                            if snap[i][5:] != prev[i][5:]:
                                return "%s: framer m%d stayed %s but elapsed/recurred changed" % (where, i, snap[i][0])
                # (4) a mark is written by the enter marker of its frame and by a TAKEN transition only: it does not
                #     change in a run of its framer that entered nothing (refused or not attempted transitions)
                marks = None
                for q in (k + 1, k + 2):
                    if q < len(lines) and lines[q].startswith("K "):
                        marks = {}
                        for t in lines[q][2:].split(" "):
                            if t:
                                name, _shst, mst, mus, mda = t.split(":")
                                a, b = name.split(".")
                                marks[(int(a), int(b))] = (mst, mus, mda)
                if marks is not None and prev_marks is not None and prev is not None and toks[0] == "S":
                    for pr, val in marks.items():
                        i = mark_owner.get(pr)
                        if i is None or pr in aux_marks or val == prev_marks.get(pr, val):
                            continue
                        entered_now = (snap[i][6] == 0 or snap[i][1] != prev[i][1] or
                                       any(c == "enter" and owner[g_] == i for (g_, c) in seq))
                        if not entered_now:
                            return ("%s: mark f%d of share .v%d changed from %s to %s although framer m%d entered no "
                                    "frame in this run (a transition that is not taken has no effect)" % (
                                        where, pr[1], pr[0], prev_marks[pr], val, i))
                if marks is not None:
                    prev_marks = marks
                prev = snap
                events = []
            k += 1
        return None
