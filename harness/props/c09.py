"""C09 — auxiliary framers live exactly as long as their main frame.

Model     lean/IofloModel/Model/Flo.lean (frameEnter / frameExit / frameRecur / segue, claim / release, Act.done),
          Model/FloProg.lean (done-conditions NeedDone / NeedDoneAux any | all | named)
Theorems  lean/IofloModel/Props/C09.lean
Tree      /repo with fixes/D4-completing-import-aux-slave.patch (without it `done <name>` raises NameError at resolve),
          fixes/D3d-checkenter-claims-aux-once.patch and fixes/D3b-suspender-runs-and-exits-only-own-aux.patch
Tie       floeng.gen_auxes programs (plain auxiliaries at several levels, several per frame, rarely shared; `done me`
          and `done <aux>`; transitions on any/all/named done-conditions), real Builder + Skedder vs the Lean
          interpreter, full traces.
Oracle    on the implementation's trace, independent of the model, per `aux y` clause of frame f (y named once):
          at every tick boundary y is active with main = f exactly when f is entered; y's frames are exited before
          f's exit actions; in a run of the main framer in which f stays active y runs exactly once, its
          transitions before the main framer's, its recur actions right after f's.
"""
import core, floeng, floref
from props.c07 import FloCheck


class CHECK(FloCheck):
    PROPERTY = "C09"
    LEAN_MODULES = ["IofloModel.Props.C09"]
    N_QUICK = 300
    N_THOROUGH = 10000
    N_SEARCH = 500
    RULE = ("floeng.gen_auxes programs with recorder deeds in all six contexts of every frame (80 %), gen_susp (10 %), "
            "gen_program (10 %): plain auxiliaries of frames at depths 1-3 and of auxiliaries (2 more levels), 0-2 per "
            "frame, 6 % of the clauses reuse an original of the same framer, 6 % one of any level/framer; 25 % of the main "
            "framers carry a named clone of a moot framer whose frame names an original that another frame of the chain "
            "names too (clone above / below, after a further original, two levels deep, or alone); `done me`, `done <aux>`; go on any/all/<aux> in frame … is done, "
            "<aux> is done, tick counter, recurred. Non-trivial = a plain auxiliary is entered; distinct by program. In 40 % of the framers the frames are declared in an order independent of the hierarchy (random or exactly reversed: children before parents, forward `in`/`under`/`go`/`first` references).")
    TRUSTED = ["correspondence: real Builder + Skedder vs the Lean interpreter (engine 'flo'), full traces; the tree is "
               "/repo with fixes D4, D3b, D3d applied",
               "the outcome of done-conditions is compared through the transitions they enable (correspondence); the oracle "
               "itself does not evaluate them"]
    PARTIAL = ["single owner: C09_single_owner_checked / C08_claims_distinct (the check refuses a double claim, all programs) "
               "and C09_owner_invariant (all runs of WF programs); that an auxiliary is never entered twice without exit in "
               "programs with shared auxiliaries is checked by the oracle only (rule 0, 0') — frames left entered by D3c can "
               "still be re-entered (known finding D3c)",
               "`exactly once per run` is stated as the structure of segue/recur (one call per list element), not as a count "
               "over traces"]
    TECHNIQUE = "Lean 4 theorems about the frame/auxiliary structure of the framer model + differential correspondence"
    LEVEL_TEXT = ("Proved for every program, semantics and level: C09_aux_entered_with_main, C09_claim_original, "
                  "C09_aux_exited_with_main, C09_deactivateAux, C09_release_original, C09_exit_leaves_aux_done (WF), "
                  "C09_aux_segue_before_transitions, C09_aux_recur_after_reacts, C09_forEach_cons, C09_done_sets_done, "
                  "C09_need_done_aux_semantics (incl. `all` over no auxiliaries is false). Single owner (fix D3d): C09_single_owner_checked, "
                  "C09_fixed_D3d (the former counterexample program is refused at start), C09_owner_invariant (along every run "
                  "of a well-formed program an original auxiliary that is not done has main = the frame naming it).")
    LEVEL_NOTE = ("Trusted: Lean kernel; axioms propext, Classical.choice, Quot.sound; transcription validated by the "
                  "correspondence on /repo with the fixes.")

    def generate(self, rng, n, tier):
        for _ in range(n):
            r = rng.random()
            if r < 0.8:
                yield {"prog": floeng.fill_recs(floeng.gen_auxes(rng)), "gen": "auxes"}
            elif r < 0.9:
                yield {"prog": floeng.fill_recs(floeng.gen_susp(rng)), "gen": "susp"}
            else:
                yield {"prog": floeng.fill_recs(floeng.gen_program(rng)), "gen": "mixed"}

    def nontrivial(self, case, out):
        return "aux-enter" in self.ref(case)[1]

    def region(self, finding, case):
        reply = core.Driver("flo").run([floeng.encode(case["prog"])])[0]
        flags = [l for l in reply.split("|") if l.startswith("G ")]
        want = {"D3": "overlap=1", "D3c": "left=1", "D3e": "both=1"}.get(finding.get("id"))
        return bool(flags) and want is not None and want in flags[0]

    def oracle(self, case, out):
        prog = floeng.expand(case["prog"])      # named clones as explicit non-original auxiliaries
        m = floref.Machine(prog)                       # static structure only
        outline, owner, plain, first = {}, {}, [], {}
        for F in m.framers:
            first[F.idx] = [x.gid for x in F.first.outline]
            for f in F.frames:
                outline[f.gid] = [x.gid for x in f.outline]
                owner[f.gid] = F.idx
        uses, g = {}, 0
        seen = set()
        for i, fr in enumerate(prog["framers"]):
            for f in fr["frames"]:
                ctxs = {it["ctx"] for it in f["items"] if it["t"] == "act" and it["act"]["k"] == "rec"}
                if {"enter", "exit", "recur"} <= ctxs:
                    seen.add(g)
                for it in f["items"]:
                    if it["t"] == "aux":
                        uses[it["aux"]] = uses.get(it["aux"], 0) + 1
                        if not it["needs"]:
                            plain.append((g, it["aux"]))
                g += 1
        allplain = list(plain)
        original = {y: fr.get("original", True) for y, fr in enumerate(prog["framers"])}
        sharedplain = [(f, y) for (f, y) in plain if uses[y] > 1]
        plain = [(f, y) for (f, y) in plain if uses[y] == 1]
        frames_of = {}
        for fg, o in owner.items():
            frames_of.setdefault(o, set()).add(fg)
        entered = {}
        events, prev = [], None
        for line in out:
            if line.startswith("ERR"):
                return None
            if line.startswith("E "):
                _, fname, ctx, tag = line.split(" ")
                events.append((int(fname[1:]), ctx))
                continue
            if not (line.startswith("S ") or line.startswith("Z")):
                continue
            toks = line.split(" ")
            kk = 2 if toks[0] == "S" else 1
            where = " ".join(toks[:kk])
            snap = {}
            for t in toks[kk:]:
                i, status, active, actives, done, main, el, rec = t.split(":")
                snap[int(i)] = {"status": status, "active": None if active == "-" else int(active),
                                "actives": [] if actives == "-" else [int(x) for x in actives.split(".")],
                                "main": None if main == "-" else int(main), "recurred": int(rec)}
            seq = [(g_, c) for n, (g_, c) in enumerate(events) if n == 0 or events[n - 1] != (g_, c)]
            for (g_, c) in seq:
                if c == "enter":
                    entered[g_] = True
                elif c == "exit":
                    entered[g_] = False
            # (0) the same original auxiliary is never under two entered frames at once
            for y in {y for (_, y) in allplain}:
                holders = sorted({f for (f, y2) in allplain if y2 == y and f in seen and entered.get(f)})
                if len(holders) > 1:
                    return "%s: auxiliary m%d is a plain auxiliary of the entered frames %s at once" % (where, y, holders)
            # (0') an auxiliary named by several clauses: an entered frame that names it owns it, and it is running
            for (f, y) in sharedplain:
                if f not in seen:
                    continue
                if entered.get(f):
                    if snap[y]["active"] is None or snap[y]["main"] != f:
                        return "%s: frame f%d is entered but the auxiliary m%d it shares is %s with main %s" % (
                            where, f, y, "inactive" if snap[y]["active"] is None else "active", snap[y]["main"])
                elif snap[y]["main"] == f:
                    return "%s: frame f%d is not entered but still owns the auxiliary m%d" % (where, f, y)
            for (f, y) in plain:
                if f not in seen:
                    continue
                i = owner[f]
                # (1) lives exactly as long as the main frame
                if entered.get(f):
                    if snap[y]["active"] is None or snap[y]["main"] != f:
                        return "%s: frame f%d is entered but its auxiliary m%d is %s with main %s" % (
                            where, f, y, "inactive" if snap[y]["active"] is None else "active", snap[y]["main"])
                else:
                    # (a clone's main is fixed: only its activity is judged)
                    if snap[y]["active"] is not None or (original[y] and snap[y]["main"] is not None):
                        return "%s: frame f%d is not entered but its auxiliary m%d is active (main %s)" % (
                            where, f, y, snap[y]["main"])
                # (2) exited with the main frame, auxiliaries first; entered with it, after its enter actions
                idx_fx = [n for n, (g_, c) in enumerate(seq) if g_ == f and c == "exit"]
                for n_ in idx_fx:
                    start = max([p for p in idx_fx if p < n_] + [-1])
                    later = [p for p, (g_, c) in enumerate(seq) if p > n_ and owner[g_] == y and c == "exit"]
                    nxt = min([p for p in idx_fx if p > n_] + [len(seq)])
                    nxt_enter = min([p for p, (g_, c) in enumerate(seq) if p > n_ and g_ == f and c == "enter"] + [len(seq)])
                    if any(p < min(nxt, nxt_enter) for p in later):
                        return "%s: auxiliary m%d was exited after the exit actions of its main frame f%d" % (where, y, f)
                idx_fe = [n for n, (g_, c) in enumerate(seq) if g_ == f and c == "enter"]
                for n_ in idx_fe:
                    after = [(g_, c) for (g_, c) in seq[n_ + 1:] if owner[g_] == y and g_ in seen]
                    fy = [g_ for g_ in first[y] if g_ in seen]
                    if fy and not (after and after[0] == (fy[0], "enter")):
                        return "%s: frame f%d was entered but its auxiliary m%d did not start at its first frame f%d" % (
                            where, f, y, fy[0])
                # (3) once per run of the main framer while the main frame stays active
                if prev is not None and toks[0] == "S":
                    top = i
                    ran = snap[top]["recurred"] == prev[top]["recurred"] + 1
                    stay = (f in prev[top]["actives"] and f in snap[top]["actives"]
                            and not any(g_ == f and c in ("exit", "enter") for (g_, c) in seq))
                    mine = [(n, g_, c) for n, (g_, c) in enumerate(seq) if owner[g_] == y]
                    if ran and stay and prev[y]["active"] is not None:
                        moved = any(c == "enter" for (_, _, c) in mine)
                        if not moved and snap[y]["recurred"] != prev[y]["recurred"] + 1:
                            return "%s: auxiliary m%d of the active frame f%d did not run exactly once (recurred %d -> %d)" % (
                                where, y, f, prev[y]["recurred"], snap[y]["recurred"])
                        # transitions of the auxiliary before the main framer's
                        pre_main = [n for n, (g_, c) in enumerate(seq) if owner[g_] == top and c == "precur"]
                        pre_aux = [n for (n, g_, c) in mine if c in ("precur", "exit", "enter", "rexit", "renter")]
                        if pre_main and pre_aux and max(pre_aux) > min(pre_main):
                            return "%s: auxiliary m%d evaluated its transitions after its main framer m%d started evaluating its own" % (
                                where, y, top)
                        # recur right after the main frame's recur actions
                        rec_f = [n for n, (g_, c) in enumerate(seq) if g_ == f and c == "recur"]
                        rec_y = [n for (n, g_, c) in mine if c == "recur"]
                        if rec_f and rec_y:
                            between = [seq[n] for n in range(max(rec_f) + 1, min(rec_y))
                                       if owner[seq[n][0]] == top]
                            if min(rec_y) < max(rec_f) or between:
                                return "%s: recur actions of auxiliary m%d did not follow those of its main frame f%d directly" % (
                                    where, y, f)
            prev = snap
            events = []
        return None
