"""C10 — a conditional auxiliary suspends the frames below its main frame.

Model     lean/IofloModel/Model/Flo.lean: suspend / suspendStart / suspendEnter / suspendRun, deactivize, truncate,
          reactivate (= Suspender.action, the deactivize exit side act, framer.change / reactivate)
Theorems  lean/IofloModel/Props/C10.lean
Tie       floeng.gen_susp programs (conditional auxes at several depths, conditions toggling at chosen ticks,
          auxes that complete in the first run / later / never, transitions leaving the main frame, stop/abort),
          real Builder + Skedder vs the Lean interpreter, full traces.
Oracle    on the implementation's trace, independent of the model, per `aux x if …` clause of frame m:
          x is only entered when its (clock-only) needs hold; while x stays running the frames below m and the
          recorder deeds after the clause in m are silent and x runs once per run of the framer; when x
          completes the frames below m recur in the same tick without enter actions and x is exited; when m
          is exited x is exited too; a running x ends in no other way; the active frames stay a top part of the
          active frame's outline and the frames above m keep recurring and evaluating their preacts.
"""
import core, floeng, floref
from props.c07 import FloCheck
from props.c08 import clock_only_shares, holds


class CHECK(FloCheck):
    PROPERTY = "C10"
    LEAN_MODULES = ["IofloModel.Props.C10"]
    N_QUICK = 300
    N_THOROUGH = 10000
    N_SEARCH = 500
    RULE = ("floeng.gen_susp programs with recorder deeds in all six contexts of every frame (85 %) and gen_program "
            "(15 %): conditional auxiliaries at depths 1-4, two per frame, nested in auxiliaries, 12 % of the clauses reuse an "
            "auxiliary another clause names; needs on a tick counter "
            "that flip at chosen ticks; auxiliaries done in their first run / after 0-3 more runs / never; transitions to "
            "self, ancestors, descendants, other subtrees; stop/abort/start bids. Non-trivial = a conditional auxiliary is "
            "started; distinct by program. In 40 % of the framers the frames are declared in an order independent of the hierarchy (random or exactly reversed: children before parents, forward `in`/`under`/`go`/`first` references).")
    TRUSTED = ["correspondence: real Builder + Skedder vs the Lean interpreter (engine 'flo'), full traces",
               "oracle evaluates start conditions only for needs over shares written by the clock framer alone"]
    PARTIAL = ["C10_suspended_frames takes the C05 invariant (AllInv) as hypothesis, which C05_reachable_partial "
               "establishes only for runs that raise no ghost flag; C10_counterexample_D3 shows the exception "
               "(overlapping conditional auxiliaries, known finding D3)",
               "`no enter events for the resumed frames` is stated on the ghost map `ent` of the model"]
    TECHNIQUE = "Lean 4 theorems about the Suspender branches of the framer model + differential correspondence"
    LEVEL_TEXT = ("Proved for every program, semantics and level: C10_start_conditions, C10_first_run_stays (outline cut at "
                  "the main frame, truthy), C10_first_run_completes (exited at once, not cut, falsy), "
                  "C10_runs_irrespective_of_needs, C10_run_continues, C10_run_completes (exit, outline restored by "
                  "assignment, nothing entered), C10_recur_over_actives, C10_deactivize, C10_main_exit_exits_aux (WF), "
                  "C10_not_owner_noop (fix D3b: an auxiliary running for another frame is neither run nor exited by this "
                  "clause), C10_plain_and_conditional_noop (fix D3e), C10_running_is_owned (WF: the owner test never fails for the clause that started it). "
                  "PARTIAL: C10_suspended_frames needs the C05 invariant; C10_counterexample_D3 is the exception.")
    LEVEL_NOTE = ("Trusted: Lean kernel; axioms propext, Classical.choice, Quot.sound; transcription of Suspender.action "
                  "validated by the correspondence.")

    def generate(self, rng, n, tier):
        for _ in range(n):
            if rng.random() < 0.85:
                yield {"prog": floeng.fill_recs(floeng.gen_susp(rng, full=True, share=0.12)), "gen": "susp"}
            else:
                yield {"prog": floeng.fill_recs(floeng.gen_program(rng)), "gen": "mixed"}

    def nontrivial(self, case, out):
        cov = self.ref(case)[1]
        return any(k in cov for k in ("susp-start", "susp-done-first-run"))

    def region(self, finding, case):
        reply = core.Driver("flo").run([floeng.encode(case["prog"])])[0]
        flags = [l for l in reply.split("|") if l.startswith("G ")]
        want = {"D3": "overlap=1", "D3c": "left=1", "D3e": "both=1"}.get(finding.get("id"))
        return bool(flags) and want is not None and want in flags[0]

    def oracle(self, case, out):
        prog = floeng.expand(case["prog"])      # named clones as explicit non-original auxiliaries
        m = floref.Machine(prog)                       # static structure only
        outline, owner, clauses, rec_after = {}, {}, [], {}
        ctx_of = {}                                    # frame -> contexts with recorder deeds
        for F in m.framers:
            for f in F.frames:
                outline[f.gid] = [x.gid for x in f.outline]
                owner[f.gid] = F.idx
        g = 0
        uses = {}
        for i, fr in enumerate(prog["framers"]):
            for f in fr["frames"]:
                ctx_of[g] = {it["ctx"] for it in f["items"] if it["t"] == "act" and it["act"]["k"] == "rec"}
                for n, it in enumerate(f["items"]):
                    if it["t"] == "aux":
                        uses[it["aux"]] = uses.get(it["aux"], 0) + 1
                    if it["t"] == "aux" and it["needs"]:
                        later = [jt["act"]["tag"] for jt in f["items"][n + 1:]
                                 if jt["t"] == "act" and jt["ctx"] == "precur" and jt["act"]["k"] == "rec"]
                        clauses.append((g, it["aux"], it["needs"], later))
                g += 1
        # an auxiliary named by several clauses is judged through its owner (`main`), see rules below; a clause whose
        # auxiliary is also a plain auxiliary of the same frame does nothing (fix D3e): skipped
        plain_of = {}
        g = 0
        for fr in prog["framers"]:
            for f in fr["frames"]:
                plain_of[g] = {it["aux"] for it in f["items"] if it["t"] == "aux" and not it["needs"]}
                g += 1
        clauses = [c for c in clauses if c[1] not in plain_of[c[0]]]
        clock = clock_only_shares(prog) if case.get("gen") == "susp" else set()    # framer 0 is a plain clock there
        first_frames = {F.idx: [x.gid for x in F.first.outline] for F in m.framers}
        events, prev = [], None
        lines = list(out)
        k = 0
        while k < len(lines):
            line = lines[k]
            if line.startswith("ERR"):
                return None
            if line.startswith("E "):
                _, fname, ctx, tag = line.split(" ")
                events.append((int(fname[1:]), ctx, int(tag)))
                k += 1
                continue
            if line.startswith("S "):
                vals = [int(x) for x in lines[k + 1][2:].split(",")] if k + 1 < len(lines) and lines[k + 1].startswith("V ") else None
                toks = line.split(" ")
                where = " ".join(toks[:2])
                snap = {}
                for t in toks[2:]:
                    i, status, active, actives, done, main, el, rec = t.split(":")
                    snap[int(i)] = {"status": status, "active": None if active == "-" else int(active),
                                    "actives": [] if actives == "-" else [int(x) for x in actives.split(".")],
                                    "done": done == "1", "main": None if main == "-" else int(main),
                                    "recurred": int(rec)}
                for (mf, x, needs, later) in clauses:
                    i = owner[mf]
                    xin = [e for e in events if owner[e[0]] == x]
                    x_entered = any(e[1] == "enter" and e[0] in first_frames[x] for e in xin)
                    # (a) started only when its needs hold
                    only_clause = sum(1 for c in clauses if c[0] == mf and c[1] == x) == 1
                    if x_entered and vals is not None and only_clause and (uses[x] == 1 or snap[x]["main"] == mf):
                        for nd in needs:
                            if nd["k"] == "cd" and nd["sh"] in clock and not holds(nd, vals):
                                return "%s: conditional aux m%d of f%d was entered although `%s` is false (store %s)" % (
                                    where, x, mf, floeng.need_text(prog, i, nd), vals)
                    if prev is None:
                        continue
                    was = (not prev[x]["done"]) and prev[x]["main"] == mf
                    now = (not snap[x]["done"]) and snap[x]["main"] == mf
                    ran = prev[i]["status"] in ("started", "running") and snap[i]["status"] == "running" and \
                        snap[i]["recurred"] != prev[i]["recurred"]
                    same = prev[i]["active"] == snap[i]["active"] and prev[i]["active"] is not None
                    # (f) a running x ends only by running to completion or with the exit of its main frame
                    if (was and snap[x]["done"] and not x_entered and "exit" in ctx_of[mf]
                            and not any(e[0] == mf and e[1] == "exit" for e in events)
                            and snap[x]["recurred"] == prev[x]["recurred"] and not xin):
                        return ("%s: conditional aux m%d of f%d was running, did not run in this tick and f%d was not exited, "
                                "but it is done now" % (where, x, mf, mf))
                    if not (was and ran and same):
                        # (e) if the main frame was exited in this tick, a running x was exited with it
                        if was and any(e[0] == mf and e[1] == "exit" for e in events) and not x_entered:
                            if not snap[x]["done"]:
                                return "%s: main frame f%d was exited but its conditional aux m%d is still running" % (where, mf, x)
                        continue
                    ol = outline[snap[i]["active"]]
                    # (g) whatever else happened, the framer's active frames are a top part of its active frame's outline:
                    #     a cut keeps every frame above the cut (the head of the main frame is preserved)
                    if prev[i]["actives"] != ol[:len(prev[i]["actives"])]:
                        return ("%s: conditional aux m%d of f%d is running and framer m%d has the active frames %s: not a "
                                "top part of the outline %s of its active frame (frames above the main frame dropped)" % (
                                    where, x, mf, i, prev[i]["actives"], ol))
                    if mf not in ol or prev[i]["actives"] != ol[:ol.index(mf) + 1]:
                        continue                      # the outline was not cut at this main frame (other finding)
                    below = set(ol[ol.index(mf) + 1:])
                    if any(e[0] == mf and e[1] in ("exit", "enter") for e in events):
                        continue                      # forced re-entry of the main frame: a different situation
                    ev_below = [e for e in events if e[0] in below]
                    if now and not x_entered:
                        # (b) still running: one more run of x, silence below the main frame and after the clause
                        if ev_below:
                            return "%s: conditional aux m%d of f%d is running but frames below ran %s" % (
                                where, x, mf, [(e[0], e[1]) for e in ev_below])
                        # … while the frames ABOVE the main frame go on: each recurs, and (when the run got as far as
                        # running x) each evaluated its preacts before
                        above = ol[:ol.index(mf)]
                        x_ran = snap[x]["recurred"] == prev[x]["recurred"] + 1
                        for b in above:
                            if "recur" in ctx_of[b] and not any(e[0] == b and e[1] == "recur" for e in events):
                                return "%s: conditional aux m%d of f%d is running but frame f%d above f%d did not recur" % (
                                    where, x, mf, b, mf)
                            if x_ran and "precur" in ctx_of[b] and not any(e[0] == b and e[1] == "precur" for e in events):
                                return ("%s: conditional aux m%d of f%d ran but frame f%d above f%d did not evaluate its "
                                        "preacts" % (where, x, mf, b, mf))
                        late = [e for e in events if e[0] == mf and e[1] == "precur" and e[2] in later]
                        if late:
                            return "%s: conditional aux m%d of f%d is running but later precur deeds of f%d ran (tags %s)" % (
                                where, x, mf, mf, [e[2] for e in late])
                        x_moved = any(e[1] == "enter" for e in xin)
                        if not x_moved and snap[x]["recurred"] != prev[x]["recurred"] + 1:
                            return "%s: running conditional aux m%d did not run exactly once (recurred %d -> %d)" % (
                                where, x, prev[x]["recurred"], snap[x]["recurred"])
                    elif snap[x]["done"]:
                        # (c) completed in this tick: fully exited; the frames below recur in this very tick, none is entered
                        if snap[x]["active"] is not None:
                            return "%s: conditional aux m%d is done but still has an active frame" % (where, x)
                        moved = any(owner[e[0]] == i and e[1] in ("exit", "enter", "rexit", "renter") and e[0] not in below
                                    for e in events)      # a transition of the framer followed the completion
                        if moved:
                            continue
                        if any(e[1] == "enter" for e in ev_below):
                            return "%s: frames below f%d were entered again when m%d completed: %s" % (
                                where, mf, x, [e[0] for e in ev_below if e[1] == "enter"])
                        others = [c for c in clauses if c is not None and owner[c[0]] == i and c[1] != x and
                                  not snap[c[1]]["done"]]
                        if not others and snap[i]["actives"] == ol:
                            for b in below:
                                if "recur" in ctx_of[b] and not any(e[0] == b and e[1] == "recur" for e in events):
                                    return "%s: m%d completed but frame f%d below f%d did not recur in this tick" % (
                                        where, x, b, mf)
                prev = snap
                events = []
            k += 1
        return None
