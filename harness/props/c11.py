"""C11 — framer elapsed/recurred clocks drive timeout and repeat exactly.

Model:    lean/IofloModel/Model/FloClock.lean (restartTimer/updateTimer/restartCounter/updateCounter,
          segue, buildTimeout/buildRepeat desugaring, Need.Check, Skedder stamp accumulation),
          generic in the number type: Int (exact) for the theorems, Float in the driver.
Theorems: lean/IofloModel/Props/C11.lean
Tie:      generated frame sequences using timeout / repeat / go … if elapsed|recurred cmp goal are
          rendered as FloScript, built by the real Builder, run by the real Skedder at every tick
          period of the enumerated set; an observer framer records after every tick the store stamp,
          the framer's active frame, its elapsed and recurred shares.  The Lean driver runs the Float
          instantiation on the same program (bit patterns compared), and for binary-exact periods also
          the exact Int instantiation (time in units of 2^-10 s).
Oracle:   independent of the model: from the implementation's own trace, at every tick the elapsed the
          needs saw must be (store stamp now - store stamp of the last outline change) and recurred the
          number of ticks since; the frame must be left through the first verb whose condition holds on
          those values and not before; for binary-exact periods a frame whose only verb is `timeout T`
          (`repeat N`) must be left exactly max(1, ceil(T/P)) (max(1, N)) ticks after it was entered.
"""
import json, struct, math
from fractions import Fraction
import core, flob

PERIODS = ["0.125", "0.25", "0.5", "1.0", "0.1", "0.3"]
DYADIC = {"0.125", "0.25", "0.5", "1.0", "1", "2", "0.0625"}
Q = 1024          # exact mode: time in units of 2^-10


def num(text):
    """the builder's Convert2Num on the literals used here: int first, then float"""
    try:
        return int(text, 10)
    except ValueError:
        return float(text)


def bits(x):
    return struct.pack(">d", float(x)).hex()


def exact_units(text):
    """literal as an integer number of 2^-10 units, or None"""
    f = Fraction(text) * Q
    return int(f) if f.denominator == 1 else None


def fr_over(f):
    """frames are {"over": index|None, "verbs": [...]} (a bare verb list = a top level frame)"""
    return f.get("over") if isinstance(f, dict) else None


def fr_verbs(f):
    return f["verbs"] if isinstance(f, dict) else f


def outline(frames, a):
    """Frame.traceOutline as documented: the over frames from the top down to the frame, then the chain of
    primary (first declared) under frames below it"""
    head, f = [], a
    while f is not None:
        head.append(f)
        f = fr_over(frames[f])
    head.reverse()
    f = a
    while True:
        unders = [j for j in range(len(frames)) if fr_over(frames[j]) == f]
        if not unders:
            break
        f = unders[0]
        head.append(f)
    return head


CMPS = {"ge": ">=", "gt": ">", "le": "<=", "lt": "<", "eq": "==", "ne": "!="}


def flo_need(nd):
    return "%s %s %s" % ("elapsed" if nd[0] == "E" else "recurred", CMPS[nd[1]], nd[2])


def instances(case):
    """where the timed framer runs: [(framer name as built, start tick, number of observed ticks)].
    place = {"kind": "active"}                                  the framer itself is scheduled (default)
          | {"kind": "aux", "host": [D0, …], "at": i}           `aux rd` in frame h<i> of a host framer
          | {"kind": "clone", "host": [D0, …], "tags": [[tag, i], …]}   `framer rd be moot`, `aux rd as <tag>` in h<i>
    host frame h<i> hands over to h<i+1> after D_i ticks (`go next if recurred >= D_i`)."""
    n = case["nticks"]
    place = case.get("place") or {"kind": "active"}
    if place["kind"] == "active":
        out = [("rd", 0, n, case)]
        if case.get("twin"):
            # a second ordinary framer with the same timeouts / repeats, one frame (= at least one tick) behind
            out.append(("rdb", 0, n, dict(case, frames=twin_frames(case))))
        return out
    starts = [0]
    for d in place["host"]:
        starts.append(starts[-1] + max(1, d))
    starts.append(max(n, starts[-1]))          # the last host frame lasts to the end

    def span(i):
        a = min(starts[i], n)
        b = min(starts[i + 1], n) if i + 1 < len(place["host"]) + 1 else n
        return a, max(0, b - a)
    if place["kind"] == "aux":
        a, c = span(place["at"])
        return [("rd", a, c, case)]
    out = []
    for tag, i in place["tags"]:
        a, c = span(i)
        out.append(("boss_" + tag, a, c, case))
    return out


def twin_frames(case):
    """the program of the second framer: a delay frame, then the same frames (indices shifted by one)"""
    def shift(v):
        if v[0] == "G" and isinstance(v[1], int):
            return ["G", v[1] + 1, v[2]]
        return v
    out = [[case["twin"]]]
    for f in case["frames"]:
        verbs = [shift(v) for v in fr_verbs(f)]
        if isinstance(f, dict):
            out.append({"over": None if f.get("over") is None else f["over"] + 1, "verbs": verbs})
        else:
            out.append(verbs)
    return out


def flo_script(case):
    place = case.get("place") or {"kind": "active"}
    L = ["house h", ""]
    if place["kind"] != "active":
        L.append("  framer boss be active first h0")
        nh = len(place["host"]) + 1
        for i in range(nh):
            L.append("    frame h%d" % i)
            if place["kind"] == "aux" and place["at"] == i:
                L.append("      aux rd")
            if place["kind"] == "clone":
                for tag, j in place["tags"]:
                    if j == i:
                        L.append("      aux rd as %s" % tag)
            if i + 1 < nh:
                L.append("      go next if recurred >= %d" % place["host"][i])
        L.append("")
    L.append("  framer rd be %s%s first F0" % ({"active": "active", "aux": "aux", "clone": "moot"}[place["kind"]],
                                                (" at " + case["fperiod"]) if case.get("fperiod") else ""))
    def verbs_of(pfx, frames):
        for i, f in enumerate(frames):
            L.append("    frame %s%d%s" % (pfx, i, "" if fr_over(f) is None else " in %s%d" % (pfx, fr_over(f))))
            if pfx == "F" and case.get("paux") and case["paux"]["at"] == i:
                L.append("      aux pa")            # a plain auxiliary of this frame of the timed framer
            if pfx in ("F", "G", "P"):
                # reports every entry of a frame of the timed framer (the outline changed in this tick)
                L.append("      do fb ent at enter")
            for v in fr_verbs(f):
                if v[0] == "T":
                    L.append("      timeout %s" % v[1])
                elif v[0] == "R":
                    L.append("      repeat %s" % v[1])
                elif v[0] == "S":
                    L.append("      aux helper if %s" % " and ".join(flo_need(n) for n in v[1]))
                elif v[0] == "D":
                    L.append("      done me")
                else:
                    far = v[1] if v[1] in ("next", "me") else "%s%d" % (pfx, v[1])
                    L.append("      go %s%s" % (far, (" if " + " and ".join(flo_need(n) for n in v[2])) if v[2] else ""))
    verbs_of("F", case["frames"])
    if case.get("twin") and place["kind"] == "active":
        L += ["", "  framer rdb be active first G0"]
        verbs_of("G", twin_frames(case))
    if case.get("paux"):
        L += ["", "  framer pa be aux first P0"]
        verbs_of("P", case["paux"]["frames"])
    if case.get("helper"):
        L += ["", "  framer helper be aux first H0"]
        verbs_of("H", case["helper"])
    L += ["", "  framer obs be active first o", "    frame o", "      do fb obs",
          ""]
    return "\n".join(L)


def drv_line(case, mode, start=0, nobs=None):
    """mode 'f': numbers as binary64 bit patterns; 'i': integers in 2^-10 units (None if not expressible)"""
    if nobs is None:
        nobs = case["nticks"]
    def tnum(text):
        if mode == "f":
            return bits(num(text))
        u = exact_units(text)
        if u is None:
            raise ValueError(text)
        return str(u)

    def count(text):
        if mode == "f":
            return bits(num(text))
        n = num(text)
        if not isinstance(n, int):
            raise ValueError(text)
        return str(n)
    def needs(nds):
        o = [str(len(nds))]
        for nd in nds:
            o += [nd[0], nd[1], tnum(nd[2]) if nd[0] == "E" else str(int(nd[2]))]
        return o

    def frames(fs):
        o = [str(len(fs))]
        for f in fs:
            verbs = [v for v in fr_verbs(f) if v[0] != "D"]
            o.append("-" if fr_over(f) is None else str(fr_over(f)))
            o.append(str(len(verbs)))
            for v in verbs:
                if v[0] == "T":
                    o += ["T", tnum(v[1])]
                elif v[0] == "R":
                    o += ["R", count(v[1])]
                elif v[0] == "S":
                    o += ["S"] + needs(v[1])
                else:
                    o += ["G", str(v[1])] + needs(v[2])
        return o
    if case.get("paux"):
        # the timed framer with a plain auxiliary in frame <at>: one line, both framers per tick
        return " ".join(["run" + mode + "p", tnum(case["period"]), tnum(case.get("stamp0") or "0"), str(start), str(nobs)]
                        + frames(case["frames"]) + ["A", str(case["paux"]["at"])] + frames(case["paux"]["frames"]))
    b = [tnum(case["stamp0"])] if case.get("stamp0") else []
    if case.get("fperiod"):
        out = ["run" + mode + "q" + ("b" if b else ""), tnum(case["period"])] + b + [tnum(case["fperiod"]), str(nobs)] + frames(case["frames"])
    else:
        out = ["run" + mode + ("b" if b else ""), tnum(case["period"])] + b + [str(start), str(nobs)] + frames(case["frames"])
    helper = case.get("helper") or []
    done = [i for i, f in enumerate(helper) if any(v[0] == "D" for v in fr_verbs(f))]
    out += ["H"] + frames(helper) + [str(len(done))] + [str(i) for i in done]
    return " ".join(out)


def exact_ok(case):
    if case["period"] not in DYADIC or case.get("stamp0"):
        return False
    try:
        drv_line(case, "i")
        return True
    except ValueError:
        return False


def bad_build(case):
    for frames in (case["frames"], case.get("helper") or [], (case.get("paux") or {}).get("frames") or []):
        n = len(frames)
        for i, f in enumerate(frames):
            for v in fr_verbs(f):
                if v[0] in ("S", "D"):
                    continue
                far = "next" if v[0] in ("T", "R") else v[1]
                if far == "next" and i + 1 >= n:
                    return True
                if isinstance(far, int) and far >= n:
                    return True
    return False


def has_susp(case):
    return any(v[0] == "S" for f in case["frames"] for v in fr_verbs(f))


def unf(h):
    return struct.unpack(">d", bytes.fromhex(h))[0]


def holds(nd, elapsed, recurred):
    state = elapsed if nd[0] == "E" else recurred
    goal = num(str(nd[2]))
    c = nd[1]
    return {"ge": state >= goal, "gt": state > goal, "le": state <= goal, "lt": state < goal,
            "eq": state == goal, "ne": state != goal}[c]


def verb_fires(v, elapsed, recurred):
    if v[0] == "T":
        return elapsed >= abs(num(v[1]))             # "at the first evaluation whose elapsed is at least T"
    if v[0] == "R":
        return recurred >= int(abs(num(v[1])))       # "... whose recurred is at least N"
    return all(holds(nd, elapsed, recurred) for nd in v[2])


def check_trace(case, line, start=0, count=None, who="rd"):
    """one instance of the timed framer, entered at tick `start` and observed for `count` ticks"""
    if line == "ERR build":
        return None if bad_build(case) else "a valid program did not build"
    if bad_build(case):
        return "a program with a dangling far frame built"
    toks = line.split()
    n = case["nticks"] if count is None else count
    if len(toks) != n:
        return "%s: expected %d observations, got %d" % (who, n, len(toks))
    if n == 0:
        return None
    obs = []
    for t in toks:
        head, el, rc, now = t.split(":")
        obs.append((int(head[:-1]), head[-1] == "*", unf(el), int(rc), unf(now)))
    frames = case["frames"]
    nfr = len(frames)
    P = num(case["period"])
    # store stamp: 0, then one addition of the period per tick
    s = float(num(case["stamp0"])) if case.get("stamp0") else 0.0
    base = s
    for _ in range(start):
        s += P
    for i, o in enumerate(obs):
        if o[4] != s:
            return "%s tick %d: store stamp %r, expected %r" % (who, start + i, o[4], s)
        s += P
    if obs[0][:4] != (0, True, 0.0, 0):
        return "%s start tick %d: expected F0 entered with elapsed 0 recurred 0, got %r" % (who, start, obs[0][:4])
    # a framer with its own period is run by the skedder only in the ticks where its next run time has come
    # (`if retime > stamp: skip else: run; retime += period`); in the other ticks nothing of it changes
    ran = [True] * n
    if case.get("fperiod"):
        Qp = max(0.0, float(num(case["fperiod"])))
        retime = base
        for i in range(n):
            if retime > obs[i][4]:
                ran[i] = False
            else:
                retime += Qp
    e = 0                                            # tick of the last outline change
    runs = 0                                         # runs of the framer since then
    entered_at = {0: 0}
    for i in range(1, n):
        prev = obs[i - 1][0]
        if not ran[i]:
            if obs[i][:4] != (prev, False, obs[i - 1][2], obs[i - 1][3]):
                return "%s tick %d: the framer is not run in this tick, yet its state changed to %r" % (who, start + i, obs[i][:4])
            continue
        runs += 1
        el = obs[i][4] - obs[e][4]                   # store time since the outline last changed
        rc = runs                                    # completed iterations since then
        if has_susp(case):
            # with a conditional auxiliary the outline is truncated and restored while the helper runs; which
            # conditions are evaluated then depends on the helper.  What the property says regardless:
            far_of = lambda home, v: home + 1 if v[0] in ("T", "R") or v[1] == "next" else home if v[1] == "me" else v[1]
            if obs[i][1]:
                # a transition was taken: through a verb of the active outline whose condition holds on the
                # clocks counted from the last outline change, and the clocks restart
                fars = set(far_of(home, v) for home in outline(frames, prev) for v in fr_verbs(frames[home])
                           if v[0] != "S" and verb_fires(v, el, rc))
                if obs[i][0] not in fars or (obs[i][2], obs[i][3]) != (0.0, 0):
                    return ("%s tick %d (frame F%d entered at tick %d): elapsed %r recurred %d admit a transition to %s "
                            "with restarted clocks, implementation %r" % (who, start + i, prev, start + e, el, rc, sorted(fars), obs[i][:4]))
                e = i
                runs = 0
            elif obs[i][:4] != (prev, False, el, rc):
                # no transition taken - whatever the conditional auxiliary did in this tick - the clocks run on
                return ("%s tick %d (frame F%d entered at tick %d, no frame entered now): clocks should read elapsed %r "
                        "recurred %d, implementation %r" % (who, start + i, prev, start + e, el, rc, obs[i][:4]))
            continue
        fired = None
        for home in outline(frames, prev):            # conditions of the active outline, top down
            for v in fr_verbs(frames[home]):
                if verb_fires(v, el, rc):
                    fired = (home, v)
                    break
            if fired:
                break
        if fired is None:
            want = (prev, False, el, rc)
        else:
            home, fired = fired
            far = home + 1 if fired[0] in ("T", "R") or fired[1] == "next" else home if fired[1] == "me" else fired[1]
            want = (far, True, 0.0, 0)
        if obs[i][:4] != want:
            return (who + " tick %d (frame F%d entered at tick %d): elapsed seen by the needs should be %r and recurred %d; "
                    "%s; expected (frame, changed, elapsed, recurred) = %r, implementation %r" % (
                        i, prev, e, el, rc, "verb %r fires" % (fired,) if fired else "no verb fires", want, obs[i][:4]))
        if fired is not None:
            # exact-time clause on binary-exact grids
            lone = len(outline(frames, prev)) == 1 and len(fr_verbs(frames[prev])) == 1
            step = Fraction(case["period"])
            if case.get("fperiod"):
                fq = Fraction(case["fperiod"])
                # a period that is a whole number of ticks: the framer runs every fq/P ticks
                step = fq if fq > 0 and (fq / step).denominator == 1 else None
            if case["period"] in DYADIC and lone and fired[0] in ("T", "R") and step is not None:
                k = runs
                if fired[0] == "T":
                    ideal = max(1, math.ceil(Fraction(abs(Fraction(fired[1]))) / step))
                else:
                    ideal = max(1, int(abs(num(fired[1]))))
                if k != ideal:
                    return "frame F%d with only %r left after %d runs, exact time says %d" % (prev, fired, k, ideal)
            e = i
            runs = 0
    return None


def exen(nears, fars, far):
    """frames exited / entered by a transition to `far`: from the first place where the active outline holds
    the target itself or differs from the target's outline"""
    for i in range(min(len(nears), len(fars))):
        if nears[i] == far or nears[i] != fars[i]:
            return nears[i:], fars[i:]
    return [], []


def check_plain_aux(case, line):
    """the timed framer carries `aux pa` in frame M.  Demanded: (1) the timed framer itself behaves as if the
    auxiliary were not there; (2) the auxiliary is there exactly while M is in the active outline; (3) at every
    entry of M (re-entry included) the auxiliary starts over in its first frame with elapsed 0, recurred 0;
    (4) between entries of M its clocks and verbs obey the clock law on their own (counted from ITS last
    outline change), whatever the timed framer's clocks read."""
    main_case = dict(case)
    pa = main_case.pop("paux")
    if line == "ERR build":
        return check_trace(main_case, line) if not bad_build(case) else None
    if bad_build(case):
        return "a program with a dangling far frame built"
    toks = line.split()
    if any("/" not in t for t in toks):
        return "malformed observation %r" % line
    why = check_trace(main_case, " ".join(t.split("/")[0] for t in toks), 0, case["nticks"], "rd")
    if why:
        return "with a plain auxiliary in F%d: %s" % (pa["at"], why)
    frames, M = case["frames"], pa["at"]
    aux_case = dict(main_case, frames=pa["frames"])
    heads = [t.split("/")[0].split(":")[0] for t in toks]
    act = [int(h[:-1]) for h in heads]
    seg = None                                       # (start tick, tokens) of the auxiliary's current life
    segs = []
    for i, t in enumerate(toks):
        a = t.split("/")[1]
        if i == 0:
            entered, inside = M in outline(frames, act[0]), M in outline(frames, act[0])
        else:
            inside = M in outline(frames, act[i])
            entered = False
            if heads[i].endswith("*"):
                exits, enters = exen(outline(frames, act[i - 1]), outline(frames, act[i]), act[i])
                entered = M in enters
        if inside != (a != "-"):
            return "tick %d: frame F%d is %s the active outline, yet the auxiliary is %s" % (
                i, M, "in" if inside else "not in", "absent" if a == "-" else "running")
        if entered:
            if seg:
                segs.append(seg)
            seg = (i, [a])
        elif inside:
            seg[1].append(a)
        elif seg:
            segs.append(seg)
            seg = None
    if seg:
        segs.append(seg)
    for start, ts in segs:
        why = check_trace(aux_case, " ".join(ts), start, len(ts), "pa (entered with F%d at tick %d)" % (M, start))
        if why:
            return why
    return None


# ----------------------------------------------------------------------------- generation

def gen_lit_time(rng, period):
    P = Fraction(period)
    r = rng.randrange(10)
    if r < 5:
        v = P * rng.choice([0, 1, 1, 2, 2, 3, 4, 5, 7])            # on the grid
    elif r < 7:
        v = P * rng.choice([1, 2, 3, 5]) + rng.choice([-1, 1]) * P / rng.choice([2, 4, 8])   # off grid
    elif r < 8:
        v = Fraction(rng.choice([0, 1, 2, 3]))
    elif period in DYADIC:
        v = Fraction(rng.randrange(0, 4096), 1024)                  # binary-exact, off the tick grid
    else:
        v = Fraction(rng.randrange(0, 4000), 1000)
    if v < 0:
        v = -v
    sign = "-" if rng.random() < 0.08 and v != 0 else ""
    if v.denominator == 1 and rng.random() < 0.5:
        return sign + str(v.numerator)
    # decimal text with enough digits to be exact for k/1024 and k/1000 values
    f = float(v)
    txt = repr(f)
    if "e" in txt:
        txt = "%.12f" % f
    return sign + txt


def gen_lit_count(rng):
    r = rng.randrange(12)
    if r < 9:
        return str(rng.choice([0, 1, 1, 2, 2, 3, 4, 5]))
    if r < 10:
        return "-" + str(rng.choice([1, 2, 3]))
    return rng.choice(["2.5", "1.9", "3.0", "0.4"])


BIG = "72057594037927936"          # 2**56: adding 0.125 (or 1.0) to it changes nothing in binary64


def gen_case(rng, tier):
    period = rng.choice(PERIODS)
    stamp0 = None
    r0 = rng.random()
    if r0 < 0.07:
        period = "0.0"                  # tick period 0 ("asap"): every tick has the same store stamp
    elif r0 < 0.12:
        stamp0 = BIG                    # the period is absorbed: the store stamp never advances
        period = rng.choice(["0.125", "1.0"])
    elif r0 < 0.16:
        stamp0 = rng.choice(["1024.5", "3"])
    nfr = rng.choice([1, 2, 3, 4, 5])
    nticks = rng.choice([6, 10, 16, 24])
    frames = []
    for i in range(nfr):
        verbs = []
        style = rng.randrange(10)
        last = (i == nfr - 1)
        if style < 3 and not last:
            verbs.append(["T", gen_lit_time(rng, period)])
        elif style < 5 and not last:
            verbs.append(["R", gen_lit_count(rng)])
        else:
            for _ in range(rng.choice([1, 1, 2, 3])):
                k = rng.randrange(10)
                if k < 2 and not last:
                    verbs.append(["T", gen_lit_time(rng, period)])
                elif k < 4 and not last:
                    verbs.append(["R", gen_lit_count(rng)])
                else:
                    far = rng.choice(["me", "next"] + list(range(nfr)) * 2)
                    if far == "next" and last:
                        far = 0
                    needs = []
                    for _ in range(rng.choice([0, 1, 1, 1, 2])):
                        if rng.random() < 0.5:
                            needs.append(["E", rng.choice(["ge", "ge", "ge", "gt", "eq", "le", "lt", "ne"]), gen_lit_time(rng, period).lstrip("-")])
                        else:
                            needs.append(["C", rng.choice(["ge", "ge", "ge", "gt", "eq", "le", "lt", "ne"]), rng.choice([0, 1, 2, 3, 4, 6])])
                    verbs.append(["G", far, needs])
        frames.append(verbs)
    if rng.random() < 0.5 and nfr > 1:
        # nest: every frame but the first may stand in an earlier (or, rarely, a later) frame
        nested = []
        for i, verbs in enumerate(frames):
            over = None
            if i > 0 and rng.random() < 0.6:
                over = rng.randrange(0, i)
            nested.append({"over": over, "verbs": verbs})
        frames = nested
    case = {"period": period, "nticks": nticks, "frames": frames}
    if stamp0:
        case["stamp0"] = stamp0
    r = rng.random()
    want_paux = r >= 0.5 and rng.random() < 0.4
    if r >= 0.5 and not want_paux and rng.random() < 0.3:
        # the framer has its own period: a whole number of ticks, a non-multiple, or less than a tick
        Pf = Fraction(period)
        case["fperiod"] = repr(float(Pf * rng.choice([2, 2, 3, 4, Fraction(3, 2), Fraction(1, 2), 1])))
    if r >= 0.5 and not want_paux and rng.random() < 0.45:
        # a conditional auxiliary on a timed frame or an over frame (ordinary framer only: an original
        # auxiliary belongs to one main frame at a time)
        k = rng.randrange(nfr)
        verbs = fr_verbs(frames[k])
        cond = [rng.choice([["C", "ge", rng.choice([0, 1, 2, 3])], ["E", "ge", gen_lit_time(rng, period).lstrip("-")],
                            ["C", "eq", rng.choice([1, 2])]])]
        verbs.insert(rng.randrange(len(verbs) + 1), ["S", cond])
        helper = []
        for j in range(rng.choice([0, 1, 1, 2])):
            helper.append([rng.choice([["R", str(rng.choice([1, 2, 3, 4]))], ["T", gen_lit_time(rng, period).lstrip("-")],
                                       ["G", "next", [["C", "ge", rng.choice([1, 2])]]]])])
        helper.append([["D"]])
        case["helper"] = helper
    if r >= 0.5 and not want_paux and not case.get("helper") and not case.get("fperiod") and rng.random() < 0.35:
        # a second ordinary framer with the very same timeouts / repeats, out of phase
        case["twin"] = rng.choice([["R", "1"], ["R", "2"], ["T", repr(float(Fraction(period) * 2))], ["G", "next", []]])
    if want_paux:
        # a plain auxiliary in one frame of the timed framer, with timeouts / repeats of its own
        k = rng.choice([1, 2, 2, 3])
        pfr = []
        for i in range(k):
            verbs = []
            for _ in range(rng.choice([1, 1, 2])):
                q = rng.randrange(10)
                if q < 3 and i + 1 < k:
                    verbs.append(["T", repr(float(Fraction(period) * rng.choice([1, 2, 3]))) if rng.random() < 0.6
                                  else gen_lit_time(rng, period)])
                elif q < 6 and i + 1 < k:
                    verbs.append(["R", str(rng.choice([1, 2, 3])) if rng.random() < 0.6 else gen_lit_count(rng)])
                else:
                    needs = [rng.choice([["E", rng.choice(["ge", "gt"]), gen_lit_time(rng, period).lstrip("-")],
                                         ["C", rng.choice(["ge", "ge", "eq", "gt"]), rng.choice([1, 1, 2, 2, 3, 4])]])]
                    verbs.append(["G", rng.choice(["me"] + list(range(k))), needs if rng.random() < 0.85 else []])
            pfr.append(verbs)
        case["paux"] = {"at": rng.randrange(nfr), "frames": pfr}
    if r < 0.2:
        host = [rng.choice([1, 2, 3])] if rng.random() < 0.5 else []
        case["place"] = {"kind": "aux", "host": host, "at": rng.randrange(len(host) + 1)}
    elif r < 0.5:
        host = [rng.choice([1, 2, 3, 5])] if rng.random() < 0.6 else []
        tags = [["w1", 0]]
        if rng.random() < 0.6:
            tags.append(["w2", rng.randrange(len(host) + 1)])
        case["place"] = {"kind": "clone", "host": host, "tags": tags}
    return case


def gen_malformed(rng, tier):
    c = gen_case(rng, tier)
    r = rng.randrange(3)
    if r == 0:
        fr_verbs(c["frames"][-1]).append(["T", "1.0"])
    elif r == 1:
        fr_verbs(c["frames"][-1]).append(["R", "2"])
    else:
        fr_verbs(c["frames"][rng.randrange(len(c["frames"]))]).append(["G", len(c["frames"]) + 2, []])
    return c


class CHECK(core.Check):
    PROPERTY = "C11"
    LEAN_MODULES = ["IofloModel.Props.C11"]
    ENGINE = "floclock"
    N_QUICK = 400
    N_THOROUGH = 15000
    N_SEARCH = 1500
    RULE = ("tick periods {0.125, 0.25, 0.5, 1.0, 0.1, 0.3} plus 7% tick period 0 and 5% start stamp 2**56 (the store stamp "
            "never advances) and 4% other start stamps; 35% of the plain ordinary-framer programs add a second ordinary "
            "framer with the same timeouts / repeats one frame behind, 40% of the ordinary-framer programs instead carry a plain "
            "auxiliary `aux pa` (1-3 frames with timeouts / repeats / go of its own) in a random frame of the timed framer; x frame sequences of 1-5 flat frames x 6-24 ticks; a frame "
            "has `timeout T`, `repeat N`, or 1-3 verbs mixing timeout/repeat with `go next|me|Fk [if elapsed|recurred cmp "
            "goal [and …]]`; T on the period grid (0..7 periods), off the grid (±P/2,P/4,P/8), small integers, random "
            "millisecond values, negative literals; N in 0..5, negative, non-integer; bounded-exhaustive: every "
            "period x timeout k*P (k=0..6) and repeat 0..6 in a two-frame loop; 4% programs with a dangling far frame. "
            "non-trivial = built and the framer both stayed in a frame for a tick and left one after the start tick")
    TRUSTED = ["correspondence: generated FloScript built by ioflo's Builder and run by its Skedder; observed per tick: "
               "store stamp, active frame, elapsed share (bit pattern), recurred share; compared with the Float "
               "instantiation of the Lean model for all periods and with the exact Int instantiation (units of 2^-10 s) "
               "for binary-exact periods and literals",
               "Lean's Float = IEEE binary64 add/sub/compare = CPython float (checked by this correspondence)",
               "literal conversion Convert2Num (C17), Need.Check beyond tolerance 0 (C21), the scheduler's tick loop (C02)"]
    PARTIAL = ["model covers one framer instance at a time: nested frames, one conditional auxiliary (`aux helper if …`: outline "
               "truncated and restored, clocks untouched), its own period (Skedder retime rule), run as active framer, "
               "auxiliary framer or clone (entered at the tick its main frame is entered). For conditional-auxiliary cases "
               "the oracle is the clock law plus 'a taken transition's condition held'; the full first-condition rule is "
               "checked there by the model comparison. One plain auxiliary nested inside the timed ordinary framer (its own "
               "clocks start at every entry of its main frame; the framer's clocks are unaffected) is modelled and compared. "
               "Not modelled: plain auxiliaries combined with a conditional auxiliary, a framer period or a cloned/auxiliary "
               "timed framer; several plain auxiliaries; several / overlapping conditional auxiliaries (D3), periods of auxiliary framers (they are run by their main "
               "framer), the TypeError branch of updateTimer (store stamp None, unreachable under the Skedder); on decimal "
               "periods only the Float instantiation is compared, the exact tick formulas are proved for exact time only"]
    TECHNIQUE = "Lean 4 theorems over all programs and stamp sequences (induction on runs) + differential correspondence on generated FloScript"
    LEVEL_TEXT = ("Full proof on the model for every number type (Int and Float included), every program and every sequence "
                  "of store stamps: C11_clocks_since_outline_change (at every evaluation of transition conditions the elapsed "
                  "seen = now - stamp of the last outline change, start / transition / forced re-entry, and the recurred seen "
                  "= iterations since), C11_leaves_iff_a_condition_holds (the frame is left iff some transition's needs hold "
                  "on exactly those values, through the first such), C11_timeout_fires_first and C11_repeat_fires_first "
                  "(left at the first evaluation with elapsed >= T resp. recurred >= N, not earlier; repeat: exactly max(1,N) "
                  "iterations), C11_verbs_desugar / C11_resolved_timeout_frame (timeout v = go next if elapsed >= abs v, "
                  "repeat v = go next if recurred >= int(abs v)), C11_lone_frame_transitions and C11_outer_transition_first; "
                  "conditional auxiliaries: C11_clocks_any_decision / C11_clocks_with_conditional_aux (the clock law for the "
                  "machine with `aux helper if …`, for every decision function), C11_suspension_is_not_an_outline_change "
                  "(a tick without a taken transition - helper started, iterated or finished - keeps stamp and counts on), "
                  "C11_plain_machine_is_instance; plain auxiliaries inside the timed framer: C11_plain_aux_leaves_framer_clocks "
                  "(the framer's per-tick observations = the run of the same frames without the auxiliary, all programs / "
                  "stamp lists), C11_plain_aux_restarts_with_main_frame (any taken transition that enters the main frame, "
                  "re-entry included, puts the auxiliary in its first frame with stamp now, elapsed 0, recurred 0), "
                  "C11_plain_aux_stops_with_main_frame, C11_plain_aux_inactive_until_entered, "
                  "C11_plain_aux_is_clock_machine_from_entry (between entries the auxiliary's observations are `run` of its "
                  "own frames over the stamps since the entry, so all clock / timeout / repeat theorems apply to it); framer periods: C11_framer_period_zero, C11_framer_period_runs, "
                  "C11_framer_period_stamps (a framer of period k ticks is run exactly in the ticks divisible by k and sees "
                  "the stamps 0,kP,2kP,…); clocks that do not advance: C11_recurred_counts_iterations_any_clock (recurred "
                  "= completed iterations for ARBITRARY stamp lists, no monotonicity), C11_zero_tick_period_constant_stamp "
                  "(nested frames: the transitions of the active outline apply top down, an over frame's timeout sees the "
                  "clock that every inner transition restarts). Exact time (Int, Skedder stamps 0,P,2P,…, instance entered at any tick s, every P>0, every "
                  "T): C11_elapsed_is_k_periods, C11_timeout_tick_exact, C11_first_multiple_is_ceil (transition tick = "
                  "max(1, ceil(T/P)) after entry). No _partial theorem. Tied to the code by building and running generated "
                  "FloScript with the real Builder/Skedder at binary-exact and decimal tick periods (Float instantiation "
                  "compared bit for bit; exact instantiation on binary-exact grids).")
    LEVEL_NOTE = ("Trusted: Lean kernel; axioms propext, Classical.choice, Quot.sound; hand transcription of framing.py "
                  "(restartTimer/updateTimer/restartCounter/updateCounter, enter, segue, precur), building.py "
                  "(buildTimeout/buildRepeat), needing.py Need.Check at tolerance 0, skedding.py stamp accumulation, "
                  "validated only by the correspondence runs; Lean Float = IEEE binary64 = CPython float; one framer instance "
                  "with nested frames, run as active framer, auxiliary framer or clone (one plain auxiliary inside an ordinary timed framer; not: TypeError branch of updateTimer); the ceil(T/P) tick formula "
                  "is proved in exact time only — at decimal periods the implementation follows the Float instantiation.")

    def generate(self, rng, n, tier):
        for i in range(n):
            yield gen_malformed(rng, tier) if rng.random() < 0.04 else gen_case(rng, tier)

    def exhaustive(self, tier):
        out = []
        # a clock that does not advance: tick period 0, and a start stamp that absorbs the period
        for k in range(7):
            for extra in ({"period": "0.0"}, {"period": "0.125", "stamp0": BIG}, {"period": "1.0", "stamp0": BIG}, {"period": "0.0", "stamp0": "5"}):
                out.append(dict({"nticks": 12, "frames": [[["R", str(k)]], [["G", 0, []]]], "origin": "exhaustive"}, **extra))
                out.append(dict({"nticks": 12, "frames": [[["T", "0.0"]], [["R", str(k)]], [["G", 0, []]]], "origin": "exhaustive"}, **extra))
        for period in PERIODS:
            P = Fraction(period)
            for k in range(7):
                T = P * k
                txt = repr(float(T))
                out.append({"period": period, "nticks": 12, "frames": [[["T", txt]], [["G", 0, []]]], "origin": "exhaustive"})
                out.append({"period": period, "nticks": 12, "frames": [[["R", str(k)]], [["G", 0, []]]], "origin": "exhaustive"})
                # the same timeout / repeat on an over frame whose two under frames hand over every second tick:
                # the framer clock restarts at every hand-over
                out.append({"period": period, "nticks": 12, "origin": "exhaustive", "frames": [
                    {"over": None, "verbs": [["T", txt]]}, {"over": 0, "verbs": [["R", "2"]]},
                    {"over": 0, "verbs": [["G", 1, [["C", "ge", 2]]]]}, {"over": None, "verbs": [["G", 0, []]]}]})
                # the same two frames run as an auxiliary framer and as two clones of a moot framer (the second
                # clone is entered three ticks later): every instance has its own clocks
                for place in ({"kind": "aux", "host": [], "at": 0},
                              {"kind": "clone", "host": [3], "tags": [["w1", 0], ["w2", 1]]}):
                    out.append({"period": period, "nticks": 12, "frames": [[["T", txt]], [["G", 0, []]]], "place": place, "origin": "exhaustive"})
                    out.append({"period": period, "nticks": 12, "frames": [[["R", str(k)]], [["G", 0, []]]], "place": place, "origin": "exhaustive"})
                # a conditional auxiliary (`aux helper if recurred >= 2`; the helper runs 3 ticks) on the timed frame,
                # before and after the timeout / repeat line, and on the over frame of the timed frame: the clocks
                # must run through the suspension
                hp = [[["R", "3"]], [["D"]]]
                sv = ["S", [["C", "ge", 2]]]
                for verb in (["T", txt], ["R", str(k)]):
                    out.append({"period": period, "nticks": 14, "frames": [[sv, verb], [["G", 0, []]]], "helper": hp, "origin": "exhaustive"})
                    out.append({"period": period, "nticks": 14, "frames": [[verb, sv], [["G", 0, []]]], "helper": hp, "origin": "exhaustive"})
                    out.append({"period": period, "nticks": 14, "helper": hp, "origin": "exhaustive", "frames": [
                        {"over": None, "verbs": [sv]}, {"over": 0, "verbs": [verb]}, {"over": None, "verbs": [["G", 0, []]]}]})
                    out.append({"period": period, "nticks": 14, "helper": hp, "origin": "exhaustive", "frames": [
                        {"over": None, "verbs": [verb]}, {"over": 0, "verbs": [sv]}, {"over": None, "verbs": [["G", 0, []]]}]})
                # a second ordinary framer with the same timeout / repeat, one or two ticks behind
                for tw in (["R", "1"], ["R", "2"]):
                    out.append({"period": period, "nticks": 12, "twin": tw, "frames": [[["T", txt]], [["G", 0, []]]], "origin": "exhaustive"})
                    out.append({"period": period, "nticks": 12, "twin": tw, "frames": [[["R", str(k)]], [["G", 0, []]]], "origin": "exhaustive"})
                # the framer has its own period of 2 or 3 ticks (and 1.5 ticks): it is run, and counts, only then
                for mult in (2, 3, Fraction(3, 2)):
                    fq = repr(float(P * mult))
                    out.append({"period": period, "nticks": 14, "fperiod": fq, "frames": [[["T", txt]], [["G", 0, []]]], "origin": "exhaustive"})
                    out.append({"period": period, "nticks": 14, "fperiod": fq, "frames": [[["R", str(k)]], [["G", 0, []]]], "origin": "exhaustive"})
                # a plain auxiliary with the timeout / repeat inside the timed framer: in a frame that is re-entered
                # every 6 iterations (the auxiliary's clocks restart with it, the framer's own do not depend on it),
                # and in an over frame whose under frames hand over every second tick (the auxiliary runs on)
                for verb in (["T", txt], ["R", str(k)]):
                    pa = [[verb], [["G", 0, []]]]
                    out.append({"period": period, "nticks": 16, "origin": "exhaustive", "paux": {"at": 1, "frames": pa},
                                "frames": [[["G", "next", [["C", "ge", 1]]]], [["G", "me", [["C", "ge", 6]]]]]})
                    out.append({"period": period, "nticks": 16, "origin": "exhaustive", "paux": {"at": 0, "frames": pa}, "frames": [
                        {"over": None, "verbs": [["G", 3, [["C", "ge", 9]]]]}, {"over": 0, "verbs": [["G", 2, [["C", "ge", 2]]]]},
                        {"over": 0, "verbs": [["G", 1, [["C", "ge", 2]]]]}, {"over": None, "verbs": [["G", 0, []]]}]})
                if tier == "thorough":
                    for d in (2, 4, 8):
                        for sg in (-1, 1):
                            T2 = T + sg * P / d
                            if T2 >= 0:
                                out.append({"period": period, "nticks": 12, "origin": "exhaustive",
                                            "frames": [[["G", "next", []]], [["T", repr(float(T2))]], [["G", 1, []]]]})
        return out

    def requests(self, case):
        reqs = []
        for name, start, count, icase in instances(case):   # the model's clocks are per framer instance
            reqs.append(drv_line(icase, "f", start, count))
            if exact_ok(case):
                reqs.append(drv_line(icase, "i", start, count))
        return reqs

    def impl(self, case):
        text = flo_script(case)
        insts = instances(case)
        per = 2 if exact_ok(case) else 1
        sk = flob.build(text, float(case["period"]), stamp=float(num(case["stamp0"])) if case.get("stamp0") else 0.0)
        if sk is None:
            return ["ERR build"] * (per * len(insts))
        store = sk.houses[0].store
        watch = []
        for name, start, count, _ic in insts:
            fr = flob.framer_of(sk, name)
            if fr is None:
                return ["ERR no framer %s" % name] * (per * len(insts))
            watch.append((fr, store.fetch("framer.%s.state.elapsed" % name), store.fetch("framer.%s.state.recurred" % name), []))

        pa = None
        if case.get("paux"):
            fr = flob.framer_of(sk, "pa")
            if fr is None:
                return ["ERR no framer pa"] * (per * len(insts))
            pa = (fr, store.fetch("framer.pa.state.elapsed"), store.fetch("framer.pa.state.recurred"), [])
        ents = {}

        def entered(name):
            ents[name] = ents.get(name, 0) + 1

        def observe(st):
            for fr, el, rc, rows in watch:
                if fr.active is not None:                   # an aux / clone is only there while its main frame is
                    rows.append((int(fr.active.name[1:]), ents.get(fr.name, 0) > 0, el.value, rc.value, st.stamp))
            if pa:
                fr, el, rc, rows = pa
                rows.append((int(fr.active.name[1:]), ents.get("pa", 0) > 0, el.value, rc.value, st.stamp)
                            if fr.active is not None else None)
            ents.clear()
        flob.run(sk, obs=observe, nticks=case["nticks"], ent=entered)

        def units(x):
            f = Fraction(x) * Q
            return str(int(f)) if f.denominator == 1 else "inexact(%r)" % x
        out = []
        if pa:
            # one line, both framers per tick: `<timed framer>/<auxiliary or ->`
            main_rows, aux_rows = watch[0][3], pa[3]
            for conv in ([bits, units] if per == 2 else [bits]):
                tok = lambda row: "-" if row is None else "%d%s:%s:%d:%s" % (row[0], "*" if row[1] else ".", conv(row[2]), row[3], conv(row[4]))
                out.append(" ".join(tok(m) + "/" + tok(a) for m, a in zip(main_rows, aux_rows)))
            return out
        for fr, el, rc, rows in watch:
            out.append(" ".join("%d%s:%s:%d:%s" % (a, "*" if e else ".", bits(x), r, bits(now)) for a, e, x, r, now in rows))
            if per == 2:
                out.append(" ".join("%d%s:%s:%d:%s" % (a, "*" if e else ".", units(x), r, units(now)) for a, e, x, r, now in rows))
        return out

    def oracle(self, case, out):
        if not out:
            return "no trace"
        if out[0].startswith("HARNESS-EXC"):
            return "implementation raised: " + out[0]
        per = 2 if exact_ok(case) else 1
        insts = instances(case)
        if len(out) != per * len(insts):
            return "expected traces of %d instances, got %d lines" % (len(insts), len(out))
        if case.get("paux"):
            return check_plain_aux(case, out[0])
        for k, (name, start, count, icase) in enumerate(insts):      # the property holds for every instance
            why = check_trace(icase, out[k * per], start, count, name)
            if why:
                return why
        return None

    def nontrivial(self, case, out):
        if not out or out[0].startswith(("ERR", "HARNESS")):
            return False
        per = 2 if exact_ok(case) else 1
        heads = [t.split(":")[0] for line in out[::per] for t in line.split()[1:]]
        return any(h.endswith("*") for h in heads) and any(h.endswith(".") for h in heads)

    def bucket(self, case, out):
        if out and out[0] == "ERR build":
            return "build-error"
        kinds = set(v[0] for f in case["frames"] for v in fr_verbs(f) if v[0] != "S")
        k = "+".join(sorted({"T": "timeout", "R": "repeat", "G": "go"}[x] for x in kinds))
        nested = any(fr_over(f) is not None for f in case["frames"])
        place = (case.get("place") or {"kind": "active"})["kind"]
        return "%s,P=%s%s%s%s%s%s,%s" % (k, case["period"], ",nested" if nested else "", ",cond-aux" if has_susp(case) else "",
                                         ",framer-period" if case.get("fperiod") else "", ",twin" if case.get("twin") else "",
                                         ",stuck-clock" if case["period"] == "0.0" or case.get("stamp0") == BIG else "",
                                         place + (",plain-aux" if case.get("paux") else ""))

    def shrink_candidates(self, case):
        def clone():
            return json.loads(json.dumps(case))
        if case["nticks"] > 2:
            c = clone(); c["nticks"] -= 1; yield c
        if case.get("fperiod"):
            c = clone(); c.pop("fperiod"); yield c
        if case.get("twin"):
            c = clone(); c.pop("twin"); yield c
        if case.get("paux"):
            c = clone(); c.pop("paux"); yield c
            pf = case["paux"]["frames"]
            for i, f in enumerate(pf):
                for j in range(len(f)):
                    if len(f) > 1:
                        c = clone(); del c["paux"]["frames"][i][j]; yield c
            if len(pf) > 1 and not any(v[0] == "G" and v[1] == len(pf) - 1 for f in pf for v in f):
                c = clone(); c["paux"]["frames"].pop()
                if not bad_build(c):
                    yield c
        if case.get("stamp0") and case["stamp0"] != BIG:
            c = clone(); c.pop("stamp0"); yield c
        if has_susp(case):
            c = clone()
            for f in c["frames"]:
                fr_verbs(f)[:] = [v for v in fr_verbs(f) if v[0] != "S"]
            c.pop("helper", None)
            if all(fr_verbs(f) for f in c["frames"]) or True:
                yield c
            if len(case["helper"]) > 1:
                c = clone(); del c["helper"][0]
                if not bad_build(c):
                    yield c
        pl = case.get("place")
        if pl and pl["kind"] == "clone" and len(pl["tags"]) > 1:
            c = clone(); c["place"]["tags"].pop(); yield c
        if pl and pl.get("host"):
            c = clone(); c["place"]["host"] = []
            if "at" in c["place"]:
                c["place"]["at"] = 0
            for t in c["place"].get("tags", []):
                t[1] = 0
            yield c
        for i, f in enumerate(case["frames"]):
            verbs = fr_verbs(f)
            if fr_over(f) is not None:
                c = clone(); c["frames"][i]["over"] = None; yield c
            for j in range(len(verbs)):
                if len(verbs) > 1:
                    c = clone(); del fr_verbs(c["frames"][i])[j]; yield c
                v = verbs[j]
                if v[0] == "G":
                    for k in range(len(v[2])):
                        c = clone(); del fr_verbs(c["frames"][i])[j][2][k]; yield c
        if len(case["frames"]) > 1:
            # drop the last frame when nothing refers to it
            n = len(case["frames"]) - 1
            if not any((v[0] == "G" and v[1] == n) for f in case["frames"] for v in fr_verbs(f)) \
                    and not any(fr_over(f) == n for f in case["frames"]):
                c = clone(); c["frames"].pop()
                if not bad_build(c):
                    yield c
