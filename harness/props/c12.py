"""C12 — cloned framers run like their originals and never share relative state; rear / raze.

Lemmas    lean/IofloModel/Lemmas/Clones.lean, ClonesLeaf.lean (name-free stand-alone interpreter + refinement proof),
          ClonesTree.lean (the same for trees of framers: a framer with auxiliaries below it to any depth, by
          induction over the Ops level),
          ClonesRaze.lean (exact effect of raze / rear)
Model     lean/IofloModel/Model/Clones.lean   (Framer.clone / Frame.clone / Act.clone, Framer.resolveMoots, newMootTag /
          newAuxTag, House.presolvePresolvables / resolveResolvables, Frame.resolveAuxLinks, Rearer / Razer / Framer.prune,
          the framer core that drives the clones: enterAll / exitAll / segue / recur / Transiter, and Act.resolvePath via
          Model/ResolvePath.lean of C13)
Theorems  lean/IofloModel/Props/C12.lean
Tree      /repo with fixes/D12a-prune-nested-named-clones.patch and fixes/D12b-prune-exits-entered-clone.patch applied
          (commits d39dc00, c9b68e2)
Tie       generated programs (hosts that clone moot framers under named tags, `mine`, several `via` inodes; moots that
          clone / rear / raze later moots; rear and raze at arbitrary ticks) are written as FloScript, built by the REAL
          Builder and run by the REAL Skedder; observation through two doify deeds (a recorder and an end-of-tick
          observer that reads the live objects).  The Lean driver interprets the same program; the full output (build
          dump of every framer object, resolved share of every reference, per tick events, live framer tree, name
          registry, final store) must be equal.
Oracle    the property, on the implementation only (no Lean):
  O1 alone      for every clone clause `aux M as T` of a host the program is rebuilt with a textual copy of M declared as
                an ordinary auxiliary framer in place of that clone; the events of the clone (and of everything below it)
                must equal the events of the copy with the name prefix substituted, and so must the values of all shares
                below `framer.<name>`; everything else in the run must be unchanged.
  O2 disjoint   every framer-, frame- or actor-relative reference of every live framer object resolves to the path the
                original's text gives with the framer's own name substituted, and no two live framer objects resolve a
                relative reference to the same share.
  O3 raze       (also: a razed framer object keeps no clone in its frames' aux lists or in its `.auxes`)
                a framer object leaves a frame's aux list only if it is an insular razeable clone (or hangs below one that
                left); from then on it produces no event, its name and the names of everything below it are no longer
                registered, and every frame of it that was entered has been exited.  A later `rear` may reuse the name.
  O5 kinds      in every act list of every frame of every clone the acts have the classes (Act, Nact, …) of the acts of
                the original's frame.
  O4 reared     the events of a reared clone whose main frame was entered once are a prefix (then exits only) of the
                events of the original run as an ordinary auxiliary that is never left.
"""
import json, copy, re
import core, flob

# ----------------------------------------------------------------------------- program AST
CTXS = ["enter", "recur", "exit", "precur", "renter", "rexit"]
OPS = ["==", "!=", "<", "<=", ">=", ">"]
OBS = "zzobs"          # the observer framer (not part of the program proper)


def relpath(ref):
    """the relative path Builder.parseIndirect gives for the clause (C13 ties parseIndirect itself)"""
    p, rel = ref["p"], ref["rel"]
    if rel == "framer":
        return "framer.me." + p
    if rel == "frame":
        return "framer.me.frame.me." + p
    if rel == "me":
        return "me." + p
    if rel == "abs":
        return "." + p
    if rel == "fmain":
        return "framer.main." + p
    if rel == "frmain":
        return "framer.main.frame.main." + p
    return p


def ref_text(ref):
    p, rel = ref["p"], ref["rel"]
    if rel == "framer":
        return p + " of framer"
    if rel == "frame":
        return p + " of frame"
    if rel == "me":
        return p + " of me"
    if rel == "abs":
        return "." + p
    if rel == "fmain":
        return p + " of framer main"
    if rel == "frmain":
        return p + " of frame main"
    return p


def need_text(n):
    k = n["k"]
    if k == "el":
        s = "elapsed %s %d" % (n["op"], n["v"])
    elif k == "re":
        s = "recurred %s %d" % (n["op"], n["v"])
    elif k == "sh":
        s = "%s %s %d" % (ref_text(n["ref"]), n["op"], n["v"])
    elif k == "all":
        s = "all is done"
    elif k == "any":
        s = "any is done"
    else:
        s = "aux %s is done" % n["tag"]
    return ("not " if n.get("neg") else "") + s


def act_text(a):
    k = a["k"]
    if k == "rec":
        return 'do ck rec with tag "%s"' % a["tag"]
    if k == "io":
        return 'do ck io per val "framer.me.actor.me.n"'
    if k == "put":
        return "put %d into %s" % (a["v"], ref_text(a["ref"]))
    if k == "inc":
        return "inc %s with %d" % (ref_text(a["ref"]), a["v"])
    if k == "done":
        return "done me"
    if k == "rear":
        return "rear %s as mine be aux in frame %s" % (a["of"], a["frame"])
    if k == "raze":
        return "raze %s" % a["who"] + ("" if a["frame"] is None else " in frame %s" % a["frame"])
    raise ValueError(k)


def render(prog, observer=True):
    L = []
    house = None
    for fr in prog["framers"]:
        if fr.get("house", "verif") != house:
            house = fr.get("house", "verif")
            L += ["house %s" % house, ""]
        line = "framer %s be %s" % (fr["name"], fr["sched"])
        if fr.get("first"):
            line += " first %s" % fr["first"]
        if fr.get("via"):
            line += " via %s" % fr["via"]
        L.append(line)
        for f in fr["frames"]:
            line = "  frame %s" % f["name"]
            if f.get("over"):
                line += " in %s" % f["over"]
            if f.get("via"):
                line += " via %s" % f["via"]
            L.append(line)
            for it in f["items"]:
                t = it["t"]
                if t == "aux":
                    line = "    aux %s" % it["of"]
                    if it.get("as"):
                        line += " as %s" % it["as"]
                    if it.get("via"):
                        line += " via %s" % it["via"]
                    L.append(line)
                elif t == "under":
                    L.append("    under %s" % it["frame"])
                elif t == "let":
                    L.append("    let %sif %s" % ("me " if it.get("me") else "", " and ".join(need_text(n) for n in it["needs"])))
                elif t == "go":
                    line = "    go %s" % it["far"]
                    if it["needs"]:
                        line += " if " + " and ".join(need_text(n) for n in it["needs"])
                    L.append(line)
                else:
                    L.append("    " + it["ctx"])
                    L.append("      " + act_text(it["a"]))
                    L.append("    native")
        L.append("")
    if observer:
        L += ["framer %s be active in back first z" % OBS, "  frame z", "    recur", "      do ck obs", ""]
    return "\n".join(L)


# ----------------------------------------------------------------------------- real run
_ready = [False]
RUN = {"log": None, "obs": None, "who": None}     # "who": the framer object of every event, for the oracle only


def setup():
    if _ready[0]:
        return
    flob.setup()
    from ioflo.base import doing

    @doing.doify('CkRec')
    def ckrec(self, tag="", **kw):
        fr = self._act.frame
        RUN["log"].append("E %s %s %s %s" % (fr.framer.name, fr.name, self._act.context, tag))
        RUN["who"].append(fr.framer)

    @doing.doify('CkIo')
    def ckio(self, **kw):
        fr = self._act.frame
        v = self.val.value
        v = 1 if v is None else v + 1
        self.val.value = v
        RUN["log"].append("E %s %s %s io=%d" % (fr.framer.name, fr.name, self._act.context, v))
        RUN["who"].append(fr.framer)

    @doing.doify('CkObs')
    def ckobs(self, **kw):
        RUN["obs"](self.store)
    _ready[0] = True


def enc(s):
    return "~" if s is None else "-" if s == "" else str(s)


def act_objects(frame):
    """the real Act objects of a frame by context, in list order"""
    return {"benter": frame.beacts, "enter": frame.enacts, "recur": frame.reacts, "exit": frame.exacts, "precur": frame.preacts,
            "renter": frame.renacts, "rexit": frame.rexacts}


def share_name(x):
    return getattr(x, "name", None)


def ref_shares(fdef, frame):
    """[(item index, sub index, ref, resolved share name)] for every reference of the frame's items"""
    out = []
    seen = {c: 0 for c in CTXS + ["benter"]}
    objs = act_objects(frame)
    for i, it in enumerate(fdef["items"]):
        if it["t"] in ("aux", "under"):
            continue
        if it["t"] == "let":
            # every need of a `let` is an act of its own in frame.beacts (an Nact when negated)
            for j, n in enumerate(it["needs"]):
                k = seen["benter"]
                seen["benter"] += 1
                if k >= len(objs["benter"]):
                    out.append((i, j, {"p": "?", "rel": "framer"}, None))
                    continue
                act = objs["benter"][k]
                if n["k"] == "sh":
                    out.append((i, j, n["ref"], share_name(act.parms["state"])))
                elif n["k"] in ("el", "re"):
                    what = "elapsed" if n["k"] == "el" else "recurred"
                    out.append((i, j, {"p": "state." + what, "rel": "framer"}, share_name(act.parms["state"])))
            continue
        ctx = "precur" if it["t"] == "go" else it["ctx"]
        lst = objs[ctx]
        # Suspender / marker acts are never generated, so the positions of the AST items and of the act lists agree
        if seen[ctx] >= len(lst):          # the act list is shorter than the script says: reported by the oracle
            out.append((i, 0, {"p": "?", "rel": "framer"}, None))
            continue
        act = lst[seen[ctx]]
        seen[ctx] += 1
        if it["t"] == "go":
            for j, n in enumerate(it["needs"]):
                if n["k"] == "sh":
                    out.append((i, j, n["ref"], share_name(act.parms["needs"][j].parms["state"])))
                elif n["k"] in ("el", "re"):
                    what = "elapsed" if n["k"] == "el" else "recurred"
                    out.append((i, j, {"p": "state." + what, "rel": "framer"},
                                share_name(act.parms["needs"][j].parms["state"])))
        else:
            a = it["a"]
            if a["k"] in ("put", "inc"):
                out.append((i, 0, a["ref"], share_name(act.parms["destination"])))
            elif a["k"] == "io":
                out.append((i, 0, {"p": "actor.ck.io.n", "rel": "framer"}, share_name(act.actor.val)))
    return out


class Observer:
    """end-of-tick observer: reads the live objects (no hooks in /repo)"""

    def __init__(self, sk, prog, ticks):
        self.sk, self.prog, self.ticks = sk, prog, ticks
        self.count = 0
        self.seen = []          # framer objects already announced (strong refs: ids stay unique)
        self.defs = {fr["name"]: fr for fr in prog["framers"]}
        self.origin = {}        # id(framer object) -> name of the framer definition it was copied from
        self.out = []
        self.paths = []         # (framer name, uid, frame, item, sub, ref, share name) for O2
        self.snaps = []         # per tick: {"auxes": {(framer uid, frame): [uid…]}, "names": set, "live": {uid: name}}
        self.info = {}          # uid -> dict(name, tag, insular, razeable, original, def)
        self.who = []           # per tick: the framer object of every event of that tick
        self.err_msg = ""       # text of a run-time exception, for the oracle only
        self.classes = []       # O5: act lists of a clone whose act classes differ from the original's

    def taskables(self):
        return [t for house in self.sk.houses for t in house.taskables]

    def definition_of(self, framer):
        """which definition a live framer object was made from: itself, or (clone) found through its main framer"""
        k = id(framer)
        if k in self.origin:
            return self.origin[k]
        if framer.name in self.defs and framer.original:
            self.origin[k] = framer.name
            return framer.name
        # a clone: its main framer's definition names the original in an aux clause with this tag, or rears it
        mainer = framer.main.framer
        mdef = self.defs[self.definition_of(mainer)]
        found = None
        for f in mdef["frames"]:
            for it in f["items"]:
                if it["t"] == "aux" and it.get("as") and f["name"] == framer.main.name:
                    tag = it["as"]
                    if tag == framer.tag or (tag == "mine" and framer.insular and not framer.razeable
                                             and framer.tag.rstrip("0123456789") == it["of"]):
                        found = it["of"]
                if it["t"] == "act" and it["a"]["k"] == "rear" and framer.razeable \
                        and it["a"]["frame"] == framer.main.name and framer.tag.rstrip("0123456789") == it["a"]["of"]:
                    found = found or it["a"]["of"]
        self.origin[k] = found
        return found

    def walk(self):
        """live framer objects reachable from the taskables, depth first, in list orders"""
        order = []

        def visit(fr):
            order.append(fr)
            for frame in fr.frameNames.values():
                for aux in frame.auxes:
                    if hasattr(aux, "frameNames"):
                        visit(aux)
        for t in self.taskables():
            if t.name != OBS:
                visit(t)
        return order

    def uid(self, fr):
        for i, x in enumerate(self.seen):
            if x is fr:
                return i
        self.seen.append(fr)
        return len(self.seen) - 1

    def announce(self, fr, out):
        u = self.uid(fr)
        dname = self.definition_of(fr)
        self.info[u] = {"name": fr.name, "house": fr.store.house.name, "tag": fr.tag, "insular": bool(fr.insular), "razeable": bool(fr.razeable),
                        "original": bool(fr.original), "def": dname}
        main = "~" if fr.main is None else "%s/%s" % (fr.main.framer.name, fr.main.name)
        out.append("F %s house=%s tag=%s o=%d i=%d r=%d main=%s inode=%s first=%s" % (
            fr.name, fr.store.house.name, fr.tag, fr.original, fr.insular, fr.razeable, main, enc(fr.inode),
            fr.first.name if hasattr(fr.first, "name") else enc(fr.first)))
        fdefs = {f["name"]: f for f in self.defs[dname]["frames"]} if dname else {}
        if dname and not fr.original:
            orig = fr.store.house.names["tasker"].get(dname)
            if orig is not None:
                for frame in fr.frameNames.values():
                    oframe = orig.frameNames.get(frame.name)
                    if oframe is None:
                        self.classes.append("clone %s has a frame %s its original %s has not" % (fr.name, frame.name, dname))
                        continue
                    for ctx, lst in act_objects(frame).items():
                        mine = [type(a).__name__ for a in lst]
                        theirs = [type(a).__name__ for a in act_objects(oframe)[ctx]]
                        if mine != theirs:
                            self.classes.append("clone %s frame %s: the %s acts are %s, those of its original %s are %s" % (
                                fr.name, frame.name, ctx, mine, dname, theirs))
        for frame in fr.frameNames.values():
            out.append("R %s %s over=%s out=%s" % (fr.name, frame.name, frame.over.name if frame.over else "~",
                                                    ">".join(x.name for x in frame.outline)))
            if frame.name in fdefs:
                for (i, j, ref, sname) in ref_shares(fdefs[frame.name], frame):
                    out.append("P %s %s %d %d %s" % (fr.name, frame.name, i, j,
                                                     "~" if sname is None else "%s/%s" % (fr.store.house.name, sname.strip("."))))
                    mainf = (fr.main.framer.name, fr.main.name) if fr.main is not None else None
                    self.paths.append((fr.name, u, frame.name, i, j, ref, sname, mainf))

    def snapshot(self, out):
        live = self.walk()
        for fr in live:
            if not any(fr is x for x in self.seen):
                self.announce(fr, out)
        snap = {"auxes": {}, "names": None, "live": {}}
        for fr in live:
            u = self.uid(fr)
            snap["live"][u] = fr.name
            out.append("S %s active=%s done=%d actives=%s" % (
                fr.name, fr.active.name if fr.active else "~", bool(fr.done), ">".join(x.name for x in fr.actives) or "~"))
            for frame in fr.frameNames.values():
                if frame.auxes:
                    out.append("X %s %s %s" % (fr.name, frame.name, ",".join(a.name for a in frame.auxes)))
                snap["auxes"][(u, frame.name)] = [self.uid(a) for a in frame.auxes]
        snap["names"] = {}
        for house in self.sk.houses:
            names = sorted(n for n in house.names["tasker"].keys() if n != OBS)
            snap["names"][house.name] = set(names)
            out.append("N %s %s" % (house.name, ",".join(names)))
        self.snaps.append(snap)

    def __call__(self, store):
        from ioflo.base.globaling import STOP
        out = self.out
        out.extend(RUN["log"])
        del RUN["log"][:]
        self.who.append(list(RUN["who"]))
        del RUN["who"][:]
        self.snapshot(out)
        out.append("T %d" % self.count)
        self.count += 1
        if self.count >= self.ticks:
            for tasker in self.taskables():
                tasker.desire = STOP


SKIP_TOP = ("meta", "time", "realtime", "datetime", "ioflo")


def store_dump(store, hname):
    """`V <house>/<share> value=<int>` for every share with a numeric `value` field (sorted)"""
    from ioflo.base import storing
    rows = []

    def emit(name, share):
        if name.startswith("framer." + OBS + "."):
            return
        try:
            v = share["value"] if "value" in share else None
        except Exception:
            v = None
        if isinstance(v, bool) or not isinstance(v, (int, float)):
            return
        rows.append("V %s/%s value=%s" % (hname, name, ("%d" % v) if v == int(v) else repr(v)))

    def walk(node, pre):
        for k, v in node.items():
            if isinstance(v, storing.Share):
                emit(pre + k, v)
            else:
                walk(v, pre + k + ".")
    for k, v in store.shares.items():
        if k in SKIP_TOP:
            continue
        if isinstance(v, storing.Share):
            emit(k, v)
        else:
            walk(v, k + ".")
    return sorted(rows)


_run_cache = {}


def run_real(prog):
    """-> (lines, observer or None).  Lines: BUILD …, then per tick events / announcements / snapshot, then the store"""
    key = json.dumps(prog, sort_keys=True)
    if key in _run_cache:
        return _run_cache[key]
    setup()
    text = render(prog)
    sk = flob.build(text, 1.0, name="c12.flo")
    if sk is None:
        res = (["BUILD ERR %s" % flob.HOOKS.get("build_error")], None)
    else:
        obs = Observer(sk, prog, prog["ticks"])
        RUN["log"] = []
        RUN["who"] = []
        RUN["obs"] = obs
        lines = ["BUILD ok"]
        obs.snapshot(lines)          # the build dump: every framer object reachable before the first tick
        obs.snaps.pop()
        obs.out = lines
        err = None
        try:
            with flob.time_limit(60):
                sk.run()
        except core.HarnessTimeout:
            raise
        except Exception as ex:
            err = type(ex).__name__
            obs.err_msg = str(ex)
        lines.extend(RUN["log"])
        del RUN["log"][:]
        obs.who.append(list(RUN["who"]))
        del RUN["who"][:]
        if err:
            lines.append("ERR %s" % err)
        else:
            lines.append("END")
            lines.extend(sorted(l for house in sk.houses for l in store_dump(house.store, house.name)))
        res = (lines, obs)
    if len(_run_cache) > 200:
        _run_cache.clear()
    _run_cache[key] = res
    return res


# ----------------------------------------------------------------------------- request for the Lean driver
def enc_need(n):
    neg = "1" if n.get("neg") else "0"
    k = n["k"]
    if k == "el":
        return [neg, "st", "framer.me.state.elapsed", n["op"], str(n["v"])]
    if k == "re":
        return [neg, "st", "framer.me.state.recurred", n["op"], str(n["v"])]
    if k == "sh":
        return [neg, "st", relpath(n["ref"]), n["op"], str(n["v"])]
    if k in ("all", "any"):
        return [neg, k]
    return [neg, "aux", n["tag"]]


def enc_act(a):
    k = a["k"]
    if k == "rec":
        return ["rec", a["tag"]]
    if k == "io":
        return ["io", "framer.me.actor.me.n"]
    if k == "put":
        return ["put", str(a["v"]), relpath(a["ref"])]
    if k == "inc":
        return ["inc", relpath(a["ref"]), str(a["v"])]
    if k == "done":
        return ["done"]
    if k == "rear":
        return ["rear", a["of"], a["frame"]]
    return ["raze", a["who"], a["frame"] or "me"]


def encode(prog):
    t = ["run", str(prog["ticks"]), str(len(prog["framers"]))]
    for fr in prog["framers"]:
        t += ["F", fr.get("house", "verif"), fr["name"], fr["sched"], enc(fr.get("first")), enc(fr.get("via") or ""), str(len(fr["frames"]))]
        for f in fr["frames"]:
            t += ["R", f["name"], enc(f.get("over")), enc(f.get("via") or ""), str(len(f["items"]))]
            for it in f["items"]:
                if it["t"] == "aux":
                    t += ["x", it["of"], enc(it.get("as")), enc(it.get("via") or "")]
                elif it["t"] == "under":
                    t += ["u", it["frame"]]
                elif it["t"] == "let":
                    t += ["l", str(len(it["needs"]))]
                    for n in it["needs"]:
                        t += enc_need(n)
                elif it["t"] == "go":
                    t += ["g", it["far"], str(len(it["needs"]))]
                    for n in it["needs"]:
                        t += enc_need(n)
                else:
                    t += ["a", it["ctx"]] + enc_act(it["a"])
    return " ".join(t)


# ----------------------------------------------------------------------------- generator
def rec_item(ctx, tag):
    return {"t": "act", "ctx": ctx, "a": {"k": "rec", "tag": tag}}


def base_items():
    return [rec_item("enter", "e"), rec_item("recur", "r"), rec_item("exit", "x")]


def act_item(ctx, a):
    return {"t": "act", "ctx": ctx, "a": a}


R_CNT = {"p": "cnt", "rel": "framer"}
R_LIM = {"p": "lim", "rel": "frame"}
WREFS = [{"p": "x", "rel": "none"}, {"p": "y", "rel": "me"}, {"p": "g.z", "rel": "abs"}, {"p": "w", "rel": "framer"},
         {"p": "v", "rel": "frame"}, {"p": "d.deep", "rel": "none"}]
MOOTS = ["ma", "mb", "mc"]
VIAS_FRAMER = [None, None, "ina", "inb.deep"]
VIAS_FRAME = [None, None, None, "fin"]
VIAS_CLONE = [None, None, "mine", "zed", "yy.deep"]


def gen_need(rng, fr_tags, has_aux, counted, shared_reads):
    r = rng.random()
    if r < 0.35:
        n = {"k": "re", "op": rng.choice([">=", ">=", ">", "=="]), "v": rng.choice([1, 1, 2, 3])}
    elif r < 0.5:
        n = {"k": "el", "op": rng.choice([">=", ">=", ">"]), "v": rng.choice([1, 2, 3])}
    elif r < 0.65 and counted:
        n = {"k": "sh", "ref": dict(R_CNT), "op": rng.choice([">=", ">=", "==", ">"]), "v": rng.choice([1, 2, 3])}
    elif r < 0.8 and has_aux:
        n = {"k": rng.choice(["all", "all", "any"])}
    elif r < 0.9 and fr_tags:
        n = {"k": "aux", "tag": rng.choice(fr_tags)}
    elif shared_reads:
        n = {"k": "sh", "ref": {"p": "x", "rel": "none"}, "op": "==", "v": rng.choice([1, 2])}
    else:
        n = {"k": "re", "op": ">=", "v": rng.choice([1, 2])}
    if rng.random() < 0.1:
        n["neg"] = True
    return n


def gen_entry_need(rng, fr_tags, counted):
    """an entry condition: plain or negated; framer clocks, framer- / frame-relative shares (== / != only: the share may
    still hold None), done-state of auxiliaries"""
    r = rng.random()
    if r < 0.3:
        n = {"k": rng.choice(["re", "el"]), "op": rng.choice([">=", "<", "==", "!="]), "v": rng.choice([0, 1, 2])}
    elif r < 0.6 and counted:
        n = {"k": "sh", "ref": dict(R_CNT), "op": rng.choice(["==", "!="]), "v": rng.choice([0, 1, 2])}
    elif r < 0.75:
        n = {"k": "sh", "ref": dict(R_LIM), "op": rng.choice(["==", "!="]), "v": rng.choice([0, 1])}
    elif r < 0.85 and fr_tags:
        n = {"k": "aux", "tag": rng.choice(fr_tags)}
    elif r < 0.93:
        n = {"k": rng.choice(["all", "any"])}
    else:
        n = {"k": "sh", "ref": {"p": "g.z", "rel": "abs"}, "op": "!=", "v": 7}
    if rng.random() < 0.5:
        n["neg"] = True
    return n


def gen_body(rng, name, letter, later, is_host, shared_reads, force_clone=False):
    """frames of one framer.  `later` = moots this framer may clone / rear"""
    nfr = rng.choice([2, 3, 3, 4]) if is_host else rng.choice([1, 2, 2, 3])
    nested = is_host or rng.random() < 0.3
    frames = []
    if nested:
        frames.append({"name": letter + "top", "over": None, "via": rng.choice(VIAS_FRAME), "items": base_items()})
    kids = []
    for k in range(nfr):
        f = {"name": "%s%d" % (letter, k), "over": (letter + "top") if nested else None, "via": rng.choice(VIAS_FRAME),
             "items": base_items()}
        frames.append(f)
        kids.append(f)
    first = kids[0]
    entry = first["name"]              # the framer's first frame: a child, or an over frame that descends to its primary under
    subs = []
    if nested:
        top = frames[0]
        if len(kids) >= 2 and rng.random() < 0.55:
            # `under`: the primary under of the over frame is not (necessarily) the lexically first child
            top["items"].append({"t": "under", "frame": rng.choice(kids[1:] if rng.random() < 0.8 else kids)["name"]})
            if rng.random() < 0.2:     # a second `under` overwrites the first
                top["items"].append({"t": "under", "frame": rng.choice(kids)["name"]})
        if rng.random() < 0.35:
            entry = top["name"]
        if rng.random() < 0.3:
            # a third level: two frames in one child, again with an optional `under`
            k = rng.choice(kids)
            for x in "yz":
                sf = {"name": k["name"] + x, "over": k["name"], "via": rng.choice(VIAS_FRAME), "items": base_items()}
                frames.append(sf)
                subs.append(sf)
            if rng.random() < 0.6:
                k["items"].append({"t": "under", "frame": subs[1]["name"]})
            if rng.random() < 0.5:
                subs[0]["items"].append({"t": "go", "far": rng.choice([subs[1]["name"], k["name"], top["name"]]),
                                         "needs": [{"k": "re", "op": ">=", "v": rng.choice([1, 2])}]})
    tags = []
    counted = rng.random() < 0.7
    if counted:
        # in the frame every outline starts with, so that the counter is initialised whatever frame is entered first
        frames[0]["items"].append(act_item("enter", {"k": "put", "v": 0, "ref": dict(R_CNT)}))
    ntag = 0
    mine_count = {}
    for k, f in enumerate(kids):
        items = f["items"]
        # clone clauses
        if later and ((force_clone and k == 0) or rng.random() < (0.75 if is_host else 0.4)):
            for _ in range(rng.choice([1, 1, 2, 3]) if is_host else rng.choice([1, 1, 2, 3, 4])):
                m = rng.choice(later)
                if rng.random() < 0.3:
                    items.append({"t": "aux", "of": m, "as": "mine", "via": rng.choice(VIAS_CLONE)})
                else:
                    ntag += 1
                    tag = ("c%d" if is_host else "n%d") % ntag
                    tags.append(tag)
                    items.append({"t": "aux", "of": m, "as": tag, "via": rng.choice(VIAS_CLONE)})
        # rear / raze
        others = [g["name"] for g in kids if g is not f]
        if later and others and rng.random() < (0.45 if is_host else 0.2):
            for _ in range(rng.choice([1, 1, 2])):
                target = rng.choice(others) if rng.random() < 0.93 else f["name"] if False else rng.choice(others + ([letter + "top"] if nested else []))
                items.append(act_item(rng.choice(["enter", "enter", "recur", "exit", "precur"]),
                                      {"k": "rear", "of": rng.choice(later), "frame": target}))
        if later and rng.random() < (0.4 if is_host else 0.2):
            tf = rng.choice([None, None] + [g["name"] for g in kids])
            items.append(act_item(rng.choice(["enter", "exit", "exit", "recur", "precur"]),
                                  {"k": "raze", "who": rng.choice(["all", "all", "first", "last"]), "frame": tf}))
        # store acts
        for _ in range(rng.choice([0, 1, 1, 2])):
            r = rng.random()
            if r < 0.3 and counted:
                items.append(act_item(rng.choice(["recur", "recur", "enter", "exit"]), {"k": "inc", "ref": dict(R_CNT), "v": rng.choice([1, 1, 2])}))
            elif r < 0.45:
                items.append(act_item("enter", {"k": "put", "v": rng.choice([0, 1, 5]), "ref": dict(R_LIM)}))
                if rng.random() < 0.5:
                    items.append(act_item("recur", {"k": "inc", "ref": dict(R_LIM), "v": 1}))
            elif r < 0.6:
                items.append(act_item(rng.choice(["recur", "enter"]), {"k": "io"}))
            elif r < 0.9:
                items.append(act_item(rng.choice(["enter", "recur", "exit"]), {"k": "put", "v": rng.choice([1, 2, 7]), "ref": dict(rng.choice(WREFS))}))
            else:
                items.append(rec_item(rng.choice(["precur", "renter", "rexit"]), rng.choice(["p", "q"])))
            if shared_reads and rng.random() < 0.3:
                items.append(act_item("recur", {"k": "inc", "ref": {"p": "x", "rel": "none"}, "v": 1}))
        if not is_host and rng.random() < (0.6 if k == len(kids) - 1 else 0.15):
            items.append(act_item("enter", {"k": "done"}))
        # entry conditions (`let [me] if [not] need …`): rarely on the first child, so that most framers still start
        if rng.random() < ((0.3 if not is_host else 0.15) if k > 0 else 0.06):
            items.append({"t": "let", "me": rng.random() < 0.5,
                          "needs": [gen_entry_need(rng, tags, counted) for _ in range(rng.choice([1, 1, 2]))]})
    # transitions last (after the acts, so that precur acts come first) — order inside preacts still varies
    for k, f in enumerate(kids):
        has_aux = any(it["t"] == "aux" for it in f["items"]) or any(
            it["t"] == "act" and it["a"]["k"] == "rear" and it["a"]["frame"] == f["name"] for g in kids for it in g["items"])
        if k < len(kids) - 1:
            if rng.random() < 0.9:
                needs = [gen_need(rng, tags, has_aux, counted, shared_reads) for _ in range(rng.choice([1, 1, 1, 2]))]
                f["items"].append({"t": "go", "far": rng.choice(["next", "next", kids[k + 1]["name"]]), "needs": needs})
            if rng.random() < 0.2:
                f["items"].append({"t": "go", "far": "next", "needs": [{"k": "el", "op": ">=", "v": rng.choice([3, 4])}]})
        else:
            if rng.random() < (0.55 if is_host else 0.3):
                far = rng.choice([kids[0]["name"], kids[0]["name"], "me", rng.choice(kids)["name"]])
                f["items"].append({"t": "go", "far": far,
                                   "needs": [gen_need(rng, tags, has_aux, counted, shared_reads)] if rng.random() < 0.8 else
                                   [{"k": "re", "op": ">=", "v": 2}]})
        if nested and rng.random() < 0.2:
            # to an over frame: the outline descends from it through the primary unders
            f["items"].append({"t": "go", "far": rng.choice([frames[0]["name"]] + [g["name"] for g in kids]),
                               "needs": [{"k": "re", "op": "==", "v": rng.choice([2, 3])}]})
        if rng.random() < 0.3:
            rng.shuffle(f["items"])
    return frames, entry


MAIN_CNT = {"p": "cnt", "rel": "fmain"}       # the counter of the framer of the clone's main frame
MAIN_MH = {"p": "mh", "rel": "fmain"}
MAIN_MF = {"p": "mf", "rel": "frmain"}


def add_main_refs(rng, frames, first_name):
    """an inner-only moot (never cloned by a host): it addresses its main framer and main frame"""
    top = frames[0]
    top["items"].append(act_item("enter", {"k": "put", "v": 0, "ref": dict(MAIN_MH)}))
    top["items"].append(act_item("enter", {"k": "put", "v": 1, "ref": dict(MAIN_MF)}))
    for f in frames:
        r = rng.random()
        if r < 0.5:
            f["items"].append(act_item(rng.choice(["enter", "recur"]), {"k": "inc", "ref": dict(rng.choice([MAIN_CNT, MAIN_MH])), "v": 1}))
        if rng.random() < 0.4:
            f["items"].append({"t": "go", "far": "me" if rng.random() < 0.3 else rng.choice(frames)["name"],
                               "needs": [rng.choice([{"k": "sh", "ref": dict(MAIN_MH), "op": rng.choice([">=", "=="]), "v": rng.choice([1, 2, 3])},
                                                     {"k": "sh", "ref": dict(MAIN_MF), "op": "==", "v": 1},
                                                     {"k": "sh", "ref": dict(MAIN_CNT), "op": "!=", "v": 1}])]})


def gen_house(rng, hname, hosts, hletters, moots, mletters, shared_reads, px):
    framers = []
    inner_only = len(moots) >= 2 and rng.random() < 0.6      # the last moot is cloned by moots only
    host_moots = moots[:-1] if inner_only else moots
    for h, name in enumerate(hosts):
        frames, first = gen_body(rng, name, hletters[h], host_moots, True, shared_reads)
        framers.append({"name": name, "sched": "active", "first": first, "via": rng.choice([None, "hin"]), "frames": frames})
    if px and rng.random() < 0.15:
        # an ordinary auxiliary framer used by one host frame
        frames, first = gen_body(rng, "px", "p", [], False, shared_reads)
        framers.append({"name": "px", "sched": "aux", "first": first if rng.random() < 0.5 else None, "via": None, "frames": frames})
        kids = [f for f in framers[0]["frames"] if f["over"]]
        rng.choice(kids)["items"].insert(3, {"t": "aux", "of": "px", "as": None, "via": None})
    for i, m in enumerate(moots):
        frames, first = gen_body(rng, m, mletters[i], moots[i + 1:], False, shared_reads,
                                 force_clone=(inner_only and i == len(moots) - 2))
        if inner_only and i == len(moots) - 1:
            add_main_refs(rng, frames, first)
        explicit = frames[0]["name"] != first or rng.random() < 0.3
        framers.append({"name": m, "sched": "moot", "first": first if explicit else None, "via": rng.choice(VIAS_FRAMER), "frames": frames})
    if rng.random() < 0.3:
        raze_scenario(rng, framers, host_moots)
    rng.shuffle(framers) if rng.random() < 0.2 else None
    for fr in framers:
        fr["house"] = hname
    return framers


def gen_prog(rng):
    shared_reads = rng.random() < 0.15
    nm = rng.choice([1, 2, 2, 3])
    nh = rng.choice([1, 1, 2])
    framers = gen_house(rng, "verif", ["ha", "hb"][:nh], "fg", MOOTS[:nm], "abc", shared_reads, True)
    if rng.random() < 0.3:
        # a second house under the same skedder: own store, own name registry, its own rears and razes in between
        second = gen_house(rng, "other", ["hc"], "k", ["mx", "my"][:rng.choice([1, 2])], "xy", shared_reads, False)
        host = [f for f in second if f["sched"] == "active"][0]
        kids = [f for f in host["frames"] if f["over"] == host["frames"][0]["name"]]
        if len(kids) >= 2:
            a, b = rng.sample(kids, 2)
            a["items"].append(act_item(rng.choice(["recur", "enter", "precur"]), {"k": "rear", "of": "mx", "frame": b["name"]}))
            if rng.random() < 0.5:
                b["items"].append(act_item(rng.choice(["recur", "exit"]), {"k": "raze", "who": rng.choice(["all", "last"]), "frame": None}))
        if rng.random() < 0.8:
            raze_scenario(rng, framers, [m for m in MOOTS[:nm] if not uses_main([f for f in framers if f["name"] == m][0])], loop=True)
        framers = framers + second
    trim(rng, framers)
    return {"ticks": rng.choice([4, 6, 8, 10]), "framers": framers, "shared_reads": shared_reads}


MAX_MOOT_WEIGHT = 24      # framer objects one clone of a moot creates (itself and the clones nested in it)
MAX_STATIC = 110          # framer objects the build creates


def clone_weights(framers):
    """name -> number of framer objects one clone of that moot creates; and the number the build creates"""
    defs = {(f["house"], f["name"]): f for f in framers}
    memo = {}

    def w(key, seen=()):
        if key in memo:
            return memo[key]
        if key not in defs or key in seen:
            return 1
        n = 1
        for fr in defs[key]["frames"]:
            for it in fr["items"]:
                if it["t"] == "aux":
                    n += w((key[0], it["of"]), seen + (key,))
        memo[key] = n
        return n
    for key in defs:
        w(key)
    static = sum(memo[k] for k, f in defs.items() if f["sched"] != "moot")
    return memo, static


def trim(rng, framers):
    """keeps a script small: nested clone clauses multiply (a moot that nests four clones of a moot that nests four …);
    drops clone clauses nothing refers to (insular ones first) until the script is below the caps"""
    for _ in range(200):
        weights, static = clone_weights(framers)
        heavy = [f for f in framers if f["sched"] == "moot" and weights[(f["house"], f["name"])] > MAX_MOOT_WEIGHT]
        if not heavy and static <= MAX_STATIC:
            return
        cands = []
        for f in heavy or framers:
            text = json.dumps(f)
            for fr in f["frames"]:
                clauses = [it for it in fr["items"] if it["t"] == "aux" and (f["house"], it["of"]) in weights
                           and any(g["sched"] == "moot" and g["name"] == it["of"] and g["house"] == f["house"] for g in framers)]
                for it in clauses:
                    if it["as"] in (None, "mine") or text.count('"%s"' % it["as"]) == 1:
                        cands.append((len(clauses) >= 2, fr, it))
        if not cands:
            return
        spare = [c for c in cands if c[0]]        # a frame keeps one clone clause as long as possible
        _, fr, it = rng.choice(spare or cands)
        fr["items"] = [x for x in fr["items"] if x is not it]


def raze_scenario(rng, framers, moots, loop=False):
    """directed part: a host frame A rears into its sibling B and goes there; B razes while its clones are entered
    (some of which have already said `done`)"""
    host = rng.choice([f for f in framers if f["sched"] == "active"])
    kids = [f for f in host["frames"] if f["over"]]
    if len(kids) < 2:
        return
    if not moots:
        return
    a, b = rng.sample(kids, 2)
    m = rng.choice(moots)
    # the reared moot nests 2-4 clones (named and insular) next to each other in one frame, and some in another frame:
    # razing it has to prune every one of them, whatever their position in the aux list
    defs = {f["name"]: f for f in framers}
    names = [f["name"] for f in framers if f["sched"] == "moot"]
    later = [x for x in MOOTS + ["mx", "my"] if x in names and x > m]
    if later and rng.random() < 0.7:
        mframes = defs[m]["frames"]
        tgt = rng.choice(mframes)
        used = {it["as"] for f in mframes for it in f["items"] if it["t"] == "aux" and it.get("as")}
        for j in range(rng.choice([2, 3, 4])):
            if rng.random() < 0.5:
                tag = "mine"
            else:
                tag = next(t for t in ("r%d" % q for q in range(1, 20)) if t not in used)
                used.add(tag)
            tgt["items"].append({"t": "aux", "of": rng.choice(later), "as": tag, "via": rng.choice(VIAS_CLONE)})
        if len(mframes) > 1 and rng.random() < 0.5:
            other = rng.choice([f for f in mframes if f is not tgt])
            other["items"].append({"t": "aux", "of": rng.choice(later), "as": "mine", "via": None})
    for _ in range(rng.choice([1, 1, 2])):
        a["items"].append(act_item("enter", {"k": "rear", "of": m, "frame": b["name"]}))
    a["items"].insert(3, {"t": "go", "far": b["name"], "needs": [{"k": "re", "op": ">=", "v": rng.choice([1, 1, 2])}]})
    b["items"].append(act_item(rng.choice(["recur", "recur", "precur", "renter"]),
                               {"k": "raze", "who": rng.choice(["all", "first", "last"]), "frame": None}))
    if rng.random() < 0.5:
        b["items"].insert(3, {"t": "go", "far": "me", "needs": [{"k": "re", "op": "==", "v": 2}]})
    if loop or rng.random() < 0.4:
        # back to A: it rears again, under the tag and name the razed clone had
        b["items"].insert(3, {"t": "go", "far": a["name"], "needs": [{"k": "re", "op": ">=", "v": rng.choice([2, 3])}]})
    mdef = [f for f in framers if f["name"] == m][0]
    first = [f for f in mdef["frames"] if f["name"] == (mdef["first"] or mdef["frames"][0]["name"])][0]
    if rng.random() < 0.6 and not any(it["t"] == "act" and it["a"]["k"] == "done" for it in first["items"]):
        first["items"].append(act_item(rng.choice(["enter", "recur"]), {"k": "done"}))


def malform(rng, prog):
    """one script error the builder must report (and the model must predict)"""
    p = copy.deepcopy(prog)
    hosts = [f for f in p["framers"] if f["sched"] == "active"]
    host = rng.choice(hosts)
    kid = rng.choice([f for f in host["frames"] if f["over"]] or host["frames"])
    k = rng.choice(["dup-tag", "unknown-orig", "not-moot", "bad-tag-need", "rear-noframe", "rear-me", "bad-first",
                    "name-clash", "next-of-last", "tag-is-aux-name", "self-clone", "clone-loop"])
    moots = [f for f in p["framers"] if f["sched"] == "moot"]
    if k == "dup-tag":
        kid["items"] += [{"t": "aux", "of": "ma", "as": "dd", "via": None}, {"t": "aux", "of": "ma", "as": "dd", "via": None}]
    elif k == "unknown-orig":
        kid["items"].append({"t": "aux", "of": "nosuch", "as": "dd", "via": None})
    elif k == "not-moot":
        kid["items"].append({"t": "aux", "of": host["name"], "as": "dd", "via": None})
    elif k == "bad-tag-need":
        kid["items"].append({"t": "go", "far": "me", "needs": [{"k": "aux", "tag": "nosuch"}]})
    elif k == "rear-noframe":
        kid["items"].append(act_item("enter", {"k": "rear", "of": "ma", "frame": "nosuch"}))
    elif k == "rear-me":
        kid["items"].append(act_item("enter", {"k": "rear", "of": "ma", "frame": "me"}))
    elif k == "bad-first":
        host["first"] = "nosuch"
    elif k == "name-clash":
        p["framers"].append({"name": host["name"] + "_dd", "sched": "aux", "first": None, "via": None,
                             "frames": [{"name": "k0", "over": None, "via": None, "items": base_items()}]})
        kid["items"].append({"t": "aux", "of": "ma", "as": "dd", "via": None})
    elif k == "self-clone":
        # D5 (C14, fixed): a moot that clones itself is refused by Framer.resolveMoots
        m = moots[0]
        m["frames"][0]["items"].append({"t": "aux", "of": m["name"], "as": "me2", "via": None})
        kid["items"].append({"t": "aux", "of": m["name"], "as": "dd", "via": None})
    elif k == "clone-loop":
        if len(moots) >= 2:
            moots[-1]["frames"][0]["items"].append({"t": "aux", "of": moots[0]["name"], "as": "lp", "via": None})
            moots[0]["frames"][0]["items"].append({"t": "aux", "of": moots[-1]["name"], "as": "lq", "via": None})
        else:
            moots[0]["frames"][0]["items"].append({"t": "aux", "of": moots[0]["name"], "as": "lp", "via": None})
        kid["items"].append({"t": "aux", "of": moots[0]["name"], "as": "dd", "via": None})
    elif k == "next-of-last":
        host["frames"][-1]["items"].append({"t": "go", "far": "next", "needs": []})
    else:
        p["framers"].append({"name": "qq", "sched": "aux", "first": None, "via": None,
                             "frames": [{"name": "k0", "over": None, "via": None, "items": base_items()}]})
        kid["items"] += [{"t": "aux", "of": "qq", "as": None, "via": None}, {"t": "aux", "of": "ma", "as": "qq", "via": None}]
    p["malformed"] = k
    return p


# ----------------------------------------------------------------------------- the oracle (implementation only)
def split_ticks(lines):
    """[(tick index or 'stop', [lines of that tick])]; the lines before the first `T` marker of tick 0 include the build dump"""
    ticks, cur = [], []
    for l in lines:
        if l.startswith("T "):
            ticks.append((int(l[2:]), cur))
            cur = []
        elif l == "END" or l.startswith("ERR"):
            break
        else:
            cur.append(l)
    ticks.append(("stop", cur))
    return ticks


def events_of(lines):
    """[(tick, framer, frame, ctx, tag)] (tick of the stopping pass = last tick + 1)"""
    out, last = [], -1
    for t, ls in split_ticks(lines):
        tt = last + 1 if t == "stop" else t
        for l in ls:
            if l.startswith("E "):
                _, fr, f, ctx, tag = l.split(" ")
                out.append((tt, fr, f, ctx, tag))
        if t != "stop":
            last = t
    return out


def mine_tag(host, frame_name, item_index):
    """the tag buildAux gives an `as mine` clause: <orig><count>, counted over the framer's earlier moots"""
    moots = []
    for f in host["frames"]:
        for i, it in enumerate(f["items"]):
            if it["t"] != "aux" or not it.get("as"):
                continue
            if it["as"] == "mine":
                n = 1
                while "%s%d" % (it["of"], n) in moots:
                    n += 1
                tag = "%s%d" % (it["of"], n)
            else:
                tag = it["as"]
            if f["name"] == frame_name and i == item_index:
                return tag
            moots.append(tag)
    return None


def rename_prefix(name, old, new):
    if name == old:
        return new
    if name.startswith(old + "_"):
        return new + name[len(old):]
    return name


def alone_program(prog, hi, fi, ii):
    """the program with clone clause (host hi, frame fi, item ii) replaced by an ordinary auxiliary that is a textual
    copy of the original; returns (program, name of the copy, name the clone has in `prog`)"""
    p = copy.deepcopy(prog)
    host = p["framers"][hi]
    it = host["frames"][fi]["items"][ii]
    moot = [f for f in p["framers"] if f["name"] == it["of"]][0]
    tag = mine_tag(prog["framers"][hi], host["frames"][fi]["name"], ii)
    cname = "%s_%s" % (host["name"], tag)
    aname = "q" + moot["name"]
    cp = copy.deepcopy(moot)
    cp["name"], cp["sched"] = aname, "aux"
    via = it.get("via")
    cp["via"] = moot.get("via") if via == "mine" else via
    host["frames"][fi]["items"][ii] = {"t": "aux", "of": aname, "as": None, "via": None}
    for f in host["frames"]:
        for x in f["items"]:
            if x["t"] in ("go", "let"):
                for n in x["needs"]:
                    if n["k"] == "aux" and n["tag"] == tag:
                        n["tag"] = aname
    p["framers"].insert(p["framers"].index(moot) + 1, cp)       # same house as the original
    return p, aname, cname


def forever_program(prog, moot_name):
    """the original run as an ordinary auxiliary of a frame that is never left"""
    house = [f for f in prog["framers"] if f["name"] == moot_name][0].get("house", "verif")
    moots = [copy.deepcopy(f) for f in prog["framers"] if f["sched"] == "moot" and f.get("house", "verif") == house]
    for m in moots:
        m["house"] = "verif"
    cp = copy.deepcopy([m for m in moots if m["name"] == moot_name][0])
    cp["name"], cp["sched"] = "q" + moot_name, "aux"
    host = {"name": "zh", "sched": "active", "first": "w", "via": None,
            "frames": [{"name": "w", "over": None, "via": None, "items": base_items() + [{"t": "aux", "of": cp["name"], "as": None, "via": None}]}]}
    return {"ticks": prog["ticks"] + 2, "framers": [host, cp] + moots}


def uses_main(fdef):
    """does the framer's own script address its main framer / main frame (only a clone has one)?"""
    def refs():
        for f in fdef["frames"]:
            for it in f["items"]:
                if it["t"] == "act" and "ref" in it["a"]:
                    yield it["a"]["ref"]
                elif it["t"] in ("go", "let"):
                    for n in it["needs"]:
                        if n["k"] == "sh":
                            yield n["ref"]
    return any(r["rel"] in ("fmain", "frmain") for r in refs())


def outside_inputs(prog, moot_name):
    """does the moot (or a moot it clones / rears) read, in a need, a share with an ABSOLUTE path that a framer outside
    that family writes?  Then a run of the original alone does not have the clone's inputs (O4 compares nothing)."""
    defs = {}
    for f in prog["framers"]:
        defs.setdefault(f["name"], f)
    family, todo = set(), [moot_name]
    while todo:
        n = todo.pop()
        if n in family or n not in defs:
            continue
        family.add(n)
        for f in defs[n]["frames"]:
            for it in f["items"]:
                if it["t"] == "aux":
                    todo.append(it["of"])
                elif it["t"] == "act" and it["a"]["k"] == "rear":
                    todo.append(it["a"]["of"])
    reads = set()
    for n in family:
        for f in defs[n]["frames"]:
            for it in f["items"]:
                if it["t"] in ("go", "let"):
                    for nd in it["needs"]:
                        if nd["k"] == "sh" and nd["ref"]["rel"] == "abs":
                            reads.add(nd["ref"]["p"])
    if not reads:
        return False
    for fr in prog["framers"]:
        if fr["name"] in family:
            continue
        for f in fr["frames"]:
            for it in f["items"]:
                if it["t"] == "act" and "ref" in it["a"] and it["a"]["ref"]["rel"] == "abs" and it["a"]["ref"]["p"] in reads:
                    return True
    return False


def relative_refs_ok(obs):
    """O2: every framer- / frame- / actor-relative reference resolves to the text's path with the own name substituted"""
    for (fname, u, frame, i, j, ref, sname, mainf) in obs.paths:
        if ref["rel"] == "framer":
            want = "framer.%s.%s" % (fname, ref["p"])
        elif ref["rel"] == "frame":
            want = "framer.%s.frame.%s.%s" % (fname, frame, ref["p"])
        elif ref["rel"] == "fmain" and mainf:
            # `of framer main`: the framer of the clone's OWN main frame (not the outermost framer of the chain)
            want = "framer.%s.%s" % (mainf[0], ref["p"])
        elif ref["rel"] == "frmain" and mainf:
            want = "framer.%s.frame.%s.%s" % (mainf[0], mainf[1], ref["p"])
        else:
            continue
        if sname is None and ref["p"] == "?":
            return ("O2/O1: framer %s frame %s: the frame has fewer acts than the original's script (item %d has no Act "
                    "object): an act was lost when the frame was cloned" % (fname, frame, i))
        if sname is None or sname.strip(".") != want:
            return "O2: framer %s frame %s item %d: relative reference `%s` resolves to %r, the original's path with %s is %r" % (
                fname, frame, i, ref_text(ref), sname,
                "the name of its own main framer / frame" if ref["rel"] in ("fmain", "frmain") else "the own name", want)
    for t, snap in enumerate(obs.snaps):
        names = list(snap["live"].values())
        if len(set(names)) != len(names):
            dup = sorted(n for n in set(names) if names.count(n) > 1)
            return "O2: tick %d: two live framer objects are both named %s (their relative shares coincide)" % (t, dup)
    return None


class CHECK(core.Check):
    PROPERTY = "C12"
    LEAN_MODULES = ["IofloModel.Props.C12"]
    ENGINE = "clones"
    N_QUICK = 60
    N_THOROUGH = 1000
    N_SEARCH = 60
    RULE = ("generated programs: one house, or (30 %) two houses under one skedder, each with its own hosts, moots, store and "
            "name registry and its own rears / razes interleaved with the other's (the first house then rears, razes and rears "
            "again under the freed name); in 60 % of the houses with >= 2 moots the last moot is cloned by moots only (clone "
            "nesting depth 2-3) and addresses its main framer and main frame (`of framer main`, `of frame main`: counters, "
            "needs); entry conditions `let [me] if [not] need [and …]` (plain and negated; framer clocks, framer- / "
            "frame-relative shares, done-states) on 30 % of the moot frames and some host frames; per house 1-2 active hosts (a top frame with 2-4 child frames, optionally a third level, the `under` "
            "verb choosing a primary under that is not the lexically first child, first frames and transitions that name over "
            "frames and descend to their primary unders, looping transitions on recurred / "
            "elapsed / share / all|any|aux TAG is done) that clone 1-3 moot framers with named tags and `mine`, via none / "
            "mine / two inodes, rear them into sibling frames and raze all|first|last; moots (1-3 frames, optional over "
            "frame with `under`, optional third level, framer and frame inodes) that clone, rear and raze later moots, count in framer- and frame-relative "
            "shares, write to inode-relative and absolute shares, use an actor-relative ioinit, say `done me`; every frame "
            "records enter / recur / exit; 15 % of the programs also read shared (non-relative) data; 10 % carry one script "
            "error (duplicate tag, unknown / non-moot original, unknown tag in a need, bad rear frame, bad first, clone "
            "name clash, next of last, tag equal to a plain aux, a moot cloning itself directly or in a loop). non-trivial = built, some clone was entered, distinct by program")
    TRUSTED = ["correspondence: the generated FloScript is built by the real Builder and run by the real Skedder of the working "
               "tree (+ fixes D12a, D12b); observation through doify deeds only (recorder, counting deed, end-of-tick "
               "observer reading the live Framer / Frame / Act objects); compared line by line with the Lean interpreter "
               "(driver engine 'clones')",
               "clause text -> relative path (Builder.parseIndirect) is taken from C13; tokenizer C16; literals C17",
               "CPython copy.deepcopy, odict order, str.join/split"]
    PARTIAL = ["behaviour, trees: C12_tree_refines_partial / C12_tree_refines_checkStart_partial / "
               "C12_clone_tree_runs_like_original_partial / C12_tree_same_events: the behavioural clause is proved for STATIC "
               "TREES of framer objects - a framer whose frames carry auxiliaries (clones) that carry auxiliaries ... to any "
               "depth, at every Ops level, for entry points on any member; scripts may use every modelled act except rear / "
               "raze, every need including `all / any is done` and `aux T is done` about child members, entry conditions and "
               "transitions (decidable: Frame.tok); hypotheses (TreeOK): the members' resolution maps are jointly injective "
               "(true of framer- / frame- / actor-relative references of members with dot-free names: "
               "C12_tree_prefix_maps_ok), members are distinct objects, every child is a clone whose main frame is the frame "
               "that lists it. A clone tree and the original's tree (or two clone trees) in one common situation take every "
               "entry point to one common situation with the same events from the same members. NOT proved: trees that "
               "change at run time (rear / raze inside the tree; what IS proved about run-time rear / raze is the round trip "
               "C12_rear_is_create_then_quiet_partial / C12_rear_raze_roundtrip_partial / C12_rear_razer_roundtrip_partial / "
               "C12_second_rear_like_first_partial for a "
               "moot without clone clauses and aux links whose clone runs without auxiliaries: rear = create + steps that "
               "touch only the clone and the store, and after the prune step the registry, the class pointers and every "
               "earlier object - the rearing framer's aux list and tag table included - are exactly those before the "
               "rear), members that address shares of other members "
               "(`of framer main`: the joint map is then not injective) or shared absolute shares, plain ORIGINAL "
               "auxiliaries below a clone (the relation fixes `original = false` for children); these are tied to the code "
               "by the correspondence and the oracles O1 / O4 only. Also not proved: that Act.resolvePath on the TEXT of a "
               "reference is the prefix map (segment level: C12_relative_path_has_own_name / _is_substituted)",
               "behaviour, single objects (kept, with frame conditions the tree version does not carry): "
               "C12_clone_runs_like_original_partial / C12_clone_history_like_original_partial / C12_leaf_refines_partial / "
               "C12_leaf_history_refines_partial / C12_leaf_refines_checkStart_partial for framer objects without "
               "auxiliaries (Frame.leafy), with C12_situation_stable, C12_leaf_touches_only_itself, "
               "C12_leaf_clones_do_not_interfere",
               "C12_prune_removes_all_nested_clones_partial: the frame loop of Framer.prune removes EVERY clone of a frame "
               "whatever its position in the aux list (clones without auxiliaries below them, list without duplicates); "
               "C12_raze_leaf_clones_partial / C12_prune_leaf_clone_partial: the exact effect of raze (the named frame loses "
               "exactly the selected razeable insular clones, every other frame and every other framer object is unchanged, "
               "the selected clones end not entered and unregistered, no new name appears) is proved when the selected clones "
               "have no auxiliaries below them (LeafObj) and the frame's aux list has no duplicates; unconditionally proved "
               "are the selection (C12_raze_selects_only_razeable_insular, C12_raze_all_first_last) and that a pruned "
               "object's registration is removed (C12_pruned_name_freed). NOT proved as theorems: the same exact effect when "
               "a razed clone carries clones of its own (needs an ownership invariant over whole runs; checked on every "
               "generated run by the correspondence - X / N lines - and by oracle O3)",
               "the model keeps integer `value` fields only; the CloneError branches of Frame.clone / Act.clone for already "
               "resolved links are folded into one test (unreachable: only moots are cloned and moots are never resolved); "
               "conditional auxiliaries, bids, slaves and marker needs (`is updated` / `is changed`) are not in the modelled subset (a clone cannot be "
               "a conditional auxiliary)",
               "D5 (a moot that clones itself; C14) is fixed in /repo: resolveMoots refuses it with ResolveError (the lineage "
               "test is in the model; generated as malformed kinds self-clone / clone-loop); a reared clone starts with an "
               "empty lineage, as in the code",
               "observation: the store is never cleaned, so a clone reared under the name of a razed one starts with the "
               "relative shares the razed one left (same inputs => same run still holds; oracle O4 skips such clones)"]
    TECHNIQUE = "Lean 4 theorems on a transcribed clone / rear / raze model (refinement to a name-free interpreter) + differential and metamorphic correspondence"
    LEVEL_TEXT = ("Proved for all inputs on the model: relative store data - C12_relative_path_has_own_name, "
                  "C12_relative_paths_disjoint (two framer objects with different names never resolve framer-/frame-/actor-"
                  "relative references to one path, any contexts, inodes, references), C12_relative_path_is_substituted (the "
                  "clone's path is the original's with the name segment substituted), C12_main_relative_path_has_main_name "
                  "(`of framer main` / `of frame main` name the framer of the clone's OWN main frame at every nesting depth); "
                  "houses - C12_assign_registries_keeps_registries, C12_pruned_name_freed_in_own_house; what a clone is - "
                  "C12_clone_preserves_act_kinds (entry conditions with their negation, acts of every context, transitions), "
                  "C12_frame_clone_copies_script, C12_frame_clone_of_unresolved, C12_clone_same_frame_forest (over / under / "
                  "next names copied, so resolveOverLinks and every outline are computed from the same input), "
                  "C12_clone_copies_definition, "
                  "C12_clone_fails_iff; names - C12_clone_registers_fresh_name, C12_clone_keeps_names_distinct, "
                  "C12_new_tag_fresh (newMootTag / newAuxTag), C12_surname_of_clone / _of_original, "
                  "C12_name_parts_injective; static clones - C12_static_clone_created (one entry of resolveMoots: moot original not in "
                  "the lineage, unused tag, free name surname_tag, copy flagged clone, insular only for `as mine`, never "
                  "razeable, inode rule `via mine`, lineage extended, queued, nothing else touched); rear - "
                  "C12_rear_creates_fresh_insular_razeable (fresh tag, free name surname_tag, "
                  "copy of the original flagged clone+insular+razeable, fixed main frame, appended to the frame, nothing else "
                  "touched); raze - C12_raze_selects_only_razeable_insular, C12_raze_all_first_last, C12_unregister_frees_name, "
                  "C12_pruned_name_freed, C12_freed_name_reusable, and PARTIAL (clones without auxiliaries below them) "
                  "C12_raze_leaf_clones_partial (exact effect on the whole house), C12_prune_removes_all_nested_clones_partial, C12_prune_leaf_clone_partial; "
                  "rear -> run -> raze round trip (PARTIAL: moot without clone clauses / aux links, clone without auxiliaries) - "
                  "C12_rear_is_create_then_quiet_partial, C12_rear_raze_roundtrip_partial, C12_rear_razer_roundtrip_partial "
                  "(registry, class pointers and every earlier object exactly as before the rear), "
                  "C12_second_rear_like_first_partial (same tag, name, definition, flags, main frame; new identity); behaviour "
                  "(PARTIAL: static trees of framers to any depth, incl. aux-done needs) - C12_tree_refines_partial, "
                  "C12_tree_refines_checkStart_partial, C12_clone_tree_runs_like_original_partial, C12_tree_same_events, "
                  "C12_tree_prefix_maps_ok; (PARTIAL: single framer objects, with frame conditions) - C12_leaf_refines_partial, "
                  "C12_leaf_refines_checkStart_partial, C12_clone_runs_like_original_partial, C12_leaf_history_refines_partial, "
                  "C12_clone_history_like_original_partial (any history of calls and clock ticks: same events, same relative "
                  "shares, same control state), C12_same_events, C12_situation_stable, C12_leaf_touches_only_itself, "
                  "C12_leaf_clones_do_not_interfere, C12_distinct_names_disjoint, C12_prefix_map_resolves. Tied to the code by building "
                  "and running generated clone / rear / raze programs with the real Builder and Skedder and comparing every "
                  "line with the Lean interpreter; the oracle rebuilds each program with a clone replaced by its original as "
                  "an ordinary auxiliary and demands identical traces.")
    FINDINGS_NOTE = ("KNOWN finding D12r (unchanged code): a rear made between a transition's entry check and its enter - by an "
                     "exit / rexit / renter act of the frames left or by an enter act of an over frame - into a frame that very "
                     "transition enters gives a clone whose first-frame guard was never checked; the clone then runs where the "
                     "original alone is refused (O4) - C12_counterexample_D12r; region = ghost flag St.lateRear of the Lean "
                     "interpreter (drv-clones `region`), C12_rear_outside_region_partial, C12_ghost_bracket_restores. O4 and "
                     "the other oracles claim nothing about runs inside the region; C08's engine has no rear verb and cannot "
                     "reach it.")
    LEVEL_NOTE = ("Trusted: Lean kernel; axioms propext, Classical.choice, Quot.sound; hand transcription of framing.py / "
                  "acting.py / housing.py / building.py clone, rear, raze and framer-core code validated only by the "
                  "correspondence runs on /repo + fixes D12a, D12b; clause text -> relative path taken from C13; CPython "
                  "deepcopy and dict order. The behavioural theorem covers static trees of clones (any depth, aux-done needs); "
                  "run-time rear / raze inside a tree and main-relative addressing are covered by correspondence and oracle only. "
                  "Known finding D12r (rear between entry check and enter: unchecked clone) is reproduced by the model and "
                  "excluded from the oracles by the ghost-flag region St.lateRear.")

    # ---- cases
    def generate(self, rng, n, tier):
        for _ in range(n):
            p = gen_prog(rng)
            if rng.random() < 0.1:
                p = malform(rng, p)
            yield {"prog": p, "pick": rng.randrange(1 << 30)}

    def impl(self, case):
        lines, _ = run_real(case["prog"])
        errs = [l for l in lines if l.startswith("ERR")]
        if errs:                      # a run-time exception ends the run: only its kind is compared
            return [lines[0], errs[0]]
        return list(lines)

    def requests(self, case):
        return [encode(case["prog"])]

    _region = {}

    def region(self, finding, case):
        """D12r: the Lean interpreter's ghost flag St.lateRear - a `rear` made a clone in a frame whose entry check was
        over and whose enter was still to come (drv-clones request `region <program>`)"""
        if finding.get("id") != "D12r" or "prog" not in case:
            return False
        key = core.case_key(case)
        if key not in self._region:
            req = encode(case["prog"])
            assert req.startswith("run ")
            self._region[key] = core.Driver(self.ENGINE).run(["region " + req[4:]]) == ["1"]
        return self._region[key]

    def model_post(self, case, replies):
        return replies[0].split("|")

    # ---- oracle
    def oracle(self, case, out):
        if out and out[0].startswith("HARNESS-EXC"):
            return "implementation adapter raised: " + out[0]
        prog = case["prog"]
        lines, obs = run_real(prog)
        if obs is None:
            return None                                   # does not build: nothing to say (C14)
        errs = [l for l in lines if l.startswith("ERR")]
        if errs:
            if ("CloneError" in errs[0] or "already exists" in obs.err_msg) and not prog.get("malformed"):
                return ("O3: a run-time `rear` failed because the name it needs is taken (%s): the name of a razed clone (or of "
                        "a clone below it) was not freed" % errs[0])
            return None                                   # other run-time errors: the model must predict them (stage B)
        if obs.classes:
            return "O5: cloning changed the kind of an act: " + obs.classes[0]
        why = relative_refs_ok(obs)
        if why:
            return why
        why = self.raze_ok(prog, lines, obs)
        if why:
            return why
        if prog.get("shared_reads") or prog.get("malformed"):
            return None
        why = self.alone_ok(case, prog, lines, obs)
        if why:
            return why
        return self.reared_ok(case, prog, lines, obs)

    # O3
    def raze_ok(self, prog, lines, obs):
        ticks = split_ticks(lines)
        snaps = obs.snaps
        info = obs.info
        balance = {}
        checked = {}
        for fr in prog["framers"]:
            for f in fr["frames"]:
                recs = {(it["ctx"], it["a"]["tag"]) for it in f["items"] if it["t"] == "act" and it["a"]["k"] == "rec"}
                checked[(fr["name"], f["name"])] = ("enter", "e") in recs and ("exit", "x") in recs
        defof = {}
        for t in range(len(snaps)):
            snap = snaps[t]
            prev = snaps[t - 1] if t > 0 else None
            tick_lines = ticks[t][1] if t < len(ticks) else []
            for u, nm in snap["live"].items():
                defof[nm] = info[u]["def"]
            evs = [l for l in tick_lines if l.startswith("E ")]
            whos = obs.who[t] if t < len(obs.who) else []
            for l, who in zip(evs, whos):
                u = next((i for i, x in enumerate(obs.seen) if x is who), None)
                if u is None or prev is None:
                    continue                      # never seen by the observer before: made in this tick
                was = [k for k in range(t) if u in snaps[k]["live"]]
                if was and u not in prev["live"]:
                    return "O3: tick %d: %s produces an event (%s) although that framer object left the aux lists in tick %d (a razed clone ran again)" % (t, info[u]["name"], l, max(was) + 1)
            for l in evs:
                _, fr, f, ctx, tag = l.split(" ")
                if ctx == "enter" and tag == "e":
                    balance[(fr, f)] = balance.get((fr, f), 0) + 1
                elif ctx == "exit" and tag == "x":
                    balance[(fr, f)] = balance.get((fr, f), 0) - 1
            # entered frames = active outlines of the live objects
            active = {}
            for l in tick_lines:
                if l.startswith("S "):
                    parts = l.split(" ")
                    acts = parts[4].split("=", 1)[1]
                    for f in ([] if acts == "~" else acts.split(">")):
                        active[(parts[1], f)] = 1
            for key, b in balance.items():
                d = defof.get(key[0])
                if d is None or not checked.get((d, key[1])):
                    continue
                if b != active.get(key, 0):
                    if key[0] not in set(snap["live"].values()):
                        return "O3: tick %d: frame %s of %s was entered %d time(s) more than exited, and %s is no longer in any aux list (razed without being exited)" % (t, key[1], key[0], b, key[0])
                    return "O3: tick %d: frame %s of %s: enters - exits = %d but it is %sin the active outline" % (t, key[1], key[0], b, "" if active.get(key) else "not ")
            if prev is None:
                continue
            for (owner, frame), lst in prev["auxes"].items():
                now = snap["auxes"].get((owner, frame))
                if now is None:
                    continue                          # the owner itself went away
                for u in lst:
                    if u not in now and not (info[u]["insular"] and info[u]["razeable"]):
                        return "O3: tick %d: %s (insular=%s razeable=%s) was removed from frame %s of %s" % (
                            t, info[u]["name"], info[u]["insular"], info[u]["razeable"], frame, info[owner]["name"])
            dead = [u for u in prev["live"] if u not in snap["live"]]
            for u in dead:
                # a pruned framer keeps no clone: every clone below it was pruned too and taken out of its frames' aux
                # lists and of its own `.auxes`, whatever its position in the list
                X = obs.seen[u]
                left = [(fr_.name, a.name) for fr_ in X.frameNames.values() for a in fr_.auxes
                        if hasattr(a, "original") and not a.original]
                left += [("auxes", t_) for t_, a in X.auxes.items() if hasattr(a, "original") and not a.original]
                if left:
                    return "O3: tick %d: %s was razed but still holds the clones %s (they were not pruned)" % (t, info[u]["name"], left[:4])
                nm = info[u]["name"]
                if nm in snap["names"].get(info[u]["house"], set()) and nm not in set(snap["live"].values()):
                    return "O3: tick %d: %s left the aux lists but its name is still registered (not free for the next rear)" % (t, nm)
        return None

    # O1
    def alone_ok(self, case, prog, lines, obs):
        sites = []
        for hi, fr in enumerate(prog["framers"]):
            if fr["sched"] != "active":
                continue
            for fi, f in enumerate(fr["frames"]):
                for ii, it in enumerate(f["items"]):
                    if it["t"] == "aux" and it.get("as"):
                        if uses_main([x for x in prog["framers"] if x["name"] == it["of"]][0]):
                            continue              # the original cannot run as an ordinary auxiliary: it has no main
                        if it["as"] == "mine":
                            # removing an automatic tag renumbers the other automatic tags of the same original
                            others = sum(1 for g in fr["frames"] for x in g["items"]
                                         if (x["t"] == "aux" and x.get("as") == "mine" and x["of"] == it["of"])
                                         or (x["t"] == "act" and x["a"]["k"] == "rear" and x["a"]["of"] == it["of"]))
                            if others > 1:
                                continue
                        sites.append((hi, fi, ii))
        if not sites:
            return None
        import random
        r = random.Random(case.get("pick", 0))
        r.shuffle(sites)
        ev = events_of(lines)
        vals = [l for l in lines if l.startswith("V ") and "/framer." in l.split(" ")[1]]
        for (hi, fi, ii) in sites[:2]:
            p2, aname, cname = alone_program(prog, hi, fi, ii)
            lines2, obs2 = run_real(p2)
            if obs2 is None or any(l.startswith("ERR") for l in lines2):
                return "O1: the program no longer builds / runs when clone %s is replaced by the original as an ordinary auxiliary (%s)" % (cname, lines2[-1])
            ev2 = [(t, rename_prefix(fr, aname, cname), f, c, tag) for (t, fr, f, c, tag) in events_of(lines2)]
            if ev2 != ev:
                k = next((i for i, (a, b) in enumerate(zip(ev, ev2)) if a != b), min(len(ev), len(ev2)))
                a = ev[k] if k < len(ev) else None
                b = ev2[k] if k < len(ev2) else None
                return "O1: clone %s vs its original alone: event %d is %s with the clone and %s with the original" % (cname, k, a, b)
            vals2 = []
            for l in lines2:
                if l.startswith("V ") and "/framer." in l.split(" ")[1]:
                    head, rest = l[2:].split(" ", 1)
                    hname, path = head.split("/", 1)
                    segs = path.split(".")
                    segs[1] = rename_prefix(segs[1], aname, cname)
                    vals2.append("V %s/%s %s" % (hname, ".".join(segs), rest))
            if sorted(vals2) != sorted(vals):
                d = sorted(set(vals) ^ set(vals2))
                return "O1: clone %s vs its original alone: relative shares differ: %s" % (cname, d[:4])
        return None

    # O4
    def reared_ok(self, case, prog, lines, obs):
        hosts = {fr["name"] for fr in prog["framers"] if fr["sched"] == "active"}
        ev = events_of(lines)
        life = {}
        for t, snap in enumerate(obs.snaps):
            for u in snap["live"]:
                life.setdefault(u, [t, t])[1] = t
        done = 0
        for u, inf in obs.info.items():
            if not inf["razeable"] or u not in life:
                continue
            if inf["def"] is None or uses_main([x for x in prog["framers"] if x["name"] == inf["def"]][0]):
                continue
            if outside_inputs(prog, inf["def"]):
                continue                                  # the clone's guards read a share the rest of the program writes
            nm = inf["name"]
            parent = nm.rsplit("_", 1)[0]
            if parent not in hosts or done >= 2:
                continue
            b, d = life[u]
            # the events of exactly this object and of the objects below it, by identity (side channel `who`)
            X = obs.seen[u]

            def below(fr):
                n = 0
                while fr is not None and n < 50:
                    if fr is X:
                        return True
                    fr = fr.main.framer if getattr(fr, "main", None) is not None else None
                    n += 1
                return False
            tagged = []
            for t, (_, ls) in enumerate(split_ticks(lines)):
                evs = [l for l in ls if l.startswith("E ")]
                for l, who in zip(evs, obs.who[t] if t < len(obs.who) else []):
                    tagged.append((t, who, l))
            # an earlier object of the same name leaves its relative shares behind (the store keeps them): the later one
            # does not start from the inputs of the reference run
            if any((l.split(" ")[1] == nm or l.split(" ")[1].startswith(nm + "_")) and not below(who) and t <= d + 1
                   for (t, who, l) in tagged):
                continue
            mine = []
            for (t, who, l) in tagged:
                if below(who):
                    _, fr, f, c, tag = l.split(" ")
                    mine.append((t, rename_prefix(fr, nm, "Q"), f, c, tag))
            if not mine:
                continue
            mainframe = None
            for (owner, frame), lst in obs.snaps[b]["auxes"].items():
                if u in lst:
                    mainframe = (obs.info[owner]["name"], frame)
            if mainframe is None:
                continue
            entries = [e for e in ev if e[1] == mainframe[0] and e[2] == mainframe[1] and e[3] == "enter" and e[4] == "e"
                       and b <= e[0] <= d + 1]
            if len(entries) != 1:
                continue
            done += 1
            ref_lines, ref_obs = run_real(forever_program(prog, inf["def"]))
            if ref_obs is None or any(l.startswith("ERR") for l in ref_lines):
                return "O4: the original %s does not run as an ordinary auxiliary (%s)" % (inf["def"], ref_lines[-1])
            qn = "q" + inf["def"]
            ref = [(t, rename_prefix(fr, qn, "Q"), f, c, tag) for (t, fr, f, c, tag) in events_of(ref_lines)
                   if fr == qn or fr.startswith(qn + "_")]
            ref = [(x[0] - ref[0][0],) + tuple(x[1:]) for x in ref] if ref else ref
            t0 = mine[0][0]
            rel = [(x[0] - t0,) + tuple(x[1:]) for x in mine]
            last = rel[-1][0]
            body = list(rel)
            while body and body[-1][0] == last and body[-1][3] == "exit":
                body.pop()
            if body != ref[:len(body)]:
                k = next((i for i, (a, bb) in enumerate(zip(body, ref)) if a != bb), min(len(body), len(ref)))
                return "O4: reared clone %s: event %d is %s, the original alone gives %s" % (
                    nm, k, body[k] if k < len(body) else None, ref[k] if k < len(ref) else None)
        return None

    # ---- bookkeeping
    def nontrivial(self, case, out):
        return bool(out) and out[0] == "BUILD ok" and any(l.startswith("E ") and "_" in l.split(" ")[1] for l in out)

    def bucket(self, case, out):
        prog = case["prog"]
        if prog.get("malformed"):
            return "malformed:%s:%s" % (prog["malformed"], out[0].replace("BUILD ", "").replace(" ", "-") if out else "?")
        if not out or out[0] != "BUILD ok":
            return "build-" + (out[0] if out else "?")
        if len(out) == 2 and out[1].startswith("ERR"):
            return "run-" + out[1].replace(" ", "-")
        tags = []
        if any(" r=1 " in l for l in out if l.startswith("F ")):
            tags.append("reared")
        names = [l for l in out if l.startswith("N ")]
        if any(len(a) > len(b) for a, b in zip(names, names[1:])):
            tags.append("razed")
        if any(l.startswith("F ") and l.split(" ")[1].count("_") >= 2 for l in out):
            tags.append("nested")
        if any(" i=1 r=0 " in l for l in out if l.startswith("F ")):
            tags.append("mine")
        return "ok:" + ("+".join(tags) or "static")

    def shrink_candidates(self, case):
        prog = case["prog"]

        def variant(p):
            c = dict(case)
            c["prog"] = p
            return c
        if prog["ticks"] > 2:
            p = copy.deepcopy(prog)
            p["ticks"] -= 1
            yield variant(p)
        for i, fr in enumerate(prog["framers"]):
            if fr["sched"] != "active" or sum(1 for x in prog["framers"] if x["sched"] == "active") > 1:
                p = copy.deepcopy(prog)
                del p["framers"][i]
                yield variant(p)
        for i, fr in enumerate(prog["framers"]):
            for j, f in enumerate(fr["frames"]):
                if len(fr["frames"]) > 1:
                    p = copy.deepcopy(prog)
                    del p["framers"][i]["frames"][j]
                    for g in p["framers"][i]["frames"]:
                        if g.get("over") == f["name"]:
                            g["over"] = None
                    if p["framers"][i].get("first") == f["name"]:
                        p["framers"][i]["first"] = None
                    yield variant(p)
                for k, it in enumerate(f["items"]):
                    if it["t"] == "act" and it["a"]["k"] == "rec" and it["a"]["tag"] in ("e", "x"):
                        continue
                    p = copy.deepcopy(prog)
                    del p["framers"][i]["frames"][j]["items"][k]
                    yield variant(p)
                if f.get("via"):
                    p = copy.deepcopy(prog)
                    p["framers"][i]["frames"][j]["via"] = None
                    yield variant(p)
            if fr.get("via"):
                p = copy.deepcopy(prog)
                p["framers"][i]["via"] = None
                yield variant(p)
