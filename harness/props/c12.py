"""C12 — cloned framers run like their originals and never share relative state; rear / raze.

Model     lean/IofloModel/Model/Clones.lean   (Framer.clone / Frame.clone / Act.clone, Framer.resolveMoots, newMootTag /
          newAuxTag, House.presolvePresolvables / resolveResolvables, Frame.resolveAuxLinks, Rearer / Razer / Framer.prune,
          the framer core that drives the clones: enterAll / exitAll / segue / recur / Transiter, and Act.resolvePath via
          Model/ResolvePath.lean of C13)
Theorems  lean/IofloModel/Props/C12.lean
Tree      /repo + fixes/D12a-prune-nested-named-clones.patch + fixes/D12b-prune-exits-entered-clone.patch
Tie       generated programs (hosts that clone moot framers under named tags, `mine`, several `via` inodes; moots that
          clone / rear / raze later moots; rear and raze at arbitrary ticks) are written as FloScript, built by the REAL
          Builder and run by the REAL Skedder; observation through two doify deeds (a recorder and an end-of-tick
          observer that reads the live objects).  The Lean driver interprets the same program; the full output (build
          dump of every framer object, resolved share of every reference, per tick events, live framer tree, name
          registry, final store) must be equal.
Oracle    the property, on the implementation only (no Lean):
  O1 alone      for every clone clause `aux M as T` of a host the program is rebuilt with a textual copy of M declared as
                an ordinary auxiliary framer in place of that clone; the events of the clone (and of everything below it)
                must equal the events of the copy with the name prefix substituted, and so must the values of all shares
                below `framer.<name>`; everything else in the run must be unchanged.
  O2 disjoint   every framer-, frame- or actor-relative reference of every live framer object resolves to the path the
                original's text gives with the framer's own name substituted, and no two live framer objects resolve a
                relative reference to the same share.
  O3 raze       a framer object leaves a frame's aux list only if it is an insular razeable clone (or hangs below one that
                left); from then on it produces no event, its name and the names of everything below it are no longer
                registered, and every frame of it that was entered has been exited.  A later `rear` may reuse the name.
  O4 reared     the events of a reared clone whose main frame was entered once are a prefix (then exits only) of the
                events of the original run as an ordinary auxiliary that is never left.
"""
import json, copy, re
import core, flob

# ----------------------------------------------------------------------------- program AST
CTXS = ["enter", "recur", "exit", "precur", "renter", "rexit"]
OPS = ["==", "!=", "<", "<=", ">=", ">"]
OBS = "zzobs"          # the observer framer (not part of the program proper)


def relpath(ref):
    """the relative path Builder.parseIndirect gives for the clause (C13 ties parseIndirect itself)"""
    p, rel = ref["p"], ref["rel"]
    if rel == "framer":
        return "framer.me." + p
    if rel == "frame":
        return "framer.me.frame.me." + p
    if rel == "me":
        return "me." + p
    if rel == "abs":
        return "." + p
    return p


def ref_text(ref):
    p, rel = ref["p"], ref["rel"]
    if rel == "framer":
        return p + " of framer"
    if rel == "frame":
        return p + " of frame"
    if rel == "me":
        return p + " of me"
    if rel == "abs":
        return "." + p
    return p


def need_text(n):
    k = n["k"]
    if k == "el":
        s = "elapsed %s %d" % (n["op"], n["v"])
    elif k == "re":
        s = "recurred %s %d" % (n["op"], n["v"])
    elif k == "sh":
        s = "%s %s %d" % (ref_text(n["ref"]), n["op"], n["v"])
    elif k == "all":
        s = "all is done"
    elif k == "any":
        s = "any is done"
    else:
        s = "aux %s is done" % n["tag"]
    return ("not " if n.get("neg") else "") + s


def act_text(a):
    k = a["k"]
    if k == "rec":
        return 'do ck rec with tag "%s"' % a["tag"]
    if k == "io":
        return 'do ck io per val "framer.me.actor.me.n"'
    if k == "put":
        return "put %d into %s" % (a["v"], ref_text(a["ref"]))
    if k == "inc":
        return "inc %s with %d" % (ref_text(a["ref"]), a["v"])
    if k == "done":
        return "done me"
    if k == "rear":
        return "rear %s as mine be aux in frame %s" % (a["of"], a["frame"])
    if k == "raze":
        return "raze %s" % a["who"] + ("" if a["frame"] is None else " in frame %s" % a["frame"])
    raise ValueError(k)


def render(prog, observer=True):
    L = ["house verif", ""]
    for fr in prog["framers"]:
        line = "framer %s be %s" % (fr["name"], fr["sched"])
        if fr.get("first"):
            line += " first %s" % fr["first"]
        if fr.get("via"):
            line += " via %s" % fr["via"]
        L.append(line)
        for f in fr["frames"]:
            line = "  frame %s" % f["name"]
            if f.get("over"):
                line += " in %s" % f["over"]
            if f.get("via"):
                line += " via %s" % f["via"]
            L.append(line)
            for it in f["items"]:
                t = it["t"]
                if t == "aux":
                    line = "    aux %s" % it["of"]
                    if it.get("as"):
                        line += " as %s" % it["as"]
                    if it.get("via"):
                        line += " via %s" % it["via"]
                    L.append(line)
                elif t == "go":
                    line = "    go %s" % it["far"]
                    if it["needs"]:
                        line += " if " + " and ".join(need_text(n) for n in it["needs"])
                    L.append(line)
                else:
                    L.append("    " + it["ctx"])
                    L.append("      " + act_text(it["a"]))
                    L.append("    native")
        L.append("")
    if observer:
        L += ["framer %s be active in back first z" % OBS, "  frame z", "    recur", "      do ck obs", ""]
    return "\n".join(L)


# ----------------------------------------------------------------------------- real run
_ready = [False]
RUN = {"log": None, "obs": None}


def setup():
    if _ready[0]:
        return
    flob.setup()
    from ioflo.base import doing

    @doing.doify('CkRec')
    def ckrec(self, tag="", **kw):
        fr = self._act.frame
        RUN["log"].append("E %s %s %s %s" % (fr.framer.name, fr.name, self._act.context, tag))

    @doing.doify('CkIo')
    def ckio(self, **kw):
        fr = self._act.frame
        v = self.val.value
        v = 1 if v is None else v + 1
        self.val.value = v
        RUN["log"].append("E %s %s %s io=%d" % (fr.framer.name, fr.name, self._act.context, v))

    @doing.doify('CkObs')
    def ckobs(self, **kw):
        RUN["obs"](self.store)
    _ready[0] = True


def enc(s):
    return "~" if s is None else "-" if s == "" else str(s)


def act_objects(frame):
    """the real Act objects of a frame by context, in list order"""
    return {"enter": frame.enacts, "recur": frame.reacts, "exit": frame.exacts, "precur": frame.preacts,
            "renter": frame.renacts, "rexit": frame.rexacts}


def share_name(x):
    return getattr(x, "name", None)


def ref_shares(fdef, frame):
    """[(item index, sub index, ref, resolved share name)] for every reference of the frame's items"""
    out = []
    seen = {c: 0 for c in CTXS}
    objs = act_objects(frame)
    for i, it in enumerate(fdef["items"]):
        if it["t"] == "aux":
            continue
        ctx = "precur" if it["t"] == "go" else it["ctx"]
        lst = objs[ctx]
        # Suspender / marker acts are never generated, so the positions of the AST items and of the act lists agree
        act = lst[seen[ctx]]
        seen[ctx] += 1
        if it["t"] == "go":
            for j, n in enumerate(it["needs"]):
                if n["k"] == "sh":
                    out.append((i, j, n["ref"], share_name(act.parms["needs"][j].parms["state"])))
                elif n["k"] in ("el", "re"):
                    what = "elapsed" if n["k"] == "el" else "recurred"
                    out.append((i, j, {"p": "state." + what, "rel": "framer"},
                                share_name(act.parms["needs"][j].parms["state"])))
        else:
            a = it["a"]
            if a["k"] in ("put", "inc"):
                out.append((i, 0, a["ref"], share_name(act.parms["destination"])))
            elif a["k"] == "io":
                out.append((i, 0, {"p": "actor.ck.io.n", "rel": "framer"}, share_name(act.actor.val)))
    return out


class Observer:
    """end-of-tick observer: reads the live objects (no hooks in /repo)"""

    def __init__(self, sk, prog, ticks):
        self.sk, self.prog, self.ticks = sk, prog, ticks
        self.count = 0
        self.seen = []          # framer objects already announced (strong refs: ids stay unique)
        self.defs = {fr["name"]: fr for fr in prog["framers"]}
        self.origin = {}        # id(framer object) -> name of the framer definition it was copied from
        self.out = []
        self.paths = []         # (framer name, uid, frame, item, sub, ref, share name) for O2
        self.snaps = []         # per tick: {"auxes": {(framer uid, frame): [uid…]}, "names": set, "live": {uid: name}}
        self.info = {}          # uid -> dict(name, tag, insular, razeable, original, def)

    def house(self):
        return self.sk.houses[0]

    def definition_of(self, framer):
        """which definition a live framer object was made from: itself, or (clone) found through its main framer"""
        k = id(framer)
        if k in self.origin:
            return self.origin[k]
        if framer.name in self.defs and framer.original:
            self.origin[k] = framer.name
            return framer.name
        # a clone: its main framer's definition names the original in an aux clause with this tag, or rears it
        mainer = framer.main.framer
        mdef = self.defs[self.definition_of(mainer)]
        found = None
        for f in mdef["frames"]:
            for it in f["items"]:
                if it["t"] == "aux" and it.get("as") and f["name"] == framer.main.name:
                    tag = it["as"]
                    if tag == framer.tag or (tag == "mine" and framer.insular and not framer.razeable
                                             and framer.tag.rstrip("0123456789") == it["of"]):
                        found = it["of"]
                if it["t"] == "act" and it["a"]["k"] == "rear" and framer.razeable \
                        and it["a"]["frame"] == framer.main.name and framer.tag.rstrip("0123456789") == it["a"]["of"]:
                    found = found or it["a"]["of"]
        self.origin[k] = found
        return found

    def walk(self):
        """live framer objects reachable from the taskables, depth first, in list orders"""
        order = []

        def visit(fr):
            order.append(fr)
            for frame in fr.frameNames.values():
                for aux in frame.auxes:
                    if hasattr(aux, "frameNames"):
                        visit(aux)
        for t in self.house().taskables:
            if t.name != OBS:
                visit(t)
        return order

    def uid(self, fr):
        for i, x in enumerate(self.seen):
            if x is fr:
                return i
        self.seen.append(fr)
        return len(self.seen) - 1

    def announce(self, fr, out):
        u = self.uid(fr)
        dname = self.definition_of(fr)
        self.info[u] = {"name": fr.name, "tag": fr.tag, "insular": bool(fr.insular), "razeable": bool(fr.razeable),
                        "original": bool(fr.original), "def": dname}
        main = "~" if fr.main is None else "%s/%s" % (fr.main.framer.name, fr.main.name)
        out.append("F %s tag=%s o=%d i=%d r=%d main=%s inode=%s first=%s" % (
            fr.name, fr.tag, fr.original, fr.insular, fr.razeable, main, enc(fr.inode),
            fr.first.name if hasattr(fr.first, "name") else enc(fr.first)))
        fdefs = {f["name"]: f for f in self.defs[dname]["frames"]} if dname else {}
        for frame in fr.frameNames.values():
            out.append("R %s %s over=%s out=%s" % (fr.name, frame.name, frame.over.name if frame.over else "~",
                                                    ">".join(x.name for x in frame.outline)))
            if frame.name in fdefs:
                for (i, j, ref, sname) in ref_shares(fdefs[frame.name], frame):
                    out.append("P %s %s %d %d %s" % (fr.name, frame.name, i, j, enc(sname)))
                    self.paths.append((fr.name, u, frame.name, i, j, ref, sname))

    def snapshot(self, out):
        live = self.walk()
        for fr in live:
            if not any(fr is x for x in self.seen):
                self.announce(fr, out)
        snap = {"auxes": {}, "names": None, "live": {}}
        for fr in live:
            u = self.uid(fr)
            snap["live"][u] = fr.name
            out.append("S %s active=%s done=%d actives=%s" % (
                fr.name, fr.active.name if fr.active else "~", bool(fr.done), ">".join(x.name for x in fr.actives) or "~"))
            for frame in fr.frameNames.values():
                if frame.auxes:
                    out.append("X %s %s %s" % (fr.name, frame.name, ",".join(a.name for a in frame.auxes)))
                snap["auxes"][(u, frame.name)] = [self.uid(a) for a in frame.auxes]
        names = sorted(n for n in self.house().names["tasker"].keys() if n != OBS)
        snap["names"] = set(names)
        out.append("N " + ",".join(names))
        self.snaps.append(snap)

    def __call__(self, store):
        from ioflo.base.globaling import STOP
        out = self.out
        out.extend(RUN["log"])
        del RUN["log"][:]
        self.snapshot(out)
        out.append("T %d" % self.count)
        self.count += 1
        if self.count >= self.ticks:
            for tasker in self.house().taskables:
                tasker.desire = STOP


SKIP_TOP = ("meta", "time", "realtime", "datetime", "ioflo")


def store_dump(store):
    """`V <share> value=<int>` for every share with a numeric `value` field (sorted)"""
    from ioflo.base import storing
    rows = []

    def emit(name, share):
        if name.startswith("framer." + OBS + "."):
            return
        try:
            v = share["value"] if "value" in share else None
        except Exception:
            v = None
        if isinstance(v, bool) or not isinstance(v, (int, float)):
            return
        rows.append("V %s value=%s" % (name, ("%d" % v) if v == int(v) else repr(v)))

    def walk(node, pre):
        for k, v in node.items():
            if isinstance(v, storing.Share):
                emit(pre + k, v)
            else:
                walk(v, pre + k + ".")
    for k, v in store.shares.items():
        if k in SKIP_TOP:
            continue
        if isinstance(v, storing.Share):
            emit(k, v)
        else:
            walk(v, k + ".")
    return sorted(rows)


_run_cache = {}


def run_real(prog):
    """-> (lines, observer or None).  Lines: BUILD …, then per tick events / announcements / snapshot, then the store"""
    key = json.dumps(prog, sort_keys=True)
    if key in _run_cache:
        return _run_cache[key]
    setup()
    text = render(prog)
    sk = flob.build(text, 1.0, name="c12.flo")
    if sk is None:
        res = (["BUILD ERR %s" % flob.HOOKS.get("build_error")], None)
    else:
        obs = Observer(sk, prog, prog["ticks"])
        RUN["log"] = []
        RUN["obs"] = obs
        lines = ["BUILD ok"]
        obs.snapshot(lines)          # the build dump: every framer object reachable before the first tick
        obs.snaps.pop()
        obs.out = lines
        err = None
        try:
            with flob.time_limit(60):
                sk.run()
        except core.HarnessTimeout:
            raise
        except Exception as ex:
            err = type(ex).__name__
        lines.extend(RUN["log"])
        del RUN["log"][:]
        if err:
            lines.append("ERR %s" % err)
        else:
            lines.append("END")
            lines.extend(store_dump(sk.houses[0].store))
        res = (lines, obs)
    if len(_run_cache) > 200:
        _run_cache.clear()
    _run_cache[key] = res
    return res


# ----------------------------------------------------------------------------- request for the Lean driver
def enc_need(n):
    neg = "1" if n.get("neg") else "0"
    k = n["k"]
    if k == "el":
        return [neg, "st", "framer.me.state.elapsed", n["op"], str(n["v"])]
    if k == "re":
        return [neg, "st", "framer.me.state.recurred", n["op"], str(n["v"])]
    if k == "sh":
        return [neg, "st", relpath(n["ref"]), n["op"], str(n["v"])]
    if k in ("all", "any"):
        return [neg, k]
    return [neg, "aux", n["tag"]]


def enc_act(a):
    k = a["k"]
    if k == "rec":
        return ["rec", a["tag"]]
    if k == "io":
        return ["io", "framer.me.actor.me.n"]
    if k == "put":
        return ["put", str(a["v"]), relpath(a["ref"])]
    if k == "inc":
        return ["inc", relpath(a["ref"]), str(a["v"])]
    if k == "done":
        return ["done"]
    if k == "rear":
        return ["rear", a["of"], a["frame"]]
    return ["raze", a["who"], a["frame"] or "me"]


def encode(prog):
    t = ["run", str(prog["ticks"]), str(len(prog["framers"]))]
    for fr in prog["framers"]:
        t += ["F", fr["name"], fr["sched"], enc(fr.get("first")), enc(fr.get("via") or ""), str(len(fr["frames"]))]
        for f in fr["frames"]:
            t += ["R", f["name"], enc(f.get("over")), enc(f.get("via") or ""), str(len(f["items"]))]
            for it in f["items"]:
                if it["t"] == "aux":
                    t += ["x", it["of"], enc(it.get("as")), enc(it.get("via") or "")]
                elif it["t"] == "go":
                    t += ["g", it["far"], str(len(it["needs"]))]
                    for n in it["needs"]:
                        t += enc_need(n)
                else:
                    t += ["a", it["ctx"]] + enc_act(it["a"])
    return " ".join(t)
