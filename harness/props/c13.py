"""C13 — relative store addressing is invariant under consistent renaming.

Model:    lean/IofloModel/Model/ResolvePath.lean (Act.resolvePath, nameToPath, Builder.parseIndirect /
          parseRelation)
Theorems: lean/IofloModel/Props/C13.lean
Tie (three kinds of cases, all against the REAL code):
  parse  Builder.parseIndirect(tokens, 0, node) called on generated clause tokens vs the model.
  res    a generated skeleton (framers, nested frames, `via` inodes) is built by the real Builder; the
         harness links auxiliary framers to main frames (as Frame.enter does at run time), makes an Act in
         a frame and calls the real Act.resolvePath(ipath) with a recording store double; the context the
         model gets is read off the real objects (names, inodes, over / main links).
  prog   a generated program with references in `put … into REF`, `do … via REF per k "ipath" as name`,
         framer / frame / clone `via REF` is built by the real Builder; every resolved share / node name is
         compared with  model.resolvePath(context read off the built objects, model.parseIndirect(tokens)).
Oracle (independent of the model) = the property itself, metamorphically on the implementation: the case
  names one entity (framer, frame or actor) and a fresh name; the program / skeleton is rebuilt with that
  entity renamed consistently; every resolved path of the renamed build must equal the original path with
  exactly the segments that spell the old name replaced (literal path segments never use entity names),
  and must be identical when the reference is absolute; distinct actor names (differing by a digit or an
  underscore part) must resolve to distinct paths wherever the path goes through the actor's name; the
  set of ALL shares in the store of the renamed build must be exactly the renamed image of the original
  store (nothing else appears), and building the original again afterwards must reproduce its store.
"""
import json, re
import core, flob

# names: plain words, digits, underscores, camel humps, and names that merely extend a keyword
FRAMERS = ["alpha", "bravo", "carol", "delta", "mainloop", "meter", "framerate", "b2", "my_f", "actor1", "eCho"]
FRAMES = ["fone", "ftwo", "ftri", "ffor", "ffiv", "fsix", "fsev", "feig", "fnin", "ften", "felv", "ftwl", "fthr",
          "mainly", "main2", "me2", "frame9", "f_x", "actorly", "framer3", "gUp"]
LITS = ["x", "y", "val", "pos", "s1", "deep", "q"]
APARTS = ["do", "it", "run", "fast", "zed", "go", "pump2", "my_v", "x9", "mainer"]
NEW = {"framer": ["zqx", "zq_7", "mainframe9", "meZ"], "frame": ["wvu", "wv_2", "mainstay", "me7"],
       "actor": ["KjHg", "KjH2", "Valve7", "K_j"]}


TAGS = ["cl", "cm", "cn"]
NEW["tag"] = ["zz", "z9", "main7"]


def name_parts(name):
    """the `as` clause tokens that build this actor name: `as kj h2` -> KjH2"""
    return [p[0].lower() + p[1:] for p in re.findall(r"[A-Z][^A-Z]*", name)]


# ----------------------------------------------------------------------------- reference clauses (AST)
# ref = {"path": "a.b", "rel": REL}     REL = None | ["root"] | ["me"] | ["framer", name|None]
#      | ["frame", name|None, REL(framer-level)|None] | ["actor", name|None, REL(frame-level)|None]

def rel_tokens(rel):
    if rel is None:
        return []
    t = ["of", rel[0]]
    if rel[0] in ("framer", "frame", "actor") and rel[1]:
        t.append(rel[1])
    if rel[0] in ("frame", "actor") and len(rel) > 2 and rel[2] is not None:
        t += rel_tokens(rel[2])
    return t


def ref_tokens(ref):
    return [ref["path"]] + rel_tokens(ref["rel"])


def rename_rel(rel, kind, old, new):
    if rel is None:
        return None
    r = list(rel)
    if r[0] == kind and len(r) > 1 and r[1] == old:
        r[1] = new
    if r[0] in ("frame", "actor") and len(r) > 2:
        r[2] = rename_rel(r[2], kind, old, new)
    return r


def rename_path(path, kind, old, new):
    """an inline relation in the path token (`frame.NAME.x`, `framer.NAME.x`, `actor.NAME.x`) names an entity"""
    ch = path.split(".")
    if len(ch) >= 2 and ch[0] == kind and ch[1] == old:
        ch[1] = new
    return ".".join(ch)


def rename_ref(ref, kind, old, new):
    if ref is None:
        return None
    return {"path": rename_path(ref["path"], kind, old, new), "rel": rename_rel(ref["rel"], kind, old, new)}


def actor_name(parts):
    """`as do it` → DoIt"""
    return "".join(p.capitalize() for p in parts)


def gen_rel(rng, level, names, main_ok=True):
    """level 3 = any, 2 = frame-level (what may follow `of actor`), 1 = framer-level"""
    def nm(pool, extra=("me",)):
        r = rng.random()
        if r < 0.35:
            return None
        if r < 0.6:
            e = [x for x in extra if main_ok or x != "main"]
            return rng.choice(e)
        return rng.choice(pool)
    r = rng.random()
    if r < 0.12:
        return ["root"]
    if r < 0.2:
        return ["me"]
    kinds = ["framer"] + (["frame"] if level >= 2 else []) + (["actor"] if level >= 3 else [])
    k = rng.choice(kinds)
    if k == "framer":
        return ["framer", nm(names["framer"], ("me", "main"))]
    if k == "frame":
        return ["frame", nm(names["frame"], ("me", "main")), gen_rel(rng, 1, names, main_ok) if rng.random() < 0.5 else None]
    return ["actor", nm(names["actor"], ("me",)), gen_rel(rng, 2, names, main_ok) if rng.random() < 0.5 else None]


NODES = ["na", "nb", "nc", "nd"]
_leaf = [0]


def gen_path(rng, node, names=None, absolute_ok=True, main_ok=True, inline_ok=True, unique=False):
    segs = [rng.choice(LITS) for _ in range(rng.choice([1, 1, 2, 2, 3]))]
    if unique:
        # inside a program: node segments and share leaves from disjoint pools, every share leaf unique,
        # so that no share is a level of another path (the store would refuse it with ValueError)
        segs = [rng.choice(NODES) for _ in range(rng.choice([0, 1, 1, 2]) + (1 if node else 0))]
        if not node:
            _leaf[0] += 1
            segs.append("v%d" % _leaf[0])
    r = rng.random()
    if r < 0.15 and absolute_ok:
        p = "." + ".".join(segs)
    elif r < 0.3 and inline_ok:
        heads = (["frame.me", "frame.main", "actor.me", "framer.me", "framer.main", "me"] if main_ok else
                 ["frame.me", "actor.me", "framer.me", "me"])
        if names:                       # inline relation with an explicit entity name, no `of` clause
            heads = heads + ["frame." + rng.choice(names["frame"]), "frame." + rng.choice(names["frame"]),
                             "framer." + rng.choice(names["framer"])] + \
                (["actor." + rng.choice(names["actor"])] if names["actor"] else [])
        head = rng.choice(heads)
        p = head + "." + ".".join(segs)
    else:
        p = ".".join(segs)
    if node and rng.random() < 0.5:
        p += "."
    return p


def gen_ref(rng, node, names, safe=False, main_ok=True, unique=False):
    """safe: forms that parse and resolve inside a program (no inline relation together with a clause,
    `main` only where a main exists)"""
    if not safe:
        return {"path": gen_path(rng, node, names=names), "rel": gen_rel(rng, 3, names) if rng.random() < 0.7 else None}
    if rng.random() < 0.3:
        return {"path": gen_path(rng, node, names=names, main_ok=main_ok, unique=unique), "rel": None}
    return {"path": gen_path(rng, node, main_ok=main_ok, inline_ok=False, unique=unique),
            "rel": gen_rel(rng, 3, names, main_ok) if rng.random() < 0.8 else None}


def documented(ref):
    """the relative path the docstrings of parseIndirect / parseRelation promise for a well formed clause
    (None when the clause is outside the documented forms or is an error form)"""
    path, rel = ref["path"], ref["rel"]
    chunks = path.split(".")

    def framer(r, default="me"):
        if r is None or r == ["root"]:
            return ["framer", default]
        if r == ["me"]:
            return ["me"]
        if r[0] == "framer":
            return ["framer", r[1] or default]
        return None

    def frame(r):
        if r is None or r == ["root"]:
            return ["framer", "me", "frame", "me"]
        if r == ["me"]:
            return ["me"]
        if r[0] == "framer":
            return ["framer", r[1] or "me"]
        if r[0] == "frame":
            name = r[1] or "me"
            up = framer(r[2] if len(r) > 2 else None, "main" if name == "main" else "me")
            return None if up is None else up + ["frame", name]
        return None

    if rel is None or rel == ["root"]:
        relparts = []
    elif rel == ["me"]:
        relparts = ["me"]
    elif rel[0] == "framer":
        relparts = ["framer", rel[1] or "me"]
    elif rel[0] == "frame":
        relparts = frame(rel)
    else:
        up = frame(rel[2] if len(rel) > 2 else None)
        relparts = None if up is None else up + ["actor", rel[1] or "me"]
    if relparts is None:
        return None
    if path.startswith("."):
        return ".".join(relparts) + path if relparts else path
    if chunks[0] in ("framer", "frame", "actor", "me"):
        if relparts:
            return None                  # inline relation together with a clause: the conflict rules
        # inline relation alone: the missing outer relations are implied (`frame.main` lives in `framer main`)
        if chunks[0] == "frame" and len(chunks) >= 3:
            return ".".join(["framer", "main" if chunks[1] == "main" else "me"] + chunks)
        if chunks[0] == "actor" and len(chunks) >= 3:
            return ".".join(["framer", "me", "frame", "me"] + chunks)
        if chunks[0] in ("framer", "me"):
            return path
        return None
    return ".".join(relparts + chunks)


# ----------------------------------------------------------------------------- skeleton / program

def gen_skeleton(rng, with_acts):
    _leaf[0] = 0
    nfr = rng.choice([1, 2, 3, 3, 4])
    frs = rng.sample(FRAMERS, nfr)
    names = {"framer": list(frs), "frame": [], "actor": []}
    fpool = list(FRAMES)
    rng.shuffle(fpool)
    framers = []
    for i in range(nfr):
        nf = rng.choice([1, 2, 2, 3])
        frames = []
        for j in range(nf):
            if not fpool:
                break
            nm = fpool.pop(0)
            names["frame"].append(nm)
            frames.append({"name": nm, "over": rng.choice([None] + [f["name"] for f in frames]) if frames else None,
                           "via": None, "acts": [], "clones": []})
        framers.append({"name": frs[i], "sched": "active" if i == 0 else rng.choice(["aux", "aux", "active"]),
                        "via": None, "frames": frames})
    nact = rng.choice([1, 2, 3])
    acts = []
    pool = list(APARTS)
    rng.shuffle(pool)
    for k in range(nact):
        parts = [pool.pop()] + ([pool.pop()] if pool and rng.random() < 0.6 else [])
        acts.append(parts)
    names["actor"] = [actor_name(p) for p in acts]
    for fr in framers:
        if rng.random() < 0.6:
            fr["via"] = gen_ref(rng, True, names, safe=True, main_ok=not with_acts, unique=with_acts)
        for f in fr["frames"]:
            if rng.random() < 0.5:
                f["via"] = gen_ref(rng, True, names, safe=True, main_ok=not with_acts, unique=with_acts)
    prog = {"framers": framers, "actors": acts}
    if with_acts:
        # one moot framer cloned into a frame of the first framer gives a `main` link at build time
        if rng.random() < 0.6 and fpool:
            mf = fpool.pop(0)
            names["frame"].append(mf)
            moot = {"name": "mike", "sched": "moot", "via": gen_ref(rng, True, names, safe=True, unique=True) if rng.random() < 0.5 else None,
                    "frames": [{"name": mf, "over": None, "via": gen_ref(rng, True, names, safe=True, unique=True) if rng.random() < 0.5 else None,
                                "acts": [], "clones": []}]}
            framers.append(moot)
            names["framer"].append("mike")
            # the moot is cloned one to four times, in frames of any of the other framers; a tag is unique within
            # one main framer only, so different main framers may use the same tag (clone names <main>_<tag>)
            names["tag"] = []
            hosts = [fr for fr in framers if fr["sched"] != "moot"]
            for _c in range(rng.choice([1, 2, 2, 3, 4])):
                hf = rng.choice(hosts)
                free = [t for t in TAGS if hf["name"] + ":" + t not in names["tag"]]
                if not free:
                    continue
                tag = rng.choice(free[:2])
                names["tag"].append(hf["name"] + ":" + tag)
                host = rng.choice(hf["frames"])
                host["clones"].append({"of": "mike", "tag": tag,
                                       "via": gen_ref(rng, True, names, safe=True, main_ok=False, unique=True) if rng.random() < 0.65 else None})
        ai = 0
        for fr in framers:
            mok = fr["sched"] == "moot"
            for f in fr["frames"]:
                for _ in range(rng.choice([1, 1, 2, 3])):
                    r0 = rng.random()
                    if r0 < 0.3:
                        # a transition whose needs refer to shares relatively / to the framer's own clocks
                        needs = []
                        for _n in range(rng.choice([1, 1, 2])):
                            if rng.random() < 0.6:
                                needs.append({"kind": "ref", "ref": gen_ref(rng, False, names, safe=True, main_ok=mok, unique=True),
                                              "cmp": rng.choice(["", " == 1", " >= 2"])})
                            else:
                                needs.append({"kind": "clock", "which": rng.choice(["elapsed", "recurred"]),
                                              "re": rng.choice([None, "me", fr["name"], fr["name"]])})
                        f["acts"].append({"verb": "go", "needs": needs})
                    elif r0 < 0.65:
                        f["acts"].append({"verb": "put", "ref": gen_ref(rng, False, names, safe=True, main_ok=mok, unique=True)})
                    else:
                        pers = []
                        for k in range(rng.choice([0, 1, 2])):
                            pers.append(["k%d" % (k + 1), rng.choice(["", gen_ipath(rng, None, quoted=True, safe=True)])])
                        src = {}
                        for cl in ("from", "for", "qua"):
                            if rng.random() < (0.3 if cl != "qua" else 0.15):
                                # `qua` sources are resolved before the actor exists: no actor-relative form there
                                r = gen_ref(rng, False, names, safe=True, main_ok=mok, unique=True)
                                if cl == "qua":
                                    while (r["rel"] and r["rel"][0] == "actor") or r["path"].startswith("actor."):
                                        r = gen_ref(rng, False, names, safe=True, main_ok=mok, unique=True)
                                src[cl] = {"ref": r, "fields": rng.choice([[], [], ["a"]])}
                        f["acts"].append({"verb": "do", "src": src,
                                          "via": gen_ref(rng, True, names, safe=True, main_ok=mok, unique=True) if rng.random() < 0.6 else None,
                                          "per": pers, "as": acts[ai % len(acts)] if rng.random() < 0.7 else None})
                        ai += 1
    return prog, names


def gen_ipath(rng, avoid, quoted=False, safe=False, no_names=False):
    """a path name string as Act.resolvePath receives it (no parse): keywords, literals, explicit names"""
    tail = [rng.choice(LITS) for _ in range(rng.choice([0, 1, 1, 2]))]
    heads = [[], [], [], ["me"], ["framer"], ["framer", "me"], ["framer", "main"], ["framer", "me", "frame"],
             ["framer", "me", "frame", "me"], ["framer", "main", "frame", "main"], ["framer", "me", "frame", "me", "actor"],
             ["framer", "me", "frame", "me", "actor", "me"], ["framer", "me", "actor", "me"], ["framer", "me", "actor"],
             ["frame", "me"], ["actor", "me"], [""], ["", "framer", "alpha"], ["", "framer", "bravo", "frame", "fone"],
             ["framer", "other"], ["framer", "other", "frame", "fother", "actor", "me"]]
    if no_names:
        heads = [h for h in heads if "alpha" not in h and "bravo" not in h]
    h = rng.choice(heads)
    if safe:
        # inside a program: heads whose resolution cannot raise (no dangling keyword, no unresolvable main)
        h = rng.choice([[], [], ["me"], ["framer", "me"], ["framer", "me", "frame", "me"],
                        ["framer", "me", "frame", "me", "actor", "me"], ["framer", "me", "actor", "me"],
                        ["frame", "me"], [""], ["", "framer", "alpha"], ["framer", "other"]])
        _leaf[0] += 1
        tail = [rng.choice(NODES) for _ in range(rng.choice([0, 0, 1]))] + ["w%d" % _leaf[0]]
    segs = h + tail
    if segs == [""]:
        segs = ["", rng.choice(LITS)]
    p = ".".join(segs)
    if p and rng.random() < 0.2 and not p.endswith("."):
        p += "."
    if quoted and (p.endswith(".") and not tail):
        p = p.rstrip(".")
    return p


def need_text(nd):
    if nd["kind"] == "ref":
        return " ".join(ref_tokens(nd["ref"])) + nd["cmp"]
    return "%s%s >= 1" % (nd["which"], "" if nd["re"] is None else " re " + nd["re"])


def script(prog):
    L = ["house h", ""]
    for fr in prog["framers"]:
        first = fr["frames"][0]["name"]
        line = "  framer %s be %s first %s" % (fr["name"], fr["sched"], first)
        if fr["via"]:
            line += " via " + " ".join(ref_tokens(fr["via"]))
        L.append(line)
        for f in fr["frames"]:
            line = "    frame %s" % f["name"]
            if f["over"]:
                line += " in %s" % f["over"]
            if f["via"]:
                line += " via " + " ".join(ref_tokens(f["via"]))
            L.append(line)
            for c in f["clones"]:
                line = "      aux %s as %s" % (c["of"], c["tag"])
                if c["via"]:
                    line += " via " + " ".join(ref_tokens(c["via"]))
                L.append(line)
            for a in f["acts"]:
                if a["verb"] == "put":
                    L.append("      put 1 into " + " ".join(ref_tokens(a["ref"])))
                elif a["verb"] == "go":
                    L.append("      go me if " + " and ".join(need_text(nd) for nd in a["needs"]))
                else:
                    line = "      do fb ref"
                    if a["via"]:
                        line += " via " + " ".join(ref_tokens(a["via"]))
                    for cl in ("from", "for", "qua"):
                        if cl in a.get("src", {}):
                            sc = a["src"][cl]
                            line += " %s %s%s" % (cl, (" ".join(sc["fields"]) + " in ") if sc["fields"] else "",
                                                   " ".join(ref_tokens(sc["ref"])))
                    if a["per"]:
                        line += " per " + " ".join('%s "%s"' % (k, v) for k, v in a["per"])
                    if a["as"]:
                        line += " as " + " ".join(a["as"])
                    L.append(line)
        L.append("")
    return "\n".join(L)


def rename_prog(prog, kind, old, new):
    p = json.loads(json.dumps(prog))
    for fr in p["framers"]:
        if kind == "framer" and fr["name"] == old:
            fr["name"] = new
        fr["via"] = rename_ref(fr["via"], kind, old, new)
        for f in fr["frames"]:
            if kind == "frame":
                if f["name"] == old:
                    f["name"] = new
                if f["over"] == old:
                    f["over"] = new
            f["via"] = rename_ref(f["via"], kind, old, new)
            for c in f["clones"]:
                # a clone tag is renamed in ONE main framer (old = "<main framer>:<tag>")
                if kind == "tag" and fr["name"] + ":" + c["tag"] == old:
                    c["tag"] = new
                if kind == "framer" and c["of"] == old:
                    c["of"] = new
                c["via"] = rename_ref(c["via"], kind, old, new)
            for a in f["acts"]:
                if a["verb"] == "put":
                    a["ref"] = rename_ref(a["ref"], kind, old, new)
                elif a["verb"] == "go":
                    for nd in a["needs"]:
                        if nd["kind"] == "ref":
                            nd["ref"] = rename_ref(nd["ref"], kind, old, new)
                        elif kind == "framer" and nd["re"] == old:
                            nd["re"] = new
                else:
                    a["via"] = rename_ref(a["via"], kind, old, new)
                    for sc in a.get("src", {}).values():
                        sc["ref"] = rename_ref(sc["ref"], kind, old, new)
                    if kind == "actor" and a["as"] is not None and actor_name(a["as"]) == old:
                        a["as"] = name_parts(new)
    if kind == "actor":
        p["actors"] = [name_parts(new) if actor_name(x) == old else x for x in p["actors"]]
    return p


def actor_parts(name):
    """nameToPath(name).strip('.').split('.') as the documentation describes it: an upper case letter
    starts a new lower-cased segment"""
    out, cur = [], ""
    for ch in name:
        if ch.isupper():
            out.append(cur)
            cur = ch.lower()
        else:
            cur += ch
    out.append(cur)
    while out and out[0] == "":
        out.pop(0)
    return out


def replace_name(path, kind, old, new):
    """exactly the segments that spell the old name"""
    segs = path.split(".")
    if kind == "frame":
        return ".".join(new if s == old else s for s in segs)
    alltags = TAGS + NEW["tag"]
    if kind == "framer":
        # a clone of a moot framer is named <surname of its main framer>_<tag>
        return ".".join(new if s == old else new + s[len(old):]
                        if s.startswith(old + "_") and s[len(old) + 1:] in alltags else s for s in segs)
    if kind == "tag":
        host, tag = old.split(":")
        return ".".join(host + "_" + new if s == host + "_" + tag else s for s in segs)
    o, n = actor_parts(old), actor_parts(new)
    out, i = [], 0
    while i < len(segs):
        if segs[i:i + len(o)] == o:
            out += n
            i += len(o)
        elif segs[i] == old:
            out.append(new)
            i += 1
        else:
            out.append(segs[i])
            i += 1
    return ".".join(out)


# ----------------------------------------------------------------------------- implementation adapters

class _Rec:
    def __init__(self, name, kind):
        self.name, self.kind = name, kind

    def update(self, *a, **k):
        return self

    def create(self, *a, **k):
        return self


class _StoreDouble:
    """records the path Act.resolvePath hands to the store instead of creating the share / node"""
    def create(self, path):
        return _Rec(path, "S")

    def createNode(self, path):
        return _Rec(path, "N")


def enc(s):
    return "~" if s is None else "-" if s == "" else s


def raw_ctx(frame):
    frames, f = [], frame
    while f:
        frames.append((f.name, f.inode))
        f = f.over
    framer = frame.framer
    mains, main, guard = [], framer.main, 0
    while main and guard < 20:
        chain, m = [], main
        while m:
            chain.append((m.name, m.inode))
            m = m.over
        mainer = main.framer
        mains.append((chain, mainer.name, mainer.inode))
        main = mainer.main
        guard += 1
    return frames, framer.name, framer.inode, mains


def res_request(ctx, actor, inode, ipath):
    frames, fname, finode, mains = ctx
    out = ["res", enc(actor), enc(inode), enc(ipath), "F", str(len(frames))]
    for n, i in frames:
        out += [n, enc(i)]
    out += ["R", fname, enc(finode), "M", str(len(mains))]
    for chain, mn, mi in mains:
        out += ["C", str(len(chain))]
        for n, i in chain:
            out += [n, enc(i)]
        out += [mn, enc(mi)]
    return " ".join(out)


def call_resolve(frame, actor, inode, ipath):
    from ioflo.base import acting, excepting
    real = frame.store
    a = acting.Actor(name=actor, store=real) if actor is not None else "unresolved"
    act = acting.Act(frame=frame, actor=a, inode=inode)
    frame.store = _StoreDouble()
    try:
        r = act.resolvePath(ipath)
        return "%s %s" % (r.name if r.name else "-", r.kind)
    except excepting.ResolveError as ex:
        msg = str(ex)
        if "Missing main" in msg:
            return "ERR nomain"
        if "Unresolved actor" in msg:
            return "ERR noactor"
        if "Incomplete relative" in msg:
            return "ERR incomplete"
        return "ERR resolve"
    except IndexError:
        return "ERR index"
    finally:
        frame.store = real


_cache = {}


def built(prog, fresh=False):
    """real build of the skeleton / program; None if it does not build"""
    text = script(prog)
    if text in _cache and not fresh:
        return _cache[text]
    sk = flob.build(text, 0.125)
    if len(_cache) > 64:
        _cache.clear()
    # Builder.build clears the class registries of the previous house: objects of an older build stay
    # usable for attribute reads, which is all the harness does with them
    _cache[text] = sk
    return sk


def find_frame(sk, framer, frame):
    fr = flob.framer_of(sk, framer)
    return fr.frameNames[frame] if fr is not None and frame in fr.frameNames else None


def res_setup(case, prog):
    sk = built(prog)
    if sk is None:
        return None
    for house in sk.houses:
        for fr in house.framers:
            fr.main = None
    for aux, (mfr, mframe) in case["mains"]:
        a = flob.framer_of(sk, prog["framers"][aux]["name"])
        a.main = find_frame(sk, prog["framers"][mfr]["name"], prog["framers"][mfr]["frames"][mframe]["name"])
    fi, fj = case["at"]
    return find_frame(sk, prog["framers"][fi]["name"], prog["framers"][fi]["frames"][fj]["name"])


def prog_refs(prog, sk):
    """for every reference of the program: (description, frame object, actor name, act inode, ref tokens or
    ipath text, resolved name from the real build)"""
    rows = []
    for fr in prog["framers"]:
        if fr["sched"] == "moot":
            continue
        rows += framer_rows(prog, sk, fr, fr["name"])
    # the clones of the moot framer: named <surname>_<tag>
    for name, crow in clone_rows(prog, sk):
        rows += crow
    return rows


def clone_rows(prog, sk):
    """[(clone framer name, its rows)] — the rows of all clones of one moot are aligned position by position"""
    out = []
    for fr in prog["framers"]:
        for f in fr["frames"]:
            for c in f["clones"]:
                moot = [m for m in prog["framers"] if m["name"] == c["of"]][0]
                name = "%s_%s" % (fr["name"], c["tag"])
                out.append((name, framer_rows(prog, sk, moot, name)))
    return out


def framer_rows(prog, sk, fr, realname):
    rows = []
    frobj = flob.framer_of(sk, realname)
    for f in fr["frames"]:
        fobj = frobj.frameNames[f["name"]]
        puts = [a for a in fobj.enacts if type(a.actor).__name__ == "PokeDirect"]
        dos = [a for a in fobj.reacts if type(a.actor).__name__ == "FbRef"]
        gos = [a for a in fobj.preacts if type(a.actor).__name__ == "Transiter"]
        pi = di = gi = 0
        for a in f["acts"]:
            if a["verb"] == "put":
                act = puts[pi]; pi += 1
                rows.append(("put", fobj, act.actor.name, None, ref_tokens(a["ref"]), False, act.parms["destination"].name))
            elif a["verb"] == "go":
                act = gos[gi]; gi += 1
                for nd, nact in zip(a["needs"], act.parms["needs"]):
                    st = nact.parms["state"].name
                    if nd["kind"] == "ref":
                        rows.append(("go.need", fobj, nact.actor.name, None, ref_tokens(nd["ref"]), False, st))
                    else:
                        # "implied state is framer.<current framer>.state.<name>": the relative path framer.me.state.<name>
                        rows.append(("go.clock." + nd["which"], fobj, nact.actor.name, None,
                                     "framer.me.state." + nd["which"], None, st))
            else:
                act = dos[di]; di += 1
                if a["via"] or a["per"]:      # Act.resolve makes iois (the inode among them) only for non-empty ioinits
                    rows.append(("do.inode", fobj, act.actor.name, act.inode, "", None, act.actor.inode.name))
                for k, v in a["per"]:
                    rows.append(("do." + k, fobj, act.actor.name, act.inode, v or k, None, getattr(act.actor, k).name))
                # source references: `from` (parm sources) and `qua` (init sources, looked up before the actor
                # exists) are resolved while Act.inode is still None, `for` (ioinit sources) with the act inode.
                # Their shares are not kept on the act; they show in the store (name None = only there).
                for cl, actor, inode in (("qua", None, None), ("from", act.actor.name, None), ("for", act.actor.name, act.inode)):
                    if cl in a.get("src", {}):
                        rows.append(("do." + cl, fobj, actor, inode, ref_tokens(a["src"][cl]["ref"]), False, None))
    return rows


def store_shares(sk):
    """every share of the built store (normalised path), without what every house has anyway"""
    from ioflo.base import storing
    out = []

    def walk(node, prefix):
        for key, val in node.items():
            path = prefix + [key]
            if isinstance(val, storing.Share):
                out.append(".".join(path))
            else:
                walk(val, path)
    for house in sk.houses:
        walk(house.store.shares, [])
    return sorted(p for p in out if not house_share(p))


def house_share(p):
    """what every house / framer has anyway"""
    seg = p.split(".")
    if seg[0] in ("meta", "time", "realtime", "datetime", "ioflo"):
        return True
    return len(seg) == 4 and seg[0] == "framer" and seg[2] == "state" and seg[3] in ("elapsed", "recurred", "active", "human")


def no_inode_context(frame):
    frames, fname, finode, mains = raw_ctx(frame)
    return (not finode and all(not i for _, i in frames)
            and all(not mi and all(not i for _, i in chain) for chain, _, mi in mains))


def norm(name):
    """store location of a share / node name"""
    return name.strip(".")


# ----------------------------------------------------------------------------- the check

class CHECK(core.Check):
    PROPERTY = "C13"
    LEAN_MODULES = ["IofloModel.Props.C13"]
    ENGINE = "resolvepath"
    N_QUICK = 400
    N_THOROUGH = 12000
    N_SEARCH = 1500
    RULE = ("names of framers / frames / actors and the fresh names come from pools with digits, underscores, camel humps and "
            "keyword extensions (mainloop, meter, framerate, me2, actor1, Pump2, My_v); three case kinds from one rng: 40% `res` (skeleton of 1-4 framers x 1-3 nested frames with random `via` "
            "inodes built by the real Builder, random main links, act inode None/''/path, actor name, ipath over all "
            "keyword heads x literal tails x trailing dot, absolute paths that contain entity names; one entity renamed), "
            "35% `parse` (clause tokens from the clause grammar incl. inline relations, me/main/root, nested of-clauses, "
            "plus random token soups), 25% `prog` (program with put/do references, framer/frame/clone via clauses, a cloned "
            "moot framer, rebuilt with one framer / frame / actor renamed). non-trivial = resolves without error and the "
            "renamed entity's name occurs in a resolved path (res, prog) / parses (parse)")
    TRUSTED = ["correspondence: Builder.parseIndirect and Act.resolvePath of the working tree are called on generated "
               "tokens / on Act objects placed in frames of a house built by the real Builder (store replaced by a "
               "recording double for direct calls); whole programs are built by the real Builder and every resolved "
               "share/node name is compared with the model (driver engine 'resolvepath')",
               "str.split/rstrip/join of CPython; the tokenizer (C16), literal conversion of `per` values (C17), "
               "clone naming surname_tag (C12)"]
    PARTIAL = ["theorems speak about path segments: nameToPath (camel case actor name -> segments), str.split and the "
               "REO_* regular expressions are transcribed and tied to the code by the correspondence only; explicit "
               "entity names written inline in a relative path token (framer.NAME.x) count as literal segments; "
               "clone naming and Store.create share/node conflicts are outside the property; incomplete relative "
               "paths (`framer`, `framer.X.frame`, …) give the ResolveError of fix D68, modelled as `incomplete`"]
    TECHNIQUE = "Lean 4 theorems (equivariance of the transcribed resolvePath / parseIndirect under segment renamings) + differential and metamorphic correspondence"
    LEVEL_TEXT = ("Full proof on the model: C13_resolve_equivariant (for every context - frame/over chain, framer, chain of "
                  "main framers, actor -, act inode, path and every keyword-respecting renaming f of segments: resolvePath of "
                  "the renamed inputs = renamed resolvePath), C13_absolute_ignores_ctx, C13_rename_one / "
                  "C13_other_paths_unchanged / C13_rename_injective / C13_rename_framer_is_map (renaming one fresh name "
                  "changes exactly the segments spelling it), C13_actor_splice (an actor's name enters as one run of "
                  "segments, any new name), C13_parse_equivariant (parseIndirect/parseRelation commute with renaming the "
                  "name tokens of the of-clauses), C13_parse_then_resolve, C13_clause_forms. No _partial theorem. Tied to "
                  "the code by calling the real Builder.parseIndirect and Act.resolvePath (on Act objects inside houses "
                  "built by the real Builder) and by building whole programs; the oracle rebuilds every case with one "
                  "entity renamed and demands exactly the renamed segments to change.")
    LEVEL_NOTE = ("Trusted: Lean kernel; axioms propext, Classical.choice, Quot.sound; hand transcription of "
                  "acting.Act.resolvePath, aiding.nameToPath, building.parseIndirect/parseRelation validated only by the "
                  "correspondence runs; a recording double replaces the store in direct resolvePath calls; main links of "
                  "auxiliary framers are set by the harness as Frame.enter does; string splitting, regular expressions "
                  "and nameToPath are outside the theorems.")

    # ---- generation
    def generate(self, rng, n, tier):
        for i in range(n):
            r = rng.random()
            if r < 0.40:
                yield self.gen_res(rng)
            elif r < 0.75:
                yield self.gen_parse(rng)
            else:
                yield self.gen_prog(rng)

    def pick_rename(self, rng, names):
        kinds = [k for k in ("framer", "frame", "actor", "tag", "tag") if [n for n in names.get(k, []) if n != "mike"]]
        kind = rng.choice(kinds)
        old = rng.choice([n for n in names[kind] if n != "mike"])
        new = rng.choice(NEW[kind])
        return [kind, old, new]

    def gen_res(self, rng):
        prog, names = gen_skeleton(rng, False)
        nfr = len(prog["framers"])
        mains = []
        for i in range(1, nfr):
            if rng.random() < 0.7:
                j = rng.randrange(0, i)
                mains.append([i, [j, rng.randrange(len(prog["framers"][j]["frames"]))]])
        fi = rng.randrange(nfr)
        fj = rng.randrange(len(prog["framers"][fi]["frames"]))
        ren = self.pick_rename(rng, names)
        inode = rng.choice([None, None, "", gen_ipath(rng, None, no_names=True).rstrip(".") + ".",
                            gen_ipath(rng, None, no_names=True)])
        if inode == ".":
            inode = "q."
        actor = rng.choice(names["actor"] + [None, "lower", "XRay", "aB", "Pump2", "my_pump", "aB3c", "X_1Y", "pump1"])
        ipath = gen_ipath(rng, None)
        return {"kind": "res", "prog": prog, "mains": mains, "at": [fi, fj], "inode": inode, "actor": actor,
                "ipath": ipath, "rename": ren}

    def gen_parse(self, rng):
        names = {"framer": FRAMERS, "frame": FRAMES, "actor": ["DoIt", "Zed"]}
        node = rng.randrange(2)
        r = rng.random()
        if r < 0.75:
            ref = gen_ref(rng, bool(node), names)
            toks = ref_tokens(ref) + rng.choice([[], [], ["into"], ["with", "1"], ["=="], ["is", "updated"]])
            return {"kind": "parse", "node": node, "tokens": toks, "ref": ref}
        pool = ["of", "me", "framer", "frame", "actor", "root", "main", "x", "x.y", ".x", "x.", ".", "a..b", "_u", "9z",
                "alpha", "fone", "into", "of", "of", "frame.me.x", "actor.me", "framer.alpha.x", "in", "1a"]
        toks = [rng.choice(pool) for _ in range(rng.choice([1, 2, 3, 4, 5, 6]))]
        return {"kind": "parse", "node": node, "tokens": toks}

    def gen_prog(self, rng):
        prog, names = gen_skeleton(rng, True)
        return {"kind": "prog", "prog": prog, "rename": self.pick_rename(rng, names)}

    def exhaustive(self, tier):
        out = []
        # every documented clause form over a tiny name pool, dot / relative path, node or not
        def rels(level):
            yield None
            yield ["root"]
            yield ["me"]
            for n in (None, "me", "main", "alpha"):
                yield ["framer", n]
            if level >= 2:
                for n in (None, "me", "main", "fone"):
                    for up in (None, ["framer", None], ["framer", "main"], ["framer", "alpha"], ["me"], ["root"]):
                        yield ["frame", n, up]
            if level >= 3:
                for n in (None, "me", "DoIt"):
                    for up in ([None, ["framer", "alpha"], ["frame", None, None], ["frame", "fone", ["framer", "alpha"]],
                                ["frame", "main", None], ["me"], ["actor", None, None]]):
                        yield ["actor", n, up]
        paths = ["x", "x.y", ".x.y", "frame.me.x", "actor.me.x", "framer.me.x", "frame.x", "me.x",
                 "frame.main.x", "frame.mainloop.x", "frame.me2.x", "framer.meter.x", "actor.Pump2.x"] + \
            (["x.", ".x."] if tier == "thorough" else [])
        # two main framers clone the same moot under the SAME tag with different `via` inodes; the moot's
        # inode-relative references (root-relative path, `of me`, a doer's ioinit) belong to each clone's own
        # inode context; one clone's tag / one main framer is renamed
        def fr(name, sched, via, frames):
            return {"name": name, "sched": sched, "via": via, "frames": frames}

        def fm(name, acts=(), clones=(), via=None):
            return {"name": name, "over": None, "via": via, "acts": list(acts), "clones": list(clones)}
        node = lambda p: {"path": p, "rel": None}
        moot_acts = [{"verb": "put", "ref": {"path": "v1", "rel": None}},
                     {"verb": "put", "ref": {"path": "nb.v2", "rel": ["me"]}},
                     {"verb": "do", "src": {}, "via": None, "per": [["k1", ""]], "as": ["do", "it"]}]
        for va, vb in ((".na.", ".nb."), ("nc.", ".nd.na."), (None, ".nb.")):
            for ren in (["tag", "alpha:cl", "zz"], ["tag", "bravo:cl", "zz"], ["framer", "bravo", "zqx"], ["framer", "alpha", "zqx"]):
                prog = {"actors": [["do", "it"]], "framers": [
                    fr("alpha", "active", None, [fm("fone", clones=[{"of": "mike", "tag": "cl", "via": node(va) if va else None}])]),
                    fr("bravo", "active", None, [fm("ftwo", clones=[{"of": "mike", "tag": "cl", "via": node(vb) if vb else None}])]),
                    fr("mike", "moot", None, [fm("ftri", acts=moot_acts)])]}
                out.append({"kind": "prog", "prog": prog, "rename": ren, "origin": "exhaustive"})
        for p in paths:
            for rel in rels(3):
                for node in ((0, 1) if tier == "thorough" else (0,)):
                    ref = {"path": p, "rel": rel}
                    out.append({"kind": "parse", "node": node, "tokens": ref_tokens(ref), "ref": ref, "origin": "exhaustive"})
        return out

    # ---- implementation
    def impl(self, case):
        flob.setup()
        k = case["kind"]
        if k == "parse":
            return [self.impl_parse(case["tokens"], case["node"])]
        if k == "res":
            frame = res_setup(case, case["prog"])
            if frame is None:
                return ["ERR build"]
            return [call_resolve(frame, case["actor"], case["inode"], case["ipath"])]
        sk = built(case["prog"])
        if sk is None:
            return ["ERR build " + str(flob.HOOKS.get("build_error"))]
        return ["%s %s" % (d, norm(name)) for d, _, _, _, _, _, name in prog_refs(case["prog"], sk) if name is not None] + \
            ["store " + " ".join(store_shares(sk))]

    def impl_parse(self, tokens, node):
        from ioflo.base import building, excepting
        b = building.Builder()
        try:
            path, index = b.parseIndirect(list(tokens), 0, node=bool(node))
            return "%s %d" % (path, index)
        except excepting.ParseError:
            return "ERR parse"
        except IndexError:
            return "ERR parse"           # every caller turns IndexError into ParseError "Not enough tokens"

    # ---- model (two passes for prog cases: parse, then resolve with the parsed path)
    def model(self, cases):
        flob.setup()
        drv = core.Driver(self.ENGINE)
        first, plan = [], []
        for c in cases:
            if c["kind"] == "parse":
                plan.append(("parse", len(first)))
                first.append("parse %d %s" % (c["node"], " ".join(c["tokens"])))
            elif c["kind"] == "res":
                frame = res_setup(c, c["prog"])
                if frame is None:
                    plan.append(("const", "ERR build"))
                else:
                    plan.append(("res", len(first)))
                    first.append(res_request(raw_ctx(frame), c["actor"], c["inode"], c["ipath"]))
            else:
                sk = built(c["prog"])
                if sk is None:
                    plan.append(("const", "ERR build " + str(flob.HOOKS.get("build_error"))))
                    continue
                rows = prog_refs(c["prog"], sk)
                items = []
                for d, fobj, actor, inode, ref, node, name in rows:
                    ctx = raw_ctx(fobj)
                    show = name is not None
                    if node is None:                      # ipath text goes to resolvePath as it is
                        items.append((d, ctx, actor, inode, None, ref, show))
                    else:
                        items.append((d, ctx, actor, inode, len(first), None, show))
                        first.append("parse %d %s" % (1 if node else 0, " ".join(ref)))
                plan.append(("prog", items))
        r1 = drv.run(first)
        second, outs = [], []
        for p in plan:
            if p[0] == "prog":
                for d, ctx, actor, inode, pi, ipath, show in p[1]:
                    if pi is not None:
                        rep = r1[pi]
                        ipath = None if rep.startswith("ERR") else rep.rsplit(" ", 1)[0]
                    if ipath is not None:
                        second.append(res_request(ctx, actor, inode, ipath))
        r2 = drv.run(second)
        k = 0
        for p in plan:
            if p[0] == "const":
                outs.append([p[1]])
            elif p[0] in ("parse", "res"):
                outs.append([r1[p[1]]])
            else:
                lines, shares = [], set()
                for d, ctx, actor, inode, pi, ipath, show in p[1]:
                    if pi is not None and r1[pi].startswith("ERR"):
                        lines.append("%s %s" % (d, r1[pi]))
                    else:
                        rep = r2[k]; k += 1
                        if rep.startswith("ERR"):
                            lines.append("%s %s" % (d, rep))
                            continue
                        path, kind = rep.rsplit(" ", 1)
                        if kind == "S" and not house_share(norm(path)):
                            shares.add(norm(path))
                        if show:
                            lines.append("%s %s" % (d, norm(path)))
                # the store holds exactly the shares the program's references resolve to
                lines.append("store " + " ".join(sorted(shares)))
                outs.append(lines)
        return outs

    # ---- the property, directly on the implementation
    def oracle(self, case, out):
        if out and out[0].startswith("HARNESS-EXC"):
            return "implementation raised: " + out[0]
        k = case["kind"]
        if k == "parse":
            ref = case.get("ref")
            if ref is None:
                return None
            want = documented(ref)
            if want is None or out[0].startswith("ERR"):
                return None
            got = out[0].rsplit(" ", 1)[0]
            ntok = int(out[0].rsplit(" ", 1)[1])
            if got != want or ntok != len(ref_tokens(ref)):
                return "clause %r: documented relative path %r (%d tokens), parseIndirect gave %r" % (
                    " ".join(ref_tokens(ref)), want, len(ref_tokens(ref)), out[0])
            return None
        kind, old, new = case["rename"]
        prog2 = rename_prog(case["prog"], kind, old, new)
        if k == "res":
            if out[0] == "ERR build":
                return None
            frame2 = res_setup(case, prog2)
            if frame2 is None:
                return "skeleton no longer builds after renaming %s %s" % (kind, old)
            actor2 = new if (kind == "actor" and case["actor"] == old) else case["actor"]
            out2 = call_resolve(frame2, actor2, case["inode"], case["ipath"])
            why = self.compare(case["ipath"].startswith("."), out[0], out2, kind, old, new, "ipath %r" % case["ipath"])
            if why:
                return why
            # distinct names give distinct paths: when the path goes through the actor's name at all, an actor
            # whose name differs only by a digit / an underscore part must not land on the same path
            a = case["actor"]
            if a is not None and not out[0].startswith("ERR"):
                frame1 = res_setup(case, case["prog"])
                if call_resolve(frame1, "Qq", case["inode"], case["ipath"]) != out[0]:
                    for alt in (a + "2" if not a.endswith("2") else a + "3", a + "_b", a[:-1] if len(a) > 1 and a[-1].isdigit() else a + "7"):
                        if alt != a and call_resolve(frame1, alt, case["inode"], case["ipath"]) == out[0]:
                            return "ipath %r: actors %r and %r resolve to the same path %r" % (case["ipath"], a, alt, out[0])
            return None
        if out and out[0].startswith("ERR build"):
            return None
        sk2 = built(prog2, fresh=True)
        if sk2 is None:
            return "program no longer builds after renaming %s %s -> %s" % (kind, old, new)
        rows2 = [r for r in prog_refs(prog2, sk2) if r[6] is not None]
        store2 = store_shares(sk2)
        sk1 = built(case["prog"], fresh=True)           # and the original once more, after the renamed variant
        if sk1 is None:
            return "original program no longer builds after its renamed variant was built"
        rows1 = [r for r in prog_refs(case["prog"], sk1) if r[6] is not None]
        store1b = store_shares(sk1)
        refs = [l for l in out if not l.startswith("store ")]
        store1 = [l for l in out if l.startswith("store")][0].split()[1:]
        if len(rows2) != len(refs):
            return "renamed build has %d references, original %d" % (len(rows2), len(refs))
        seen = {}
        for r in rows1:                                  # two actors of one frame must never collapse
            # (acts without any inode context: no `via` on the act, its frames, its framer or its main chain,
            # where the documented default inode framer.me.frame.me.actor.me applies)
            if r[0] == "do.inode" and r[3] == "" and no_inode_context(r[1]):
                key = (r[1].framer.name, r[1].name, r[3])
                other = seen.setdefault(key, {}).setdefault(norm(r[6]), r[2])
                if other != r[2]:
                    return "actors %r and %r of frame %s share the inode %r" % (other, r[2], r[1].name, norm(r[6]))
        # a framer's `elapsed` / `recurred` condition (bare, `re me` or `re <its own name>`) reads that framer
        # instance's own clock share — in a clone the clone's, not the moot original's
        for r in rows1:
            if r[0].startswith("go.clock."):
                want = "framer.%s.state.%s" % (r[1].framer.name, r[0].split(".")[2])
                if norm(r[6]) != want:
                    return "clock condition of framer %s reads %r instead of its own %r" % (r[1].framer.name, norm(r[6]), want)
        # the clones of a moot are separate instances: the same relative reference must not land on one share
        # through another clone's name
        groups = clone_rows(case["prog"], sk1)
        cnames = [n for n, _ in groups]
        for i in range(len(groups)):
            for j in range(i + 1, len(groups)):
                for ra, rb in zip(groups[i][1], groups[j][1]):
                    if ra[6] is None or rb[6] is None:
                        continue
                    if norm(ra[6]) == norm(rb[6]) and any(cn in norm(ra[6]).split(".") for cn in cnames):
                        return "%s %r resolves to %r in clone %s and in clone %s" % (
                            ra[0], ra[4], norm(ra[6]), groups[i][0], groups[j][0])
        absolutes = set()
        for line, r1, r2 in zip(refs, rows1, rows2):
            d, name = line.split(" ", 1) if " " in line else (line, "")
            if isinstance(r1[4], str):
                absolute = r1[4].startswith(".")
            else:                                        # clause tokens: a dot path without relation (or `of root`)
                absolute = r1[4][0].startswith(".") and r1[4][1:] in ([], ["of", "root"])
            if absolute:
                absolutes.add(name)
            why = self.compare(absolute, name + " X", norm(r2[6]) + " X", kind, old, new, "%s %r" % (d, r1[4]))
            if why:
                return why
        # nothing else appears in the store: the shares of the renamed build are exactly the renamed shares of
        # the original build (absolute references stay as they are), and building the original
        # again afterwards gives the original store again
        want2 = sorted(set(p if p in absolutes else replace_name(p, kind, old, new) for p in store1))
        if store2 != want2:
            return "renaming %s %s -> %s: store of the renamed build has %s unexpected and lacks %s" % (
                kind, old, new, sorted(set(store2) - set(want2))[:4], sorted(set(want2) - set(store2))[:4])
        if store1b != sorted(store1):
            return "building the original again after the renamed variant changes its store: extra %s, missing %s" % (
                sorted(set(store1b) - set(store1))[:4], sorted(set(store1) - set(store1b))[:4])
        return None

    def compare(self, absolute, out1, out2, kind, old, new, what):
        if out1.startswith("ERR") or out2.startswith("ERR"):
            return None if out1 == out2 else "%s: %s before, %s after renaming %s %s" % (what, out1, out2, kind, old)
        p1, k1 = out1.rsplit(" ", 1)
        p2, k2 = out2.rsplit(" ", 1)
        want = p1 if absolute else replace_name(p1, kind, old, new)
        if p2 != want or k1 != k2:
            return "%s: resolves to %r; after renaming %s %s -> %s it must be %r, implementation gives %r" % (
                what, p1, kind, old, new, want, p2)
        return None

    def nontrivial(self, case, out):
        if not out or out[0].startswith(("ERR", "HARNESS")):
            return False
        if case["kind"] == "parse":
            return True
        kind, old, new = case["rename"]
        key = actor_parts(old)[0] if kind == "actor" else old.replace(":", "_") if kind == "tag" else old
        return any(key in line.split(".") or key in re.split(r"[._ ]", line) for line in out if not line.startswith("store"))

    def bucket(self, case, out):
        k = case["kind"]
        if k == "parse":
            return "parse:" + ("err" if out and out[0].startswith("ERR") else "ok")
        tag = "err" if out and out[0].startswith("ERR") else "ok"
        return "%s:%s:%s" % (k, case["rename"][0], tag)

    def shrink_candidates(self, case):
        def clone():
            return json.loads(json.dumps(case))
        if case["kind"] == "parse":
            t = case["tokens"]
            for i in range(len(t)):
                if len(t) > 1:
                    c = clone(); del c["tokens"][i]; c.pop("ref", None); yield c
            return
        prog = case["prog"]
        for i, fr in enumerate(prog["framers"]):
            if fr["via"]:
                c = clone(); c["prog"]["framers"][i]["via"] = None; yield c
            for j, f in enumerate(fr["frames"]):
                if f["via"]:
                    c = clone(); c["prog"]["framers"][i]["frames"][j]["via"] = None; yield c
                for a in range(len(f["acts"])):
                    c = clone(); del c["prog"]["framers"][i]["frames"][j]["acts"][a]; yield c
                    for cl in list(f["acts"][a].get("src", {})):
                        c = clone(); del c["prog"]["framers"][i]["frames"][j]["acts"][a]["src"][cl]; yield c
                for a in range(len(f["clones"])):
                    c = clone(); del c["prog"]["framers"][i]["frames"][j]["clones"][a]; yield c
        if case["kind"] == "res":
            for i in range(len(case["mains"])):
                c = clone(); del c["mains"][i]; yield c
            if case["inode"]:
                c = clone(); c["inode"] = None; yield c
            segs = case["ipath"].split(".")
            for i in range(len(segs)):
                if len(segs) > 1:
                    c = clone(); c["ipath"] = ".".join(segs[:i] + segs[i + 1:]); yield c
