"""C14 — building any script terminates with success or a script error.   PARTIAL (see Props/C14.lean).
Model: lean/IofloModel/Model/Worklist.lean (the resolve loops on their data), lean/IofloModel/Generated/ErrSites.lean
       (message constructions and unbound names, re-extracted from the working tree on every run by
       harness/translate/errsites.py).
Theorems: lean/IofloModel/Props/C14.lean — when the loops end / cannot end / that the repaired loops always end;
       the table theorems over the generated data; the exception table of Builder.build.
Tie: (a) generated frame/framer link structures (over links, under links, clone relations; acyclic and cyclic) are
       written as scripts, built by the real Builder under a wall-clock limit, and the outcome (built / ResolveError /
       no return) is compared with the model's loops run in the builder's order;
     (b) the generated table is the working tree's: a changed source regenerates it and can break the table theorems.
Oracle (independent of the model) and search: grammar-aware random scripts, token- and line-level mutations of
       generated programs and of the example plans, each built under a wall-clock limit enforced with a non-OSError
       exception; a build must return (True/False) or raise ParseError / ResolveError or a literal
       converter's ValueError. Anything else — TypeError, NameError, KeyError, IndexError, …, or no return — is a
       failing input, attributed to a known finding only through the Lean table `knownCrashSites`."""
import json, os, sys, traceback, itertools, random
import core
import flobuild as fb

LIMIT_LOOP = 2.0
LIMIT_SCRIPT = 6.0
LOOP_FUNCS = ("presolvePresolvables", "resolveMoots", "clone", "traceOutline", "traceHuman", "findBottom",
              "resolveOverLinks", "traceHead", "traceHeadHuman")

POOL = fb.RESERVED + ["1j", "inf", "nan", "-1", "0", "0.5", "1e400", "7" * 420, "-0x" + "f" * 300, "x", "me", "main", "framer", "frame", "actor", "root",
                      "all", "any", "aux", "done", "updated", "changed", "next", "value", "elapsed", "recurred", "goal",
                      '"q s"', "a.b", ".a.b", "a..b", ".", "stop", "start", "active", "moot", "slave", "front", "enter",
                      "first", "goto", "print", "put", "set", "inc", "do", "bid", "go", "let", "house", "init", "copy",
                      "timeout", "repeat", "rear", "raze", "mine", "doer", "param", "server", "logger", "log", "loggee",
                      "keep", "flush", "rx", "tx", "a:b:c", ":x", "over", "under", "native", "", "#"]


def outcome(text, limit, files=None, verbosity=0, args=None):
    """(class, function, detail) of building `text` (with the files it loads, at a console verbosity):
    class = ok | failed | <exception class> | HANG;  function = where it was raised (innermost ioflo frame)"""
    try:
        r = fb.build(text, limit=limit, acts=False, files=files, verbosity=verbosity, args=args,
                     name="main.flo" if files else "build.flo")
    except core.HarnessTimeout as ex:
        tb = traceback.extract_tb(ex.__traceback__)
        names = [f.name for f in tb if "ioflo" in f.filename]
        fn = next((n for n in names if n in LOOP_FUNCS), names[-1] if names else "")
        return "HANG", fn, ""
    if r.status in ("ok", "failed"):
        return r.status, "", ""
    cls = r.status[4:]
    fn = ""
    conv = False
    for f, name, line in getattr(r, "frames", []):
        if f.endswith(".py") and f not in ("flobuild.py",):
            fn = name
        if name.startswith("Convert2"):
            conv = True
    return cls, fn, ("converter" if conv else r.detail[:120])


def acceptable(cls, fn, detail):
    """the outcomes the property allows"""
    if cls in ("ok", "failed"):
        return True
    if cls == "ValueError":
        return detail == "converter"
    return cls in ("ParseError", "ResolveError")


# ---- link structures
def over_script(links):
    s = "house h\nframer f be active first fr0\n"
    for i, l in enumerate(links):
        s += "frame fr%d%s\n" % (i, "" if l is None else " in fr%d" % l)
    return s


def under_script(links):
    s = "house h\nframer f be active first fr0\n"
    for i, l in enumerate(links):
        s += "frame fr%d\n" % i
        if l is not None:
            s += "under fr%d\n" % l
    return s


def clone_script(table):
    s = ""
    tag = 0
    for i, row in enumerate(table):
        s += ("house h\nframer m0 be active first m0f\n" if i == 0 else "framer m%d be moot first m%df\n" % (i, i))
        s += "frame m%df\n" % i
        for j in row:
            tag += 1
            s += "aux m%d as t%d\n" % (j, tag)
    return s


def links_word(links):
    return ",".join("-" if l is None else str(l) for l in links)


# ---- share references: every verb that names a source / destination share with a field list
SHARE_PATHS = [".pose.start", ".pose.goal", ".nav.fix", ".a.b", ".a.c"]
SHARE_FIELDS = ["north", "east", "depth", "x", "y"]
SHARE_VALUES = ["1", "2.5", "-3", "True", '"s"', "0x10", "None"]
LOG_RULES = ["once", "never", "always", "update", "change", "streak", "deck"]


_KW_NAMES = None


def kw_param_names():
    """the parameter names of the methods that are called with `**inits` / `**parms` / `**ioinits` (and the like)
    somewhere in the builder-side modules, taken from the AST of the tree under test: a field of a `do … with / cum /
    per / from / for / qua` clause named like one of them reaches that call as a keyword argument"""
    global _KW_NAMES
    if _KW_NAMES is None:
        import ast
        trees = []
        for rel in ("acting.py", "doing.py", "needing.py", "fiating.py", "wanting.py", "completing.py", "poking.py",
                    "goaling.py", "deeding.py", "framing.py", "tasking.py"):
            path = os.path.join(core.REPO, "ioflo", "base", rel)
            if os.path.exists(path):
                with open(path, encoding="utf-8") as f:
                    trees.append(ast.parse(f.read()))
        called = set()
        for t in trees:
            for n in ast.walk(t):
                if isinstance(n, ast.Call) and any(k.arg is None for k in n.keywords):
                    f = n.func
                    called.add(f.attr if isinstance(f, ast.Attribute) else f.id if isinstance(f, ast.Name) else "")
        # a call of an instance or a class goes to __call__ / __init__ / action
        called |= {"__init__", "__call__", "action"}
        names = {}
        for t in trees:
            for n in ast.walk(t):
                if isinstance(n, ast.FunctionDef) and n.name in called:
                    a = n.args
                    for x in a.posonlyargs + a.args + a.kwonlyargs + [y for y in (a.vararg, a.kwarg) if y]:
                        names[x.arg] = names.get(x.arg, 0) + 1
        # a name many of these methods have is drawn more often (at most 12 to 1)
        _KW_NAMES = [n for n in sorted(names) for _ in range(min(names[n], 12))]
    return _KW_NAMES


class ShareGen(object):
    """Scripts about shares and their fields.  A few shares are created with known fields (`init … with`); then every
    verb that takes a share reference with an optional field list — init … from, server … for, loggee, put, copy, set,
    inc, do … from/for/qua/with/per/cum, bid … at, go/let … if — is given references to a share that exists with the
    named field, exists WITHOUT it, exists with more fields, holds a single `value`, or does not exist at all; with and
    without the `fields in` clause on either side."""

    def __init__(self, rng):
        self.r = rng
        self.have = {}                     # path -> list of fields created so far
        self.kw = kw_param_names()

    def direct(self, fields=None):
        r = self.r
        if fields is None:
            fields = r.choice([[], r.sample(SHARE_FIELDS, r.randrange(1, 3)), r.sample(SHARE_FIELDS, 1), ["value"]])
        if not fields:
            return [r.choice(SHARE_VALUES)]
        if r.random() < 0.15:              # a field named like a parameter of the method that receives the fields
            fields = list(fields)
            fields[r.randrange(len(fields))] = r.choice(self.kw)
        out = []
        for f in fields:
            out += [f, r.choice(SHARE_VALUES)]
        return out

    def ref(self, one=False, relative=False):
        """([fields in] path) tokens"""
        r = self.r
        k = r.random()
        known = list(self.have)
        if known and k < 0.85:
            path = r.choice(known)
        elif k < 0.95:
            path = r.choice(SHARE_PATHS)
        else:
            path = r.choice([".nowhere.n", ".pose", ".a", ".pose.start.deep"])   # missing, a node, below a share
        has = self.have.get(path, [])
        k = r.random()
        lacks = [f for f in SHARE_FIELDS if f not in has] or ["zz"]
        if k < 0.3:
            fields = []
        elif k < 0.65 and has:
            fields = r.sample(has, r.randrange(1, len(has) + 1))
        elif k < 0.83:
            fields = [r.choice(lacks)]                                # a field it lacks
        elif k < 0.95 and has:
            fields = [r.choice(has), r.choice(lacks)]                 # one it has, one it lacks
            r.shuffle(fields)
        else:
            fields = ["value"]
        if one:
            fields = fields[:1]
        toks = (fields + ["in"] if fields else []) + [path]
        if relative and r.random() < 0.2:
            toks = (fields + ["in"] if fields else []) + [path.lstrip(".").replace(".", "_")] + \
                r.choice([["of", "me"], ["of", "framer"], ["of", "frame"], ["of", "framer", "f"], ["of", "frame", "a"]])
        return toks

    def house_lines(self):
        r = self.r
        out = []
        for path in r.sample(SHARE_PATHS, r.randrange(1, 4)):
            fields = r.choice([r.sample(SHARE_FIELDS, r.randrange(1, 4)), r.sample(SHARE_FIELDS, r.randrange(2, 4)),
                               r.sample(SHARE_FIELDS, 1), ["value"], []])
            if fields and fields != ["value"] and r.random() < 0.2:
                fields = fields + [r.choice(self.kw)]      # so that `from / for / qua <that field> in <share>` can name it
            d = self.direct(fields)
            out.append(["init", path, "with"] + d)
            self.have[path] = d[0::2] if len(d) > 1 else ["value"]
        for _ in range(r.randrange(0, 3)):
            out.append(["init"] + self.ref() + ["from"] + self.ref())
        if r.random() < 0.35:
            c = ["server", "s"]
            parts = [["for"] + self.ref(), ["per"] + self.direct()] if r.random() < 0.5 else [["for"] + self.ref()]
            r.shuffle(parts)
            out.append(c + [t for part in parts for t in part])
        if r.random() < 0.35:
            out.append(["logger", "l", "to", "/dev/shm/verif-log"])
            for i in range(r.randrange(1, 3)):
                out.append(["log", "g%d" % i, "on", r.choice(LOG_RULES)])
                c = ["loggee"]
                for _ in range(r.randrange(1, 3)):
                    c += self.ref() + (["as", r.choice(["t", "u", "t"])] if r.random() < 0.4 else [])
                out.append(c)
        return out

    def frame_lines(self):
        r = self.r
        out = []
        for _ in range(r.randrange(2, 6)):
            k = r.randrange(9)
            if k == 0:
                out.append(["put"] + self.direct() + ["into"] + self.ref(relative=True))
            elif k == 1:
                out.append(["copy"] + self.ref(relative=True) + ["into"] + self.ref(relative=True))
            elif k == 2:
                out.append(["set"] + self.ref(relative=True) + (["with"] + self.direct() if r.random() < 0.5 else ["from"] + self.ref(relative=True)))
            elif k == 3:
                out.append(["inc"] + self.ref(one=r.random() < 0.7, relative=True) +
                           (["with"] + self.direct() if r.random() < 0.5 else ["from"] + self.ref(one=r.random() < 0.7, relative=True)))
            elif k == 4:
                parts = []
                for w in r.sample(["from", "for", "qua", "with", "per", "cum", "via"], r.randrange(1, 4)):
                    parts.append([w] + (self.ref(relative=True) if w in ("from", "for", "qua") else
                                        [r.choice([".pose.", ".a.", "me"])] if w == "via" else self.direct()))
                out.append(["do", "doer"] + [t for part in parts for t in part])
            elif k == 5:
                out.append(["bid", r.choice(["start", "stop", "run"]), "me", "at"] + self.ref(one=True, relative=True))
            elif k == 6:
                out.append(r.choice([["go", "next"], ["go", "me"], ["let", "me"]]) + ["if"] + self.ref(one=True, relative=True) +
                           [r.choice([">=", "==", "<", "!="]), r.choice(SHARE_VALUES)])
            elif k == 7:
                out.append(["go", "next", "if"] + self.ref(one=True, relative=True)[-1:] + ["is", r.choice(["updated", "changed"])])
            else:
                out.append(["go", "next", "if"] + self.ref(one=True, relative=True) + [r.choice([">=", "=="]), "goal"])
        return out

    def program(self):
        r = self.r
        prog = [["house", "h"]] + self.house_lines()
        prog += [["framer", "f", "be", "active", "first", "a"], ["frame", "a"]] + self.frame_lines()
        if r.random() < 0.5:
            prog += [["frame", "b"]] + self.frame_lines()
        prog += [["frame", "z"]]                 # so that `next` resolves in the frames above
        if r.random() < 0.3:                     # a share defined after its use
            path = r.choice(SHARE_PATHS)
            prog.insert(r.randrange(1, len(prog)), ["init", path, "with"] + self.direct())
        return prog


# ---- needs: every need form of go / let / aux conditions
NEED_CMP = ["==", "!=", "<", "<=", ">=", ">"]
NEED_STATUS = ["readied", "started", "running", "stopped", "aborted"]


class NeedGen(object):
    """Scripts about transition / entry / conditional-aux conditions.  One house with an active framer `f` (frames a, b, z),
    auxiliary framers x1, x2 and a moot framer m; every need form of Builder.makeNeed — done (plain tasker, `aux` keyword
    present or absent, any/all, each optional `in frame [me|name]` / `in framer [me|name]` clause present, nameless or
    named), status, update/change markers (`in frame [name]`, `by marker`, both orders), framer state (elapsed/recurred
    with and without `re`), boolean, direct and indirect comparisons with optional tolerance, `not` — alone and in
    conjunctions of up to three needs, at every position, in `go`, `let` and `aux … if` lines."""

    FRAMES = (["a", "b", "z", "me"], ["x1a", "nope"])         # usual, odd (another framer's frame, dangling)
    FRAMERS = (["f", "me"], ["x1", "x2", "nope"])
    TASKERS = ["x1", "x2", "f", "m", "nope"]
    PATHS = [".a.b", ".c", ".nowhere.n", "k of me", "k of framer", "k of frame", "k of frame b", "k of framer x1"]

    def __init__(self, rng):
        self.r = rng

    def opt_name(self, pool, p_none=0.35, odd=0.12):
        """an optional name after `in frame` / `in framer` / `re`: absent, a usual one, or an odd one"""
        r = self.r
        k = r.random()
        if k < p_none:
            return []
        return [r.choice(pool[0] if k < 1 - odd else pool[1])]

    def state(self):
        r = self.r
        path = r.choice(self.PATHS if r.random() < 0.8 else [".a.b"]).split(" ")
        k = r.random()
        field = [] if k < 0.5 else [r.choice(["x", "y", "x", "y", "value", "zz"]), "in"]
        return field + path

    def done(self):
        r = self.r
        k = r.random()
        head = [r.choice(["any", "all"])] if k < 0.2 else (["aux"] if r.random() < 0.4 else []) + \
            [r.choice(self.TASKERS[:2] if r.random() < 0.8 else self.TASKERS)]
        ins = []
        k = r.random()
        if k < 0.3:
            pass
        elif k < 0.6:
            ins = ["in", "frame"] + self.opt_name(self.FRAMES)
        elif k < 0.8:
            ins = ["in", "framer"] + self.opt_name(self.FRAMERS)
        else:
            ins = ["in", "frame"] + self.opt_name(self.FRAMES) + ["in", "framer"] + self.opt_name(self.FRAMERS)
        return head + ins + ["is", "done"]

    def status(self):
        r = self.r
        return [r.choice(self.TASKERS[:3] if r.random() < 0.85 else self.TASKERS)] + ["is", r.choice(NEED_STATUS)]

    def marker(self):
        r = self.r
        path = r.choice(self.PATHS).split(" ")
        clauses = []
        if r.random() < 0.6:
            clauses.append(["in", "frame"] + self.opt_name(self.FRAMES, p_none=0.5))
        if r.random() < 0.5:
            clauses.append(["by", r.choice(["m1", '"m 2"', "frame", "and"]) if r.random() < 0.15 else r.choice(["m1", "m2"])])
        r.shuffle(clauses)
        return path + ["is", r.choice(["updated", "changed"])] + [t for c in clauses for t in c]

    def goal(self):
        r = self.r
        k = r.random()
        if k < 0.45:
            return [r.choice(["1", "2.5", "-3", "True", '"s"', "0x10"])]
        if k < 0.6:
            return ["goal"]
        return self.state()

    def tolerance(self):
        r = self.r
        return ["+-", r.choice(["0.1", "1", "-2", "x", "1j"])] if r.random() < 0.3 else []

    def framer_state(self):
        r = self.r
        st = [r.choice(["elapsed", "recurred"])]
        if r.random() < 0.5:
            st += ["re"] + self.opt_name(self.FRAMERS, p_none=0.4)
        return st + [r.choice(NEED_CMP)] + self.goal() + self.tolerance()

    def need(self):
        r = self.r
        k = r.randrange(8)
        n = (self.done() if k in (0, 1) else self.status() if k == 2 else self.marker() if k in (3, 4) else
             self.framer_state() if k == 5 else self.state() if k == 6 and r.random() < 0.4 else
             self.state() + [r.choice(NEED_CMP)] + self.goal() + self.tolerance())
        return (["not"] if r.random() < 0.15 else []) + n

    def condition(self):
        r = self.r
        needs = [self.need() for _ in range(r.choice([1, 1, 2, 2, 3]))]
        out = []
        for i, n in enumerate(needs):
            out += (["and"] if i else []) + n
        return out

    def lines(self, auxes):
        r = self.r
        out = []
        for _ in range(r.randrange(1, 4)):
            k = r.random()
            if k < 0.5 or (k >= 0.75 and not auxes):
                out.append(["go", r.choice(["next", "me", "b", "z"] if auxes else ["next", "me"]), "if"] + self.condition())
            elif k < 0.75:
                out.append(["let"] + (["me"] if r.random() < 0.6 else []) + ["if"] + self.condition())
            else:
                out.append(["aux"] + (r.choice([["m", "as", "mine"], ["m", "as", "c1"]]) if r.random() < 0.06
                                      else [r.choice(auxes)]) + ["if"] + self.condition())
        return out

    def program(self):
        r = self.r
        prog = [["house", "h"], ["init", ".a.b", "with", "x", "1", "y", "2"], ["init", ".c", "with", "3"],
                ["framer", "f", "be", "active", "first", "a"],
                ["frame", "a"], ["aux", "x1"]] + ([["aux", "x2"]] if r.random() < 0.7 else []) + self.lines(["x2", "x1"])
        prog += [["frame", "b"], ["aux", "x2"]] + ([["aux", "x1"]] if r.random() < 0.7 else []) + self.lines(["x2", "x1"])
        prog += [["frame", "z"]]
        prog += [["framer", "x1", "be", "aux", "first", "x1a"], ["frame", "x1a"]] + (self.lines([]) if r.random() < 0.3 else [])
        prog += [["frame", "x1b"], ["framer", "x2", "be", "aux", "first", "x2a"], ["frame", "x2a"],
                 ["framer", "m", "be", "moot", "first", "ma"], ["frame", "ma"]]
        return prog


class CHECK(core.Check):
    PROPERTY = "C14"
    LEAN_MODULES = ["IofloModel.Props.C14", "IofloModel.Props.C14Flow"]
    GENERATED = True
    ENGINE = "worklist"
    N_QUICK = 420
    N_THOROUGH = 9000
    N_SEARCH = 500
    RULE = ("(a) link structures: every over-link / under-link assignment on <= 3 frames exhaustively (quick; <= 4 thorough "
            "for overs) plus random ones on <= 6 frames, random clone tables on <= 4 framers (cyclic ones included), each "
            "as a script built by the real Builder under a 2 s limit; (b) scripts: generated runnable programs and the "
            "shipped example plans with 1-3 random token/line mutations (delete, insert, replace from a pool of reserved "
            "words, verbs, option words, odd numbers such as 1j/inf/nan/1e400, broken paths; duplicate, delete, move a "
            "line), built under a 6 s limit; (c) share-reference scripts (30% of the scripts): shares created with known fields (now and then one named like a "
            "parameter of a method that is called with **inits / **parms / **ioinits — self, name, store, act, kwa, …: the list "
            "is read from the AST of the tree), then "
            "init-from / server-for / loggee / put / copy / set / inc / do from,for,qua,with,per,cum / bid-at / go,let-if given "
            "references to a share that has the named field, lacks it, has more, holds `value`, is a node, or does not exist, "
            "with and without the `fields in` clause on either side, absolute and relative; (d) need scripts (25%): every need form "
            "(done with/without `aux`, any/all, `in frame [name]`, `in framer [name]`; status; update/change with `in frame "
            "[name]` and `by marker` in both orders; elapsed/recurred with/without `re`; boolean, direct, indirect with "
            "tolerance; `not`) alone and in conjunctions of up to three at every position in go / let / aux-if lines. 30% of all "
            "script cases are split over up to ~6 files by `load` commands (nested three deep), so that every kind of script "
            "error also occurs inside a loaded file; some of these add a nested load of a missing file, a file that loads "
            "itself, or two files loading each other. 25% of the script cases are built at console verbosity concise or "
            "profuse (output discarded) so that the printing code of build() runs; 5% pass optional arguments (metas, preloads, "
            "mode, behaviors) to Builder.build. Non-trivial = a script that is rejected or does not build normally "
            "(any outcome other than 'ok'), or a link structure with at least one link; distinct by text.")
    TRUSTED = ["correspondence (a): the scripts really exercise the loops the model describes (frames resolved in definition "
               "order; `under` sets the primary under; a clone has the moots of its original)",
               "a build that does not return within the wall-clock limit (2 s for the tiny link scripts, 6 s for scripts of "
               "< 100 lines that otherwise build in < 50 ms) is taken as non-termination",
               "translator: Python's ast for the extraction, the run-time module namespaces for what `from x import *` binds"]
    PARTIAL = ["the property as a whole is NOT proved. Proved: the loops of Model/Worklist.lean, the generated message/name tables, "
               "the exception table of Builder.build, and — over ALL of building.py, from a table regenerated on every run — "
               "that no class other than ParseError / ValueError can propagate to Builder.build from any raise statement or "
               "`tokens[…]` read through the calls inside building.py (C14_exception_certificate_closed, "
               "C14_only_script_errors_leave_build), and that every attribute read from a caught exception exists "
               "(C14_exception_attributes_exist). Not proved, searched: exceptions raised by other modules and by builtin "
               "operations other than `tokens[…]` (other subscripts, int(), attribute access), and termination outside the "
               "three loops",
               "C14_under_descent_counterexample (D6), C14_over_climb_counterexample (D64): repaired by "
               "fixes/D06-under-loop-check.patch, fixes/D64-over-loop-check.patch (C14_repaired_loops_terminate)",
               "C14_clone_worklist_counterexample (D5: a moot framer cloning itself, directly or through others — the build "
               "never returned): repaired by fixes/D05-moot-clone-loop.patch (C14_repaired_clone_worklist_terminates, "
               "C14_repaired_clone_worklist_conservative)",
               "internal errors known to remain reachable would be listed in Model/Worklist.lean `knownCrashSites`: the table "
               "is empty (D5, D8, D65-D69b are repaired), so every internal error the search meets is a failing input"]
    TECHNIQUE = ("Lean 4 theorems (rank / closed-set arguments for the loops, pigeonhole for the repaired loops; decide +kernel "
                 "over the table generated from the source) + differential correspondence on link structures + mutation fuzzing "
                 "of scripts against the stated outcome classes")
    LEVEL_TEXT = ("PARTIAL. Proved: the resolve loops end when a rank decreases along the links and cannot end on a cycle "
                  "(under descent, over climb with its self-only loop test, clone worklist; counterexamples D6, D64, D5), the "
                  "repaired loops end on every input (C14_repaired_loops_terminate, C14_repaired_clone_worklist_terminates); every message construction of the "
                  "builder-side modules gets as many values as it consumes and no function loads an unbound name "
                  "(C14_error_messages_well_formed, C14_no_unbound_names, over the table regenerated from the tree on every run: about 500 sites, the count is in the evidence); "
                  "the exception table of Builder.build; the exception flow of building.py (every raise site, tokens[] read and internal "
                  "call with its enclosing handlers, regenerated per run: only ParseError and ValueError leave Builder.build — "
                  "C14_only_script_errors_leave_build; C16_commands_nonempty discharges the two tokens[0] reads of the read "
                  "loop). Not proved: that no other statement of building.py raises an internal "
                  "error — that part is a search (mutation fuzzing) with the outcome classes as oracle.")
    LEVEL_NOTE = ("Trusted: Lean kernel; propext, Classical.choice, Quot.sound; the translator (ast extraction); the transcription "
                  "of the three loops, tied to the code only through scripts built under a wall-clock limit; the search part is "
                  "testing, not proof.")

    def __init__(self):
        self._cache = {}
        self._variant = None

    # ---- stage A: regenerate the table from the tree under test
    def translate(self):
        sys.path.insert(0, os.path.join(core.VERIF, "harness"))
        from translate import errsites
        fmt, unbound = errsites.write(core.REPO, core.VERIF)
        from translate import raisesites
        d = raisesites.write(core.REPO, core.VERIF)
        self._flow = (len(d["funcs"]), len(d["raises"]), len(d["calls"]), len(d["attrs"]), d["cert"]["Builder.build"])
        self._table = (len(fmt), sum(1 for r in fmt if not errsites.site_ok(r[3], r[4], r[5], r[6])), len(unbound))

    def variant(self):
        """which loop checks does the tree have?"""
        if self._variant is None:
            o = outcome(over_script([1, 2, 1]), LIMIT_LOOP)[0] != "HANG"
            u = outcome(under_script([1, 0]), LIMIT_LOOP)[0] != "HANG"
            c = outcome(clone_script([[1], [1]]), LIMIT_LOOP)[0] != "HANG"
            self._variant = (o, u, c)
        return self._variant

    def extra_evidence(self):
        o, u, c = self.variant()
        t = getattr(self, "_table", (0, 0, 0))
        return {"tree_variant": "over loop check %s, under loop check %s, clone loop check %s" % tuple(
                    "present" if x else "absent" for x in (o, u, c)),
                "generated_table": {"format_sites": t[0], "mismatching": t[1], "unbound_names": t[2]},
                "exception_flow_table": dict(zip(("functions", "raise_sites", "call_sites", "exception_attribute_reads",
                                                  "leaves_Builder.build"), getattr(self, "_flow", ())))}

    # ---- cases
    def exhaustive(self, tier):
        n_over = 4 if tier == "thorough" else 3
        for n in range(1, n_over + 1):
            for links in itertools.product([None] + list(range(n)), repeat=n):
                yield {"kind": "overs", "links": list(links)}
        for n in range(1, 4):
            for links in itertools.product([None] + list(range(n)), repeat=n):
                yield {"kind": "unders", "links": list(links)}

    def generate(self, rng, n, tier):
        n_links = n // 6
        for i in range(n_links):
            k = rng.randrange(3)
            if k == 0:
                m = rng.randrange(4, 7)
                yield {"kind": "overs", "links": [rng.choice([None] + list(range(m))) if rng.random() < 0.8 else None for _ in range(m)]}
            elif k == 1:
                m = rng.randrange(4, 7)
                # mostly acyclic (links to later frames), sometimes anything
                yield {"kind": "unders", "links": [(rng.choice([None] + list(range(j + 1, m))) if rng.random() < 0.85
                                                    else rng.randrange(m)) for j in range(m)]}
            else:
                m = rng.randrange(2, 5)
                cyc = rng.random() < 0.15
                table = []
                for j in range(m):
                    targets = list(range(1, m)) if cyc else list(range(j + 1, m))
                    table.append([rng.choice(targets) for _ in range(rng.randrange(0, 3))] if targets else [])
                yield {"kind": "clones", "table": table}
        plans = [fb.dispatched(t) for name, t in fb.example_plans() if "load" not in t]
        for i in range(n - n_links):
            k = rng.random()
            if k < 0.3:
                prog = ShareGen(rng).program()
                n_mut = rng.choice([0, 0, 1])
            elif k < 0.55:
                prog = NeedGen(rng).program()
                n_mut = rng.choice([0, 0, 0, 1])
            else:
                prog = [list(c) for c in (rng.choice(plans) if k < 0.7 else fb.gen_program(rng))]
                n_mut = rng.randrange(1, 4)
            for _ in range(n_mut):
                ci = rng.randrange(len(prog))
                c = prog[ci]
                op = rng.randrange(6)
                if op == 0 and len(c) > 1:
                    del c[rng.randrange(len(c))]
                elif op == 1:
                    c.insert(rng.randrange(len(c) + 1), rng.choice(POOL))
                elif op == 2:
                    c[rng.randrange(len(c))] = rng.choice(POOL)
                elif op == 3 and len(c) > 1:
                    a, b = rng.sample(range(len(c)), 2)
                    c[a], c[b] = c[b], c[a]
                elif op == 4:
                    prog.insert(rng.randrange(len(prog) + 1), list(rng.choice(prog)))
                elif op == 5 and len(prog) > 1:
                    del prog[ci]
            prog = [c for c in ([t for t in c if t != ""] for c in prog) if c]
            case = {"kind": "script", "text": fb.canonical_text(prog)}
            if rng.random() < 0.3 and prog:
                # the same script split over files: whatever goes wrong now goes wrong inside a loaded file (depth 1-3)
                files, main = fb.split_tree(rng, prog)
                names = sorted(files)
                k = rng.random()
                if names and k < 0.15:        # a nested load of a file that does not exist
                    f = files[rng.choice(names)]
                    f.insert(rng.randrange(len(f) + 1), ["load", "missing.flo"])
                elif names and k < 0.25:      # a file that loads itself (after its own commands, or at once)
                    n = rng.choice(names)
                    if rng.random() < 0.5:
                        files[n] = []
                    files[n].insert(rng.randrange(len(files[n]) + 1), ["load", n])
                elif names and k < 0.3:       # two files loading each other
                    a, b = rng.choice(names), rng.choice(names)
                    files[a].append(["load", b])
                    files[b].append(["load", a])
                case = {"kind": "script", "text": fb.canonical_text(main),
                        "files": {n: fb.canonical_text(p) for n, p in files.items()}}
            if rng.random() < 0.25:
                case["verbosity"] = rng.choice([2, 2, 4])    # the printing code of build() runs too (output discarded)
            if rng.random() < 0.05:
                case["args"] = rng.choice(["metas", "preloads", "mode", "behaviors", "all"])   # Builder.build(metas=…, …)
            yield case

    def text_of(self, case):
        if case["kind"] == "overs":
            return over_script(case["links"])
        if case["kind"] == "unders":
            return under_script(case["links"])
        if case["kind"] == "clones":
            return clone_script(case["table"])
        return case["text"]

    def run(self, case):
        key = core.case_key(case)
        if key not in self._cache:
            if len(self._cache) > 50000:
                self._cache.clear()
            self._cache[key] = outcome(self.text_of(case), LIMIT_SCRIPT if case["kind"] == "script" else LIMIT_LOOP,
                                       files=case.get("files"), verbosity=case.get("verbosity", 0), args=case.get("args"))
        return self._cache[key]

    def requests(self, case):
        o, u, c = self.variant()
        if case["kind"] == "overs":
            return ["%s 400 %s" % ("oversc" if o else "overs", links_word(case["links"]))]
        if case["kind"] == "unders":
            return ["%s 400 %s" % ("undersc" if u else "unders", links_word(case["links"]))]
        if case["kind"] == "clones":
            return [("clonesc" if c else "clones") + " 3000 0 " + ";".join(",".join(map(str, r)) or "-" for r in case["table"])]
        return []

    def model_post(self, case, replies):
        if case["kind"] == "script":
            return []
        r = replies[0]
        if case["kind"] == "clones" and r.startswith("count"):
            return ["framers %d" % (len(case["table"]) + int(r.split()[1]) - 1)]
        return [{"done": "ok", "loop": "failed", "hang": "HANG"}.get(r, r)]

    def impl(self, case):
        if case["kind"] == "script":
            self.run(case)
            return []
        cls, fn, _ = self.run(case)
        if case["kind"] == "clones" and cls == "ok":
            r = fb.build(self.text_of(case), limit=LIMIT_LOOP, acts=False)
            return ["framers %d" % len(r.houses[0].framers)]
        return [cls]

    def oracle(self, case, out):
        cls, fn, detail = self.run(case)
        if acceptable(cls, fn, detail):
            return None
        if cls == "HANG":
            return "the build does not return (interrupted in %s after the wall-clock limit)" % (fn or "?")
        return "internal error %s raised in %s (%s)" % (cls, fn, detail)

    def nontrivial(self, case, out):
        if case["kind"] == "script":
            return self.run(case)[0] != "ok"
        return any(l is not None for l in case.get("links", [])) or any(case.get("table", []))

    def bucket(self, case, out):
        cls, fn, detail = self.run(case)
        if case["kind"] != "script":
            return "%s:%s" % (case["kind"], cls)
        return "script:" + (cls if cls in ("ok", "failed", "ParseError", "ValueError", "HANG") else "other-" + cls)

    def region(self, finding, case):
        """the Lean table `knownCrashSites` (Model/Worklist.lean) maps (exception class, function) to finding ids"""
        cls, fn, _ = self.run(case)
        cache = self.__dict__.setdefault("_sites", {})
        if (cls, fn) not in cache:
            cache[(cls, fn)] = core.Driver(self.ENGINE).run(["crash %s %s" % (cls, fn or "-")])[0].split()
        return finding.get("id") in cache[(cls, fn)]

    def search(self, rng, n, tier):
        for c in self.generate(rng, n, tier):
            if c["kind"] == "script":
                yield c

    def shrink_candidates(self, case):
        if case["kind"] != "script":
            return
        if case.get("verbosity"):
            yield {k: v for k, v in case.items() if k != "verbosity"}
        if case.get("args"):
            yield {k: v for k, v in case.items() if k != "args"}
        for n, t in sorted((case.get("files") or {}).items()):
            fl = t.split("\n")
            for i in range(len(fl)):
                if fl[i]:
                    yield dict(case, files=dict(case["files"], **{n: "\n".join(fl[:i] + fl[i + 1:])}))
        lines = case["text"].split("\n")
        for i in range(len(lines)):
            if lines[i]:
                yield dict(case, text="\n".join(lines[:i] + lines[i + 1:]))
        for i, l in enumerate(lines):
            toks = l.split(" ")
            if len(toks) > 1:
                for j in range(len(toks)):
                    yield dict(case, text="\n".join(lines[:i] + [" ".join(toks[:j] + toks[j + 1:])] + lines[i + 1:]))
