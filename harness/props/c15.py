"""C15 — optional clauses of a command may appear in any order.
Model: lean/IofloModel/Model/Clauses.lean (parseDirect/parseFields/parsePath/parseIndirect/parseRelation and the option
       loops of framer, frame, do, aux, rear, log, logger, server, the marker-need loop).
Theorems: lean/IofloModel/Props/C15.lean.
Tie: the real build<Verb> methods are called in-process (Builder.dispatch on a builder positioned in a house / framer /
     frame) with every permutation of a generated clause set; the configuration that arrives in the created objects
     (or the exception class) is compared, permutation by permutation, with the model's build<Verb>.
Oracle (independent of the model): all permutations of one clause set give the same result on the implementation.
Tree variants: the check probes whether defect D9 (the `as` terminator list of buildDo) is repaired
     (fixes/D09-do-as-terminators.patch) and uses the model with `fix` accordingly."""
import json, itertools, struct, math
import core
import flobuild as fb
from props import c17

hx, unhx, bits, canon_value = c17.hx, c17.unhx, c17.bits, c17.canon_value
ERRS = {"ParseError": "parse", "ValueError": "value", "TypeError": "type", "IndexError": "index", "OverflowError": "overflow"}
LISTS = {"native": "reacts", "enter": "enacts", "recur": "reacts", "precur": "preacts", "exit": "exacts",
         "renter": "renacts", "rexit": "rexacts", "benter": "beacts"}
SHARE_AB = {"a": 1, "b": 2}


def tok_hex(toks):
    return ",".join(hx(t) for t in toks) or "-"


# ---- model values -> Python values
def pyval(v):
    """model value text -> Python value (rounding of exact decimals by CPython float())"""
    k, _, r = v.partition(":")
    if v == "none":
        return None
    if k == "bool":
        return r == "1"
    if k == "str":
        return unhx(r)
    if k == "int":
        return int(r)
    if k == "float":
        return c17.F(r)
    if k == "complex":
        a, b = r.split("/")
        return complex(c17.F(a), c17.F(b))
    if k == "coord":
        n, d, m = r.split("/")
        x = c17.F(d) + c17.F(m) / 60.0
        return -x if n == "1" else x
    if k == "point":
        core.import_ioflo()
        from ioflo.base import globaling
        parts = r.split("/")
        return getattr(globaling, parts[0])(*[c17.F(c) for c in parts[1:]])
    raise ValueError(v)


def pydict(d):
    if d == "-":
        return []
    return [(unhx(p.split("~")[0]), pyval(p.split("~")[1])) for p in d.split(";")]


def pyfields(f):
    return [] if f == "-" else [unhx(x) for x in f.split("+")]


def pypre(d):
    if d == "-":
        return []
    return [(unhx(p.split("~")[0]), pyfields(p.split("~")[1])) for p in d.split(";")]


def cd(pairs):
    """canonical text of an ordered mapping of literal values"""
    return [[k, canon_value(v)] for k, v in pairs]


def parse_reply(reply):
    if reply.startswith("ERR"):
        return reply, None
    return "ok", dict(kv.split("=", 1) for kv in reply.split(" ")[1:])


def opt(s):
    return None if s == "~" else unhx(s)


# ---- running the real builder
class StubServer(object):
    last = None
    Names = {}          # the task registry buildServer consults for a duplicate name (fix D69b); one server per case

    def __init__(self, name="", store=None, **kw):
        self.name, self.store, self.kw = name, store, None
        StubServer.last = self
        self.period, self.schedule = 0.0, None

    def reinit(self, **kw):
        self.kw = kw
        self.period, self.schedule = float(abs(kw.get("period", 0.0))), kw.get("schedule")


def fresh_builder(level):
    """a Builder positioned inside a house (level 1), a framer (2) or a frame (3)"""
    core.import_ioflo()
    from ioflo.base import building, housing
    housing.House.Clear()
    housing.ClearRegistries()
    b = building.Builder()
    b.dispatch(["house", "h"])
    if level >= 2:
        b.dispatch(["framer", "f"])
    if level >= 3:
        b.dispatch(["frame", "f0"])
        b.dispatch(["frame", "f1"])
    return b


def find_new_act(frame):
    for lst in fb.ACT_LISTS:
        acts = getattr(frame, lst)
        if acts:
            return lst, acts[-1]
    return None, None


def run_verb(verb, tokens):
    """dispatch `tokens` on a positioned builder; canonical dict of what arrived, or 'ERR class'"""
    core.import_ioflo()
    from ioflo.base import building, serving, globaling as G, doing
    level = {"framer": 1, "frame": 2, "logger": 1, "log": 1, "server": 1}.get(verb, 3)
    b = fresh_builder(level)
    real_server = serving.Server
    try:
        if verb == "log":
            b.dispatch(["logger", "lg"])
        if verb == "server":
            b.dispatch(["init", ".srv.src", "with", "a", "1", "b", "2"])
            serving.Server = StubServer
        try:
            ok = b.dispatch(tokens)
        except Exception as ex:
            return "ERR " + ERRS.get(type(ex).__name__, type(ex).__name__)
    finally:
        serving.Server = real_server
    if not ok:
        return "ERR returned-false"
    h = b.currentHouse

    def order_of(t):
        return "front" if t in h.fronts else "back" if t in h.backs else "mid" if t in h.mids else "-"
    if verb == "framer":
        fr = b.currentFramer
        return {"name": fr.name, "schedule": G.ScheduleNames[fr.schedule], "order": order_of(fr),
                "period": bits(fr.period), "first": fr.first, "inode": fr.inode}
    if verb == "frame":
        f = b.currentFrame
        return {"name": f.name, "over": f.over, "inode": f.inode}
    if verb == "do":
        lst, act = find_new_act(b.currentFrame)
        return {"kind": act.actor, "list": lst, "parms": cd((act.parms or {}).items()),
                "inits": cd((act.inits or {}).items()), "ioinits": cd((act.ioinits or {}).items()),
                "prerefs": [[k, [[p, list(f)] for p, f in v.items()]] for k, v in (act.prerefs or {}).items()]}
    if verb == "aux":
        f = b.currentFrame
        out = {"clone": None, "inode": None, "original": None, "cond": 0}
        if f.preacts:
            p = f.preacts[-1].parms
            out["cond"] = 1
            out["original"] = p["aux"] if isinstance(p["aux"], str) else "clone"
        elif f.auxes:
            a = f.auxes[-1]
            if isinstance(a, str):
                out["original"] = a
            else:
                d = b.currentFramer.moots[a["tag"]]
                out["original"] = d["original"]
                out["clone"] = "mine" if d["insular"] else d["clone"]
                out["inode"] = d["inode"]
        return out
    if verb == "rear":
        lst, act = find_new_act(b.currentFrame)
        return {"list": lst, "parms": sorted((k, str(v)) for k, v in act.parms.items())}
    if verb == "log":
        l = b.currentLog
        return {"name": l.name, "kind": l.kind, "file": l.baseFilename, "rule": G.LogRuleNames[l.rule]}
    if verb == "logger":
        l = b.currentLogger
        return {"name": l.name, "period": canon_value(l.period), "prefix": l.prefix, "schedule": G.ScheduleNames[l.schedule],
                "order": order_of(l), "flush": canon_value(l.flushPeriod), "keep": canon_value(l.keep),
                "cycle": canon_value(l.cyclePeriod), "size": canon_value(l.fileSize), "reuse": bool(l.reuse)}
    if verb == "server":
        s = StubServer.last
        kw = dict(s.kw)
        return {"name": s.name, "order": order_of(s) if kw.get("schedule") != G.SLAVE else "-",
                "kw": sorted((k, canon_value(v) if not isinstance(v, tuple) else repr(v)) for k, v in kw.items())}
    if verb == "marker":
        # the condition's needs: go -> Transiter preact, let -> beact, aux … if -> Suspender preact
        acts = [a for lst in fb.ACT_LISTS for a in getattr(b.currentFrame, lst) if "needs" in (a.parms or {})]
        needs = acts[-1].parms["needs"] if acts else list(b.currentFrame.beacts)    # `let` adds the needs themselves
        need = [n for n in needs if n.parms.get("share") == ".a.b"][0]
        return {"frame": need.parms["frame"], "marker": need.parms["marker"], "share": need.parms["share"],
                "needs": len(needs)}
    return "?"


def expect_verb(verb, reply, tokens):
    """the model's reply turned into the same canonical dict (verb specific bookkeeping the builder does after its
    option loop is replayed here: defaults, abs/max/int of numbers, name -> inits, inode -> ioinits, native context)"""
    core.import_ioflo()
    from ioflo.base import doing, globaling as G
    st, d = parse_reply(reply)
    if st != "ok":
        return st
    try:
        if verb == "framer":
            sched = unhx(d["schedule"])
            p = pyval(d["period"])
            return {"name": unhx(d["name"]), "schedule": sched,
                    "order": unhx(d["order"]) if sched in ("active", "inactive") else "-",
                    "period": bits(float(abs(p))), "first": unhx(d["first"]), "inode": unhx(d["inode"])}
        if verb == "frame":
            return {"name": unhx(d["name"]), "over": opt(d["over"]), "inode": unhx(d["inode"])}
        if verb == "do":
            kind = unhx(d["kind"])
            if kind not in doing.Doer.Registry:
                return "ERR parse"
            inits, ioinits = pydict(d["inits"]), pydict(d["ioinits"])
            if opt(d["inode"]):
                ioinits = [(k, v) for k, v in ioinits if k != "inode"] + [("inode", opt(d["inode"]))] \
                    if "inode" not in dict(ioinits) else [(k, opt(d["inode"]) if k == "inode" else v) for k, v in ioinits]
            if unhx(d["name"]):
                inits = [(k, v) for k, v in inits if k != "name"] + [("name", unhx(d["name"]))] \
                    if "name" not in dict(inits) else [(k, unhx(d["name"]) if k == "name" else v) for k, v in inits]
            ctx = opt(d["context"]) or "native"
            return {"kind": kind, "list": LISTS[ctx], "parms": cd(pydict(d["parms"])), "inits": cd(inits),
                    "ioinits": cd(ioinits),
                    "prerefs": [["inits", [list(x) for x in pypre(d["preinits"])]],
                                ["ioinits", [list(x) for x in pypre(d["preioinits"])]],
                                ["parms", [list(x) for x in pypre(d["preparms"])]]]}
        if verb == "aux":
            clone = opt(d["clone"])
            cond = 0 if d["needs"] in ("~", "-") else 1
            if cond:
                return {"clone": None, "inode": None, "original": unhx(d["name"]), "cond": 1}
            if clone:
                return {"clone": clone, "inode": unhx(d["inode"]), "original": unhx(d["name"]), "cond": 0}
            return {"clone": None, "inode": None, "original": unhx(d["name"]), "cond": 0}
        if verb == "rear":
            return {"list": "enacts", "parms": sorted([("original", unhx(d["name"])), ("clone", unhx(d["clone"])),
                                                        ("schedule", str(G.ScheduleValues[unhx(d["schedule"])])),
                                                        ("frame", unhx(d["frame"]))])}
        if verb == "log":
            return {"name": unhx(d["name"]), "kind": unhx(d["kind"]), "file": unhx(d["file"]) or unhx(d["name"]),
                    "rule": unhx(d["rule"])}
        if verb == "logger":
            def num(key, f, default):
                return canon_value(default if d[key] == "~" else f(pyval(d[key])))
            sched = unhx(d["schedule"])
            keep = 0 if d["keep"] == "~" else max(0, int(pyval(d["keep"])))
            cyc = 3600.0 if d["cycle"] == "~" else max(0.0, abs(pyval(d["cycle"])))
            if keep > 0 and not cyc:
                keep = 0          # Logger.__init__: cyclePeriod must be nonzero if keep > 0
            return {"name": unhx(d["name"]), "period": canon_value(float(abs(0.0 if d["period"] == "~" else abs(pyval(d["period"]))))),
                    "prefix": unhx(d["prefix"]), "schedule": sched,
                    "order": unhx(d["order"]) if sched != "slave" else "-",
                    "flush": num("flush", lambda v: max(1.0, abs(v)), 30.0),
                    "keep": canon_value(keep),
                    "cycle": num("cycle", lambda v: max(0.0, abs(v)), 3600.0),
                    "size": num("size", lambda v: max(0, abs(v)), 1024), "reuse": d["reuse"] == "1"}
        if verb == "server":
            sched = unhx(d["schedule"])
            sha, dha = ("", 54321), ("localhost", 54321)
            rxa, txa = unhx(d["rx"]), unhx(d["tx"])
            try:
                if rxa:
                    if ":" in rxa:
                        host, port = rxa.split(":")
                        sha = (host, int(port))
                    else:
                        sha = (rxa, sha[1])
                if txa:
                    if ":" in txa:
                        host, port = txa.split(":")
                        dha = (host, int(port))
                    else:
                        dha = (txa, dha[1])
            except ValueError:
                return "ERR parse"        # not host:port with a numeric port (fix D66)
            kw = dict(period=0.0 if d["period"] == "~" else abs(pyval(d["period"])), schedule=G.ScheduleValues[sched],
                      sha=sha, dha=dha, prefix=unhx(d["prefix"]) + "/h")
            init = dict(pydict(d["init"]))
            if d["source"] != "~":
                path, fields = d["source"].split("~")
                for f in pyfields(fields):
                    init[f] = SHARE_AB[f]
            # the data become keyword arguments of server.reinit after the verb's own options (fix D72b)
            p = init.get("period", 0.0)
            try:
                bad_sched = init.get("schedule", G.ScheduleValues[sched]) not in G.ScheduleNames
            except TypeError:
                bad_sched = True
            if "self" in init or isinstance(p, bool) or not isinstance(p, (int, float)) or bad_sched:
                return "ERR parse"
            kw.update(init)
            return {"name": unhx(d["name"]), "order": unhx(d["order"]) if sched != "slave" else "-",
                    "kw": sorted((k, canon_value(v) if not isinstance(v, tuple) else repr(v)) for k, v in kw.items())}
    except (ValueError, KeyError, OverflowError, TypeError) as ex:
        return "ERR " + ERRS.get(type(ex).__name__, type(ex).__name__)   # raised by the code after the option loop
    return "?"


# ---- clause generators
NAMES = ["alpha", "beta", "gamma", "delta", "omega"]


def gen_relation(rng, closed=None):
    """tokens of an `of …` relation; `open` = ends with an omitted name"""
    r = rng
    k = r.choice(["", "root", "me", "framer", "frame", "frame-framer", "actor", "actor-frame"])
    name = lambda: ([r.choice(NAMES + ["me", "main"])] if r.random() < 0.6 else [])
    if k == "":
        return []
    if k in ("root", "me"):
        return ["of", k]
    if k == "framer":
        return ["of", "framer"] + name()
    if k == "frame":
        return ["of", "frame"] + name()
    if k == "frame-framer":
        return ["of", "frame"] + name() + ["of", "framer"] + name()
    if k == "actor":
        return ["of", "actor"] + name()
    return ["of", "actor"] + name() + ["of", "frame"] + name()


def gen_path(rng, node=False, dot=None):
    r = rng
    segs = [r.choice(["a", "b", "pos", "x1", "inode", "state"]) for _ in range(r.randrange(1, 3))]
    p = ".".join(segs)
    if dot if dot is not None else r.random() < 0.3:
        return "." + p + ("." if node and r.random() < 0.3 else ""), True
    return p + ("." if node and r.random() < 0.3 else ""), False


def gen_indirect(rng, node=False):
    p, dot = gen_path(rng, node)
    return [p] + gen_relation(rng)


def gen_direct(rng):
    r = rng
    if r.random() < 0.35:
        return [c17.gen_literal(r, r.choice(["int", "float", "bool", "quoted", "path", "point", "hex"]))]
    out = []
    fields = r.sample(["x", "y", "z", "name", "tag"], r.randrange(1, 4))
    if r.random() < 0.12:          # now and then a field named like an option / parameter of the receiving call (fix D72b)
        fields[r.randrange(len(fields))] = r.choice(["self", "period", "schedule"])
    for f in fields:
        out += [f, c17.gen_literal(r, r.choice(["int", "float", "bool", "path", "point", "special"]))]
    return out


def gen_source(rng):
    r = rng
    fields = r.choice([[], ["value", "in"], ["a", "b", "in"], ["x", "in"]])
    return fields + gen_indirect(r)


def clean(toks):
    return all(c17.token_ok(t) or t in fb.RESERVED for t in toks)


def gen_case(rng, verb=None):
    r = rng
    verb = verb or r.choice(["framer", "frame", "do", "do", "aux", "rear", "log", "logger", "server", "marker"])
    name = r.choice(NAMES)
    bad = r.random() < 0.12            # one malformed clause now and then
    tail = []
    if verb == "framer":
        head = ["framer", name]
        pool = {"at": [r.choice(["0.5", "1", "0", "-2", "0x10", "1e1", "nan", "inf", "2.5e-1", "1j", "2+1j", "7" * 330, "-" + "7" * 330,
                                  str(2 ** 1024 - 2 ** 970), str(2 ** 1024 - 2 ** 970 - 1)])],
                "be": [r.choice(["active", "inactive", "aux", "slave", "moot"])],
                "in": [r.choice(["front", "mid", "back"])],
                "first": [r.choice(NAMES)],
                "via": gen_indirect(r, node=True)}
        if bad:
            k = r.choice(list(pool))
            pool[k] = r.choice([["1j"], ["bogus"], ["a..b"], ["-x"], ["0x"]])
    elif verb == "frame":
        head = ["frame", name]
        pool = {"in": [r.choice(NAMES)], "via": gen_indirect(r, node=True)}
    elif verb == "do":
        head = ["do"] + r.choice([["doer"], ["doer", "param"], ["doer", "since"], ["doer", "lapse"], ["nosuch"]])
        pool = {"as": [r.choice(NAMES)] + ([r.choice(["one", "two"])] if r.random() < 0.4 else []),
                "at": [r.choice(list(LISTS))], "via": gen_indirect(r, node=True), "with": gen_direct(r),
                "from": gen_source(r), "per": gen_direct(r), "for": gen_source(r), "cum": gen_direct(r),
                "qua": gen_source(r)}
        if bad:
            k = r.choice(list(pool))
            pool[k] = r.choice([["x"], ["..", "y"], ["a..b"]]) if k != "at" else ["sometime"]
    elif verb == "aux":
        head = ["aux", name]
        pool = {"as": [r.choice(["mine"] + NAMES)], "via": gen_indirect(r, node=True)}
        if r.random() < 0.4:
            tail = ["if"] + r.choice([["elapsed", ">=", "1.0"], [".a.b", "==", "5"], ["not", ".a.b", "and", "recurred", ">", "2"]])
    elif verb == "rear":
        head = ["rear", name]
        pool = {"as": [r.choice(["mine", "mine", "other"])], "be": [r.choice(["aux", "aux", "active"])],
                "in": ["frame", r.choice(["f1", "f1", "me"])]}
    elif verb == "log":
        head = ["log", name]
        pool = {"as": [r.choice(["text", "binary", "json"])], "to": [r.choice(["file1", "/dev/null"])],
                "on": [r.choice(["update", "never", "Always", "change", "streak", "deck", "sometimes"])]}
    elif verb == "logger":
        head = ["logger", name]
        pool = {"at": [r.choice(["0.5", "-1", "2", "1j", "x", "7" * 330, str(-(2 ** 1024 - 2 ** 970))])], "to": [r.choice(["/dev/shm/verif-log", "./logs"])],
                "be": [r.choice(["active", "inactive", "slave", "aux"])], "in": [r.choice(["front", "mid", "back", "top"])],
                "flush": [r.choice(["0.5", "10", "-3"])], "keep": [r.choice(["3", "2.7", "-1", "0x10", "x", "nan", "inf", "1j"])],
                "cycle": [r.choice(["60", "0", "-5.5"])], "size": [r.choice(["100", "0", "-4", "2.5"])], "reuse": []}
    elif verb == "server":
        head = ["server", name]
        pool = {"at": [r.choice(["0.5", "-1", "2", "7" * 330, "0x" + "f" * 300])], "to": [r.choice(["/dev/shm/verif-srv", "./srv"])],
                "be": [r.choice(["active", "inactive", "slave"])], "in": [r.choice(["front", "mid", "back"])],
                "rx": [r.choice([":5000", "localhost:5001", "host", ":", "a:b:c"])], "tx": [r.choice([":6000", "peer:6001", "peer", ":x"])],
                "per": gen_direct(r), "for": r.choice([[], ["a", "in"], ["a", "b", "in"]]) + [".srv.src"]}
    else:
        # the marker need at every position of a conjunction: `<verb> if [need and]* .a.b is updated <clauses> [and need]*`
        others = [[".c.d", "==", "1"], ["elapsed", ">=", "2.5"], ["x1", "is", "done"], ["x1", "is", "started"], ["y", "in", ".c.d"],
                  ["not", ".c.e", "<", "goal"], [".c.d", "is", "changed", "in", "frame", "f1"], ["any", "in", "frame", "is", "done"]]
        before = [r.choice(others) for _ in range(r.choice([0, 0, 1, 1, 2]))]
        after = [r.choice(others) for _ in range(r.choice([0, 1, 1, 2]))]
        head = r.choice([["go", "me", "if"], ["go", "next", "if"], ["let", "me", "if"], ["let", "if"], ["aux", "x1", "if"]])
        for n in before:
            head = head + n + ["and"]
        head = head + [".a.b", "is", r.choice(["updated", "changed"])]
        for n in after:
            tail = tail + ["and"] + n
        pool = {"in": ["frame"] + ([r.choice(["f0", "f1", "me"])] if r.random() < 0.5 else []),
                "by": [r.choice(["m1", '"mark two"', "tag"])]}
    keys = list(pool)
    r.shuffle(keys)
    keys = keys[:r.randrange(1 if len(keys) > 1 else 0, min(len(keys), 5) + 1)]
    clauses = [[k] + pool[k] for k in keys]
    return {"verb": verb, "head": head, "clauses": clauses, "tail": tail}


def norm_err(line):
    """Some error paths of the sub-parsers raise TypeError instead of ParseError because of their own message
    formatting (defect D7, property C14; repaired by fixes/D07-…): which of the two classes is raised is not
    C15's subject, so both count as the parse error here."""
    return '"ERR parse"' if line == '"ERR type"' else line


def perms(case):
    cl = case["clauses"]
    idx = list(itertools.permutations(range(len(cl))))
    return idx[:120]


def tokens_of(case, perm):
    return case["head"] + [t for i in perm for t in case["clauses"][i]] + case["tail"]


def do_as_fixed():
    r = run_verb("do", ["do", "doer", "as", "foo", "via", "x"])
    return isinstance(r, dict) and r["inits"] == [["name", canon_value("Foo")]]


class CHECK(core.Check):
    PROPERTY = "C15"
    LEAN_MODULES = ["IofloModel.Props.C15"]
    ENGINE = "clauses"
    N_QUICK = 600
    N_THOROUGH = 12000
    N_SEARCH = 600
    RULE = ("a case is one command of a verb (framer, frame, do, aux, rear, log, logger, server, or a go … if … is "
            "updated need) with a generated set of optional clauses with distinct connectives (values from grammars of "
            "names, option words, literals, field lists, paths with every relation form) and now and then one malformed "
            "clause; the real build method and the model are run on EVERY permutation of the clause set (at most 5 "
            "clauses = 120 permutations; aux keeps its `if` clause last). Non-trivial = at least two clauses and at "
            "least one permutation builds; distinct by (verb, clause set).")
    TRUSTED = ["correspondence: Builder.dispatch on a positioned builder (house / framer / frame created by the real verbs), "
               "objects inspected after the call; serving.Server replaced by a recording stub for `server`",
               "harness bookkeeping of what each verb does with the parsed options after its loop (defaults, abs/max/int, "
               "name -> inits, inode -> ioinits, native context, rx/tx host:port split)",
               "literal values: the C17 model; rounding by CPython float()"]
    PARTIAL = ["C15_framer_partial (needs ¬d61Region; C15_framer_counterexample: defect D61)",
               "C15_do_asfound_partial (code as found, needs ¬d9Region; C15_do_asfound_counterexample: defect D9; "
               "C15_do is full for the repaired terminator list)",
               "C15_server_partial (needs the connectives present to be reserved words / not `in` when per / for "
               "clauses are present; C15_server_d62, C15_server_d63: defects D62, D63)",
               "C15_rear assumes `in frame <name>` with the name written (the documented syntax)",
               "what each verb does with the parsed options after its loop is outside the model (harness bookkeeping)",
               "the trailing `if` needs of aux are kept as raw tokens (need parsing is not modelled)"]
    TECHNIQUE = ("Lean 4 theorems (a generic permutation theorem for option loops from a per-clause locality lemma; "
                 "no-absorption lemmas for the sub-parsers) + differential correspondence on all permutations")
    LEVEL_TEXT = ("Proved on the model: a generic theorem (C15_order_independent / texts_order_independent) — clauses that "
                  "are each local (what follows is never absorbed) and whose updates commute parse to the same configuration "
                  "in every order — instantiated per verb from 'the clause parses on its own': full for frame, do (repaired "
                  "list), aux (with trailing if), log, logger, rear (C15_frame, C15_buildFrame, C15_do, C15_aux, C15_log, "
                  "C15_logger, C15_rear, C15_marker_need for the in frame / by clauses of a need, and the command-level corollaries C15_build*); partial with the finding's region as hypothesis plus a proved counterexample for "
                  "framer (D61), do as found (D9), server (D62, D63). The no-absorption lemmas cover parseRelation/"
                  "parseIndirect (all relation forms), parseFields, parseDirect, the name loop of do. The model is tied to "
                  "building.py by running the real build methods on every permutation.")
    LEVEL_NOTE = ("Trusted: Lean kernel; propext, Classical.choice, Quot.sound; the hand transcription of the option loops and "
                  "sub-parsers validated only by the correspondence runs; what the verbs do after their loops is outside the model.")

    def __init__(self):
        self._fix = None

    def fixed(self):
        if self._fix is None:
            self._fix = do_as_fixed()
        return self._fix

    def extra_evidence(self):
        return {"tree_variant": "D9 repaired" if self.fixed() else "as found (D9 present)"}

    def generate(self, rng, n, tier):
        for i in range(n):
            yield gen_case(rng)

    def requests(self, case):
        fix = "1" if self.fixed() else "0"
        verb = case["verb"]
        out = []
        for p in perms(case):
            toks = tokens_of(case, p)
            if verb == "marker":
                out.append("marker %s %s" % (fix, tok_hex(toks[len(case["head"]):])))
            else:
                out.append("%s %s %s" % (verb, fix, tok_hex(toks[1:])))
        return out

    def model_post(self, case, replies):
        out = []
        for p, rep in zip(perms(case), replies):
            if case["verb"] == "marker":
                st, d = parse_reply(rep)
                if st == "ok":
                    if d["rest"] != tok_hex(case["tail"]):      # the loop stopped early: not `and`, Bad connective
                        e = "ERR parse"
                    else:
                        e = {"frame": unhx(d["frame"]), "marker": unhx(d["marker"]), "share": ".a.b",
                             "needs": case["head"].count("and") + case["tail"].count("and") + 1}
                else:
                    e = "ERR parse" if st == "ERR index" else st
            else:
                e = expect_verb(case["verb"], rep, tokens_of(case, p))
            out.append(norm_err(json.dumps(e, sort_keys=True)))
        return out

    def impl(self, case):
        return [norm_err(json.dumps(run_verb(case["verb"], tokens_of(case, p)), sort_keys=True)) for p in perms(case)]

    def oracle(self, case, out):
        if not out:
            return None
        # which clauses fail on their own?  With at most one such clause the error is attributable to it and
        # must be the same in every arrangement; with several, which one is reported first may depend on the
        # order, and the property only asks that every arrangement is rejected.
        failing = 0
        for c in case["clauses"]:
            r = run_verb(case["verb"], case["head"] + c + case["tail"])
            failing += isinstance(r, str) and r.startswith("ERR")
        norm = (lambda o: o) if failing <= 1 else (lambda o: '"ERR"' if o.startswith('"ERR') else o)
        first = norm(out[0])
        for p, o in zip(perms(case), out):
            if norm(o) != first:
                return ("clause order matters for %s: %r gives %s but %r gives %s" % (
                    case["verb"], " ".join(tokens_of(case, perms(case)[0])), first[:160], " ".join(tokens_of(case, p)), o[:160]))
        return None

    def nontrivial(self, case, out):
        return len(case["clauses"]) >= 2 and any(not o.startswith('"ERR') for o in out)

    def bucket(self, case, out):
        ok = sum(1 for o in out if not o.startswith('"ERR'))
        return "%s:%d clauses:%s" % (case["verb"], len(case["clauses"]), "all-ok" if ok == len(out) else "all-err" if ok == 0 else "mixed")

    def region(self, finding, case):
        """the Lean region predicates d9Region / d61Region / d62Region / d63Region, evaluated by the driver"""
        fid = finding.get("id")
        verb_of = {"D9": "do", "D61": "framer", "D62": "server", "D63": "server"}
        if fid not in verb_of or case["verb"] != verb_of[fid] or (fid == "D9" and self.fixed()):
            return False
        cls = ";".join(tok_hex(c) for c in case["clauses"]) or "-"
        cache = self.__dict__.setdefault("_regions", {})
        if (fid, cls) not in cache:
            cache[(fid, cls)] = core.Driver(self.ENGINE).run(["region %s %s" % (fid, cls)])[0] == "1"
        return cache[(fid, cls)]

    def shrink_candidates(self, case):
        cl = case["clauses"]
        for i in range(len(cl)):
            if len(cl) > 2:
                yield dict(case, clauses=cl[:i] + cl[i + 1:])
        if case["tail"]:
            yield dict(case, tail=[])
