"""C16 — script layout does not change what is built.
Model: lean/IofloModel/Model/Lex.lean (REO_Chunks as a scanner, Builder.tokenize, the command reading loop of
       Builder.build, text-mode readline; Layout/render/erase).
Theorems: lean/IofloModel/Props/C16.lean (commands (render L) = erase L for every well-formed layout L).
Tie: Builder.dispatch is replaced by a recorder; the token lists the real reader dispatches for a text are
     compared with the model's `commands` on the same text (laid-out programs, example plans, raw character soup);
     Lean's `render`/`ok`/`erase` of every generated layout are compared with the harness's own renderer, so the
     layouts tested are layouts the theorem speaks about.
Oracle (independent of the model): the reader dispatches exactly the program's commands for the laid-out text,
     and (build cases) the really built houses and an 8-tick run are identical for canonical and laid-out text.
Tree variants: the check probes whether defect D50 is repaired in the tree under test
     (fixes/D50-tokenize-last-line-strip.patch) and compares with `commands` (repaired) or `commandsOld` (as found);
     as found, layouts in the D50 region are reported as the known finding."""
import json, itertools
import core
import flobuild as fb

INDENT = [" ", " ", " ", "  ", "    ", "\t", "\t", " \t", "\x0b", "\x0c", "\x1c", "\x1f", "\xa0", " ", "　", "\x85"]
PYSPACE = {chr(i) for i in range(0x3001) if chr(i).isspace()}      # Py_UNICODE_ISSPACE


def hx(s):
    return s.encode("utf-8").hex() or "-"


def unhx(h):
    return "" if h == "-" else bytes.fromhex(h).decode("utf-8")


def enc_cmds(cmds):
    return ";".join(",".join(hx(t) for t in c) for c in cmds) or "-"


def dec_cmds(s):
    return [] if s == "-" else [[unhx(t) for t in c.split(",")] for c in s.split(";")]


def tok_ok(t):
    """Python mirror of Lean `tokOK` (used only to filter what is offered to the layout generator)"""
    if not t:
        return False
    if t[0] in "\"'":
        q = t[0]
        return len(t) >= 2 and t[-1] == q and all(c not in (q, "\n", "\r") for c in t[1:-1])
    return (all(c not in " \"'" and c not in PYSPACE for c in t) and t[0] != "#" and t[-1] != "\\")


def in_load(t):
    return t in "load"


# ---- layouts (same shape as Lean `Layout`)

def body(toks):
    out = ""
    for i, (n, t) in enumerate(toks):
        out += t if i == 0 else " " * (n + 1) + t
    return out


def seg_text(s):
    return s["lead"] + body(s["toks"]) + s["trail"]


def run_lines(r):
    out = [seg_text(s) + "\\" * (k + 1) + "\n" for s, k in r["mids"]]
    if r["ending"] is None:
        out.append(seg_text(r["last"]) + "\n")
    else:
        gap, text = r["ending"]
        out.append(r["last"]["lead"] + body(r["last"]["toks"]) + " " * gap + "#" + text + "\n")
    return out


def render(L):
    lines = []
    for r in L["pre"]:
        lines += run_lines(r)
    for c in L["cmds"]:
        lines += run_lines(c["head"])
        for r in c["conts"]:
            lines += run_lines(r)
    return "".join(lines)


def run_tokens(r):
    return [t for s, _ in r["mids"] for _, t in s["toks"]] + [t for _, t in r["last"]["toks"]]


def erase(L):
    return [run_tokens(c["head"]) + [t for r in c["conts"] for t in run_tokens(r)] for c in L["cmds"]]


def all_runs(L):
    for r in L["pre"]:
        yield r
    for c in L["cmds"]:
        yield c["head"]
        for r in c["conts"]:
            yield r


def space_lead(L):
    return all((not r["mids"]) or all(c == " " for c in r["last"]["lead"]) for r in all_runs(L))


def layout_words(L):
    def w(s):
        return hx(s)

    def seg(s):
        return [w(s["lead"]), ",".join("%d:%s" % (n, hx(t)) for n, t in s["toks"]) or "-", w(s["trail"])]

    def run(r):
        out = ["R"]
        for s, k in r["mids"]:
            out += ["M"] + seg(s) + [str(k)]
        out += ["T"] + seg(r["last"]) + ["p" if r["ending"] is None else "c:%d:%s" % (r["ending"][0], hx(r["ending"][1]))]
        return out
    out = ["P"]
    for r in L["pre"]:
        out += run(r)
    for c in L["cmds"]:
        out += ["C"] + run(c["head"])
        for r in c["conts"]:
            out += run(r)
    return out


class LayoutGen(object):
    def __init__(self, rng, wild=0.5, d50=0.0):
        self.rng = rng
        self.wild = wild      # how much is varied
        self.d50 = d50        # probability of non-space indentation on the last line of a backslash run

    def ws(self, lo=0, hi=3, plain=False):
        r = self.rng
        n = r.randrange(lo, hi + 1)
        if plain or r.random() > self.wild * 0.6:
            return " " * r.choice([0, 1, 2, 3, 4, 8]) if n else ""
        return "".join(r.choice(INDENT) for _ in range(n))

    def comment(self):
        r = self.rng
        words = ["note", "of", "to", "#", '"', "'", "x\\y", "\\ ", "frame", "  ", "\t", "ok"]
        text = " ".join(r.choice(words) for _ in range(r.randrange(0, 5)))
        text = r.choice(["", " "]) + text
        while text.endswith("\\"):
            text += r.choice([" ", "."])
        return text

    def seg(self, toks, lead=None):
        r = self.rng
        return {"lead": self.ws() if lead is None else lead,
                "toks": [[r.choice([0, 0, 0, 1, 2, 5]) if r.random() < self.wild else 0, t] for t in toks],
                "trail": self.ws() if r.random() < self.wild * 0.5 else ""}

    def run(self, toks):
        r = self.rng
        # backslash breaks
        pieces, cur = [], []
        for i, t in enumerate(toks):
            if i and r.random() < self.wild * 0.35:
                pieces.append(cur)
                cur = []
                if r.random() < 0.1:
                    pieces.append([])          # a line holding only a backslash
            cur.append(t)
        pieces.append(cur)
        if not toks and r.random() < 0.1:
            pieces = [[], []]
        mids = [[self.seg(p), r.choice([0, 0, 0, 1, 2])] for p in pieces[:-1]]
        if mids:
            lead = self.ws(plain=True)
            if r.random() < self.d50:
                lead = r.choice(["\t", " \t", "\t ", "\x0b", "\xa0 "])
        else:
            lead = None
        last = self.seg(pieces[-1], lead=lead)
        ending = None
        if r.random() < self.wild * 0.4:
            gap = r.randrange(0, 4) if not last["toks"] else r.randrange(1, 4)
            ending = [gap, self.comment()]
            last["trail"] = ""
        return {"mids": mids, "last": last, "ending": ending}

    def filler(self):
        r = self.rng
        out = []
        while r.random() < self.wild * 0.45:
            out.append(self.run([]))
        return out

    def cmd(self, toks):
        r = self.rng
        cuts = [0]
        if not in_load(toks[0]):
            for i in range(1, len(toks)):
                if toks[i] in fb.RESERVED and r.random() < self.wild * 0.5:
                    cuts.append(i)
        cuts.append(len(toks))
        runs = [self.run(toks[a:b]) for a, b in zip(cuts, cuts[1:])]
        conts = []
        for rr in runs[1:]:
            conts += self.filler()
            conts.append(rr)
        conts += self.filler()
        return {"head": runs[0], "conts": conts}

    def layout(self, prog):
        return {"pre": self.filler(), "cmds": [self.cmd(c) for c in prog]}


split_tree = fb.split_tree


def expand_ref(files, main, depth=0):
    """reference: the commands dispatched for a tree of programs"""
    out = []
    for c in main:
        out.append(c)
        if c[0] == "load":
            out += expand_ref(files, files[c[1]], depth + 1)
    return out


def prog_ok(prog):
    return all(c and all(tok_ok(t) for t in c) and c[0] not in fb.RESERVED for c in prog)


class CHECK(core.Check):
    PROPERTY = "C16"
    LEAN_MODULES = ["IofloModel.Props.C16"]
    ENGINE = "lex"
    N_QUICK = 260
    N_THOROUGH = 6000
    N_SEARCH = 400
    RULE = ("cases: (a) generated runnable FloScript programs and the shipped example plans (token lists taken from "
            "the reader's own dispatch of the original file) under random layouts drawn from the Lean `Layout` space: "
            "indentation/trailing white space from the full Python white-space set, 1..6 spaces between tokens, "
            "backslash breaks (1..3 backslashes, backslash-only lines) at token boundaries, newline breaks before "
            "reserved words, blank/comment/backslash-only filler lines, trailing comments, optional missing final "
            "newline; (b) raw character soup over an alphabet of quotes, '#', backslash, spaces, tabs, newlines, CR, "
            "reserved words; (c) exhaustive: all strings of length <= 4 (quick) / <= 5 (thorough) over "
            "{a, space, quote, #, backslash, newline} plus a reserved word alphabet of lines. A case is non-trivial "
            "when at least one command is dispatched; distinct by text. 'build' cases additionally build and run "
            "(8 ticks) canonical and laid-out text with the real Builder. "
            "(d) file trees (a quarter of the generated cases): a program split over up to ~6 files by `load` commands at "
            "random command boundaries (load as first / middle / last command, nested three deep, empty files), every "
            "file with its own random layout and with or without its final newline, read by the real Builder.build with "
            "the real buildLoad; plus exhaustive small trees: every parent of <= 3 lines containing `load f` with every "
            "loaded file of <= 2 lines (<= 3 thorough) over {command, connective continuation, blank, comment, backslash "
            "line, load of a missing file}, last line with and without newline.")
    TRUSTED = ["correspondence: Builder.build with dispatch replaced by a recorder vs Lean `commands` on the same "
               "UTF-8 text; Lean render/ok/erase of each generated layout vs the harness renderer",
               "CPython: str.strip/rstrip white-space set, re.findall alternation order, universal newlines of "
               "open(..., 'r'), UTF-8 decoding",
               "that the builder is a function of the dispatched token lists (plus line numbers used in messages and "
               "Act.count): exercised by the build cases (house dump + 8-tick trace), not proved"]
    PARTIAL = ["C16_layout_asfound_partial (code as found: needs Layout.spaceLead; defect D50)",
               "load: file names are looked up as written, all files in one directory (path resolution relative to the "
               "loading file, `~` expansion and a file that loads itself until the process runs out of descriptors are not "
               "modelled); C16_load_layout / C16_load_layouts_agree are the statements for trees of files",
               "tabs/other white space BETWEEN tokens are not separators of REO_Chunks (C16_only_blanks_separate: a run without "
               "blank and quote is one token, whatever other white space it contains); layouts use spaces between "
               "tokens (indentation and trailing white space range over all Python white space)",
               "missing final newline: C16_final_newline_optional / C16_layout_noeol"]
    TECHNIQUE = ("Lean 4 theorem over all layouts (structural induction on layout, runs, segments; an inductive "
                 "'spaced tokens' predicate closed under strip/join) + differential correspondence with the real reader")
    LEVEL_TEXT = ("File trees: the read loop with `load` dispatches the load-expansion of the files' programs "
                  "(C16_load_reads_programs), so a tree of files in any admissible layouts, each with or without final newline, "
                  "dispatches the expansion of the erased programs (C16_load_layout, C16_load_layouts_agree). "
                  "Full proof on the model of the repaired reader: for every well-formed Layout (any indentation, "
                  "spacing, backslash and connective continuations, filler and comments) `commands (render L) = erase L` "
                  "(C16_layout), hence two layouts of one program dispatch the same commands (C16_layouts_agree) and "
                  "every well-formed program has a layout (C16_canon, C16_program); the newline at the very end of the file is optional (C16_final_newline_optional, C16_layout_noeol). For the code as found the same is "
                  "proved under Layout.spaceLead (C16_layout_asfound_partial) and refuted without it "
                  "(C16_asfound_counterexample, defect D50). The model is tied to building.py/globaling.py by running "
                  "both on the same texts.")
    LEVEL_NOTE = ("Trusted: Lean kernel; propext, Classical.choice, Quot.sound; hand transcription of "
                  "Builder.tokenize / Builder.build reading loop / REO_Chunks validated only by the correspondence runs; "
                  "CPython str/re/open semantics; that everything downstream of dispatch depends on the token lists "
                  "only (checked on built houses and 8-tick runs, not proved).")

    def __init__(self):
        self._fixed = None
        self._plans = None

    # ---- tree variant
    def fixed(self):
        if self._fixed is None:
            self._fixed = fb.tokenize_is_fixed()
        return self._fixed

    def extra_evidence(self):
        return {"tree_variant": "D50 repaired (model: commands)" if self.fixed() else "as found (model: commandsOld)"}

    # ---- cases
    def plans(self):
        if self._plans is None:
            out = []
            for name, text in fb.example_plans():
                try:
                    prog = fb.dispatched(text)
                except Exception:
                    continue
                if prog_ok(prog) and not any(c[0] == "load" for c in prog):
                    out.append((name, text, prog))
            self._plans = out
        return self._plans

    def layout_case(self, rng, prog, origin, build, wild=None):
        # non-space indentation of the last line of a backslash run: inside the theorem's hypothesis for the
        # repaired reader; the region of known finding D50 for the code as found (kept rare there)
        d50 = 0.3 if self.fixed() else 0.03
        g = LayoutGen(rng, wild=rng.choice([0.2, 0.5, 0.9]) if wild is None else wild, d50=d50)
        L = g.layout(prog)
        return {"kind": "layout", "prog": prog, "layout": L, "eol": rng.random() > 0.15, "build": build,
                "origin": origin}

    def tree_case(self, rng, prog, origin):
        files, main = split_tree(rng, prog)
        d50 = 0.3 if self.fixed() else 0.0
        g = LayoutGen(rng, wild=rng.choice([0.2, 0.5, 0.9]), d50=d50)
        lay = {name: {"prog": p, "layout": g.layout(p), "eol": rng.random() > 0.3} for name, p in files.items()}
        return {"kind": "tree", "files": lay, "main": {"prog": main, "layout": g.layout(main), "eol": rng.random() > 0.15},
                "origin": origin}

    def generate(self, rng, n, tier):
        plans = self.plans()
        n_build = max(20, n // 6)
        n_soup = n // 4
        n_tree = n // 4
        n -= n_tree
        for i in range(n_tree):
            if plans and rng.random() < 0.2:
                name, text, prog = rng.choice(plans)
                yield self.tree_case(rng, prog, "tree-plan:" + name)
            else:
                yield self.tree_case(rng, fb.gen_program(rng), "tree-gen")
        n_plan = min(len(plans) * (2 if tier == "thorough" else 1), n // 4)
        for i in range(n_plan):
            name, text, prog = plans[i % len(plans)]
            buildable = not any(c[0] in ("logger", "server", "log", "loggee") for c in prog)
            yield self.layout_case(rng, prog, "plan:" + name, build=buildable and i < len(plans) and rng.random() < 0.5)
        for i in range(n - n_plan - n_soup):
            prog = fb.gen_program(rng)
            yield self.layout_case(rng, prog, "gen", build=i < n_build)
        alpha = list("ab#\"'\\ \n\n \t") + ["of", "to", "load", "lo", "\r", "\x0b", "\x1c", " ", "\xa0", "x", "if", "==",
                                             " \\\n", "\\\n", "# c\n", "\r\n"]
        for i in range(n_soup):
            k = rng.randrange(0, 40)
            yield {"kind": "text", "text": "".join(rng.choice(alpha) for _ in range(k)), "origin": "soup"}

    def exhaustive(self, tier):
        L = 5 if tier == "thorough" else 4
        for n in range(L + 1):
            for t in itertools.product("a \"#\\\n", repeat=n):
                yield {"kind": "text", "text": "".join(t), "origin": "exhaustive"}
        lines = ["do x\n", " of y\n", "\n", "# c\n", "to z \\\n", "load f\n", "\\\n", "if"]
        for n in range(1, 4 if tier == "quick" else 5):
            for t in itertools.product(lines, repeat=n):
                yield {"kind": "text", "text": "".join(t), "origin": "exhaustive-lines"}
        # file boundaries: every parent of <= 3 lines holding a `load f`, every loaded file of <= 2 (3) lines, the last
        # one with and without its newline; `load g` names a file that does not exist
        parent = ["do x\n", " of y\n", "load f\n", "# c\n"]
        child = ["do z\n", " to w\n", "\n", "# c\n", "load g\n", "to v \\\n"]
        for n in range(1, 4):
            for t in itertools.product(parent, repeat=n):
                if "load f\n" not in t:
                    continue
                for m in range(0, 3 if tier == "quick" else 4):
                    for u in itertools.product(child, repeat=m):
                        text = "".join(u)
                        for cut in ((False, True) if text.endswith("\n") else (False,)):
                            yield {"kind": "tree-text", "main": "".join(t), "files": {"f": text[:-1] if cut else text},
                                   "origin": "exhaustive-tree"}

    def tree_texts(self, case):
        """(main text, {name: text})"""
        if case["kind"] == "tree-text":
            return case["main"], case["files"]

        def text(f):
            t = render(f["layout"])
            return t if f["eol"] else t[:-1]
        return text(case["main"]), {n: text(f) for n, f in case["files"].items()}

    def text_of(self, case):
        if case["kind"] == "text":
            return case["text"]
        t = render(case["layout"])
        return t if case.get("eol", True) else t[:-1]

    def requests(self, case):
        if case["kind"] in ("tree", "tree-text"):
            main, files = self.tree_texts(case)
            fl = ";".join("%s:%s" % (hx(n), hx(t)) for n, t in sorted(files.items())) or "-"
            reqs = ["tree %s 8 %s %s" % ("1" if self.fixed() else "0", hx(main), fl)]
            if case["kind"] == "tree":
                for f in [case["main"]] + [case["files"][n] for n in sorted(case["files"])]:
                    reqs.append("layout " + " ".join(layout_words(f["layout"])))
            return reqs
        op = "cmds" if self.fixed() else "cmdsold"
        reqs = [op + " " + hx(self.text_of(case))]
        if case["kind"] == "layout":
            reqs.append("layout " + " ".join(layout_words(case["layout"])))
        return reqs

    def model_post(self, case, replies):
        if case["kind"] in ("tree", "tree-text"):
            out = ["tree " + replies[0]]
            if case["kind"] == "tree":
                for f, rep_ in zip([case["main"]] + [case["files"][n] for n in sorted(case["files"])], replies[1:]):
                    parts = rep_.split(" ")
                    if len(parts) != 4 or parts[0] != "1" or unhx(parts[2]) != render(f["layout"]) or parts[3] != enc_cmds(f["prog"]):
                        out.append("Lean layout (ok/render/erase) differs from the harness for a file of the tree")
            return out
        out = ["cmds " + replies[0]]
        if case["kind"] == "layout":
            parts = replies[1].split(" ")
            if len(parts) != 4:
                out.append("layout-reply " + replies[1][:80])
            else:
                ok, sl, rend, er = parts
                want = render(case["layout"])
                if ok != "1":
                    out.append("layout not ok in Lean")
                if unhx(rend) != want:
                    out.append("Lean render differs from harness render")
                if er != enc_cmds(case["prog"]):
                    out.append("Lean erase differs from program")
                if (sl == "1") != space_lead(case["layout"]):
                    out.append("Lean spaceLead differs from harness")
        return out

    def impl(self, case):
        if case["kind"] in ("tree", "tree-text"):
            main, files = self.tree_texts(case)
            cmds, ended = fb.dispatched_tree(main, files)
            return ["tree %s %s" % (ended, enc_cmds(cmds))]
        return ["cmds " + enc_cmds(fb.dispatched(self.text_of(case)))]

    def oracle(self, case, out):
        if case["kind"] == "tree":
            # the programs of the files, spliced after their `load` commands, computed here from the programs alone
            want = expand_ref({n: f["prog"] for n, f in case["files"].items()}, case["main"]["prog"])
            if not out or out[0] != "tree done " + enc_cmds(want):
                got = out[0].split(" ") if out else ["?", "?", "-"]
                cmds = dec_cmds(got[2]) if len(got) == 3 else got
                for i, (a, b) in enumerate(itertools.zip_longest(cmds, want)):
                    if a != b:
                        return ("the layout of the file tree changed what is dispatched (reading ended: %s): command %d is "
                                "%r, the programs of the files give %r" % (got[1], i, a, b))
                return "reading the file tree ended with %s" % got[1]
            return None
        if case["kind"] != "layout":
            return None
        # the property compares a layout with the canonical layout of the same program (one command per
        # line, single spaces) on the implementation itself
        canon = fb.dispatched(fb.canonical_text(case["prog"]))
        want = "cmds " + enc_cmds(canon)
        if not out or out[0] != want:
            got = dec_cmds(out[0][5:]) if out and out[0].startswith("cmds ") else out
            for i, (a, b) in enumerate(itertools.zip_longest(got, canon)):
                if a != b:
                    return ("layout changed the dispatched commands: command %d is %r, the canonical layout "
                            "dispatches %r" % (i, a, b))
            return "layout changed the dispatched commands"
        if case.get("build"):
            a = fb.build(fb.canonical_text(case["prog"]), ticks=8, name="canon.flo")
            b = fb.build(self.text_of(case), ticks=8, name="laid.flo")
            if a.status != b.status:
                return "build status differs: canonical %s, laid out %s %s" % (a.status, b.status, b.detail[:120])
            if a.dump != b.dump:
                d = next((x, y) for x, y in itertools.zip_longest(a.dump, b.dump) if x != y)
                return "built house differs: %r vs %r" % (d[0], d[1])
            if a.trace != b.trace:
                d = next((x, y) for x, y in itertools.zip_longest(a.trace, b.trace) if x != y)
                return "run differs: %r vs %r" % (str(d[0])[:150], str(d[1])[:150])
        return None

    def nontrivial(self, case, out):
        if case["kind"] in ("tree", "tree-text"):
            return bool(out) and out[0].startswith("tree ") and not out[0].endswith(" -")
        return bool(out) and out[0].startswith("cmds ") and out[0] != "cmds -"

    def bucket(self, case, out):
        if case["kind"] == "text":
            return "text:" + case.get("origin", "")
        if case["kind"] == "tree-text":
            return "tree-text:" + (out[0].split(" ")[1] if out else "?")
        if case["kind"] == "tree":
            fs = list(case["files"].values())
            f = ["files%d" % min(len(fs), 4)]
            if any(not x["eol"] for x in fs):
                f.append("noeol")
            if any(x["layout"]["cmds"] and any(run_tokens(r) for r in x["layout"]["cmds"][-1]["conts"][-1:]) for x in fs):
                f.append("ends-in-continuation")
            if any(not x["prog"] for x in fs):
                f.append("empty-file")
            if any(x["prog"] and x["prog"][-1][0] == "load" for x in fs + [case["main"]]):
                f.append("load-last")
            return "tree:" + "+".join(f)
        L = case["layout"]
        runs = list(all_runs(L))
        f = []
        if any(r["mids"] for r in runs):
            f.append("bs")
        if any(any(run_tokens(r) for r in c["conts"]) for c in L["cmds"]):
            f.append("nl")
        if any(r["ending"] is not None for r in runs):
            f.append("com")
        if any(c not in " " for r in runs for s in [x for x, _ in r["mids"]] + [r["last"]] for c in s["lead"] + s["trail"]):
            f.append("ws")
        if not case.get("eol", True):
            f.append("noeol")
        if case.get("build"):
            f.append("build")
        return "layout:" + "+".join(f)

    def region(self, finding, case):
        """D50: some backslash run whose last line is indented with something other than spaces
        (evaluated by the Lean predicate Layout.spaceLead through the driver)"""
        if finding.get("id") != "D50" or case.get("kind") != "layout" or self.fixed():
            return False
        rep = core.Driver(self.ENGINE).run(["layout " + " ".join(layout_words(case["layout"]))])[0].split(" ")
        return len(rep) == 4 and rep[1] == "0"

    def search(self, rng, n, tier):
        for i in range(n):
            yield self.layout_case(rng, fb.gen_program(rng), "search", build=(i % 4 == 0), wild=0.9)

    def shrink_candidates(self, case):
        if case["kind"] in ("tree", "tree-text"):
            return
        if case["kind"] == "text":
            t = case["text"]
            for i in range(len(t)):
                yield dict(case, text=t[:i] + t[i + 1:])
            return
        prog, L = case["prog"], case["layout"]
        for i in range(len(prog)):
            yield dict(case, prog=prog[:i] + prog[i + 1:],
                       layout={"pre": L["pre"], "cmds": L["cmds"][:i] + L["cmds"][i + 1:]})
        if L["pre"]:
            yield dict(case, layout={"pre": [], "cmds": L["cmds"]})
        plain = LayoutGen(__import__("random").Random(0), wild=0.0)
        for i, c in enumerate(L["cmds"]):
            canon = plain.cmd(prog[i])
            if c != canon:
                yield dict(case, layout={"pre": L["pre"], "cmds": L["cmds"][:i] + [canon] + L["cmds"][i + 1:]})
        if case.get("build"):
            yield dict(case, build=False)
