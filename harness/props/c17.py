"""C17 — direct data literals convert to the documented typed values.
Model: lean/IofloModel/Model/Literal.lean (the ten Convert2* functions, the regexes of globaling.py as recognisers,
       CPython's int/float/complex text grammars, ASCII).
Theorems: lean/IofloModel/Props/C17.lean (the nested converters = the documented flat order; round trips).
Tie: (a) every Convert2* function and StripQuotes of the working tree vs the model on the same literal text;
     (b) the same literal inside scripts, one per literal context (init, put, set, inc, do with/per/cum, need goal,
     tolerance, bid period, timeout), built by the real Builder and run for two ticks: what arrives in shares and
     act parameters vs what the model's converter for that context returns.
Oracle (independent of the model): a reference converter that applies the documented order with Python's own
     re/int/float/complex (patterns written from the documentation, not imported from globaling), and the round
     trip value -> literal text -> value for generated values."""
import re, struct, math, itertools, fractions
import core
import flobuild as fb

FUNCS = ["Convert2Num", "Convert2CoordNum", "Convert2BoolCoordNum", "Convert2StrBoolCoordNum", "Convert2PointNum",
         "Convert2CoordPointNum", "Convert2BoolCoordPointNum", "Convert2PathCoordPointNum",
         "Convert2BoolPathCoordPointNum", "Convert2StrBoolPathCoordPointNum"]
PYSPACE = {chr(i) for i in range(0x3001) if chr(i).isspace()}      # Py_UNICODE_ISSPACE


def hx(s):
    return s.encode("utf-8").hex() or "-"


def unhx(h):
    return "" if h == "-" else bytes.fromhex(h).decode("utf-8")


def bits(x):
    if x != x:
        return "nan"
    return struct.pack(">d", x).hex()


def canon_value(v):
    """canonical text of a Python value returned by a converter"""
    if v is None:
        return "none"
    if v is True or v is False:
        return "bool %d" % v
    if isinstance(v, str):
        return "str " + hx(v)
    if isinstance(v, int):
        return "int %d" % v
    if isinstance(v, float):
        return "float " + bits(v)
    if isinstance(v, complex):
        return "complex %s %s" % (bits(v.real), bits(v.imag))
    if isinstance(v, tuple) and hasattr(v, "_fields"):
        return "point %s %s" % (type(v).__name__, " ".join(bits(c) for c in v))
    return "other " + type(v).__name__


def F(tok):
    """model float -> Python float: rounding of an exact decimal is delegated to CPython's float()"""
    p = tok.split(":")
    if p[0] == "nan":
        return float("nan")
    if p[0] == "inf":
        return float("-inf") if p[1] == "1" else float("inf")
    return float("%s%se%s" % ("-" if p[1] == "1" else "", p[2], p[3]))


def model_value(reply):
    """model reply -> the same canonical text as canon_value (IEEE rounding and the lat/lon arithmetic
    `deg + min/60.0` are done here, in binary64)"""
    w = reply.split(" ")
    if w[0] in ("ERR", "none", "bool", "str", "int", "unmodelled"):
        return reply
    if w[0] == "float":
        return "float " + bits(F(w[1]))
    if w[0] == "complex":
        return "complex %s %s" % (bits(F(w[1])), bits(F(w[2])))
    if w[0] == "coord":
        x = F(w[2]) + F(w[3]) / 60.0
        return "float " + bits(-x if w[1] == "1" else x)
    if w[0] == "point":
        return "point %s %s" % (w[1], " ".join(bits(F(c)) for c in w[2:]))
    return "model? " + reply


def modelled(t):
    q = (len(t) >= 2 and t[0] in "\"'" and REF_QUOTED[t[0]].match(t))
    return bool(q) or all(ord(c) < 128 or c in PYSPACE for c in t)


# ---- reference converter written from the documentation (oracle)
NUMBER = r"[-+]?\d+\.\d*|[-+]?\d+"
REF_QUOTED = {'"': re.compile(r'^"[^"]*"$'), "'": re.compile(r"^'[^']*'$")}
REF_PATH = re.compile(r"^(?:[A-Za-z_]\w*(?:\.[A-Za-z_]\w*)*\.?|(?:\.[A-Za-z_]\w*)+\.?)$")
REF_LATLON = [(re.compile(r"^(\d+)[NEne,](\d+\.\d+)$"), 1.0), (re.compile(r"^(\d+)[SWsw,](\d+\.\d+)$"), -1.0)]


def _pt(letters, first_optional=False):
    pat = "^"
    for i, l in enumerate(letters):
        pat += "(%s)%s[%s%s,]" % (NUMBER, "?" if (i == 0 and first_optional) else "", l.upper(), l.lower())
    return re.compile(pat + "$")


REF_POINTS = [("Pxy", _pt("xy", True)), ("Pne", _pt("ne")), ("Pfs", _pt("fs")),
              ("Pxyz", _pt("xyz")), ("Pned", _pt("ned")), ("Pfsb", _pt("fsb"))]
CLASSES = {  # which classes a converter knows, in the documented order
    0: "N", 1: "CN", 2: "BCN", 3: "SBCN", 4: "PN", 5: "CPN", 6: "BCPN", 7: "HCPN", 8: "BHCPN", 9: "SBHCPN"}
ORDER = "SBHCPN"      # String, Bool/None, patH, Coord, Point, Number


def ref_convert(k, t):
    """documented order: quoted string, none/true/yes/false/no, path text, lat/lon, typed points, decimal int,
    hex int, float, complex — restricted to the classes converter k knows"""
    for cls in ORDER:
        if cls not in CLASSES[k]:
            continue
        if cls == "S":
            for q in "\"'":
                if REF_QUOTED[q].match(t):
                    return "str " + hx(t.strip(q))
        elif cls == "B":
            low = t.lower()
            if low == "none":
                return "none"
            if low in ("true", "yes"):
                return "bool 1"
            if low in ("false", "no"):
                return "bool 0"
        elif cls == "H":
            if REF_PATH.match(t):
                return "str " + hx(t)
        elif cls == "C":
            for rx, sign in REF_LATLON:
                m = rx.match(t)
                if m:
                    return "float " + bits(sign * (float(m.group(1)) + float(m.group(2)) / 60.0))
        elif cls == "P":
            for name, rx in REF_POINTS:
                m = rx.match(t)
                if m:
                    try:
                        return "point %s %s" % (name, " ".join(bits(float(g or "")) for g in m.groups()))
                    except ValueError:
                        return "ERR"
        elif cls == "N":
            for f in (lambda s: int(s, 10), lambda s: int(s, 16), float, complex):
                try:
                    return canon_value(f(t))
                except ValueError:
                    pass
    return "ERR"


# ---- literal writers for the round trip clause
def write_value(rng, kind):
    """(literal text, expected canonical value, contexts in which the round trip is claimed)"""
    if kind == "int":
        n = rng.choice([0, 1, -1, 7, 10, 255, -4096, 10 ** 12, rng.randrange(-10 ** 6, 10 ** 6), rng.randrange(-10 ** 30, 10 ** 30)])
        return repr(n), "int %d" % n, (0, 1, 2, 3, 4, 5, 6, 7, 8, 9)
    if kind == "float":
        x = rng.choice([0.5, -0.0, 1.5, 1e16, 1e-5, 5e-324, 1.7976931348623157e308, 0.1, 100.0, rng.uniform(-1e6, 1e6),
                        rng.random() * 10 ** rng.randrange(-300, 300), struct.unpack(">d", struct.pack(">Q", rng.getrandbits(64)))[0]])
        if x != x or x in (float("inf"), float("-inf")):
            x = 2.5
        return repr(x), "float " + bits(x), (0, 1, 2, 3, 4, 5, 6, 7, 8, 9)
    if kind == "complex":
        z = complex(rng.choice([0.0, 1.0, -2.5, 1e20]), rng.choice([1.0, -1.0, 2.5, 1e-7]))
        return repr(z), canon_value(z), (0, 1, 2, 3, 4, 5, 6, 7, 8, 9)
    if kind == "bool":
        b = rng.random() < 0.5
        return repr(b), "bool %d" % b, (2, 3, 6, 8, 9)
    if kind == "none":
        return "None", "none", (2, 3, 6, 8, 9)
    if kind == "str":
        alpha = "abc XYZ 019 _-+.,:;#!?()[]{}<>=/\\|~@$%^&*`é\t"
        q = rng.choice("\"'")
        s = "".join(rng.choice(alpha + ("'" if q == '"' else '"')) for _ in range(rng.randrange(0, 12)))
        return q + s + q, "str " + hx(s), (3, 9)
    if kind == "point":
        name, letters = rng.choice([("Pxy", "xy"), ("Pne", "ne"), ("Pfs", "fs"), ("Pxyz", "xyz"), ("Pned", "ned"), ("Pfsb", "fsb")])
        cs, text = [], ""
        for l in letters:
            if rng.random() < 0.5:
                n = rng.randrange(-1000, 1000)
                lit, val = str(n), float(n)
            else:
                a, b = rng.randrange(-1000, 1000), rng.randrange(0, 1000)
                lit = "%d.%03d" % (a, b)
                val = float(lit)
            cs.append(val)
            text += lit + (l.upper() if rng.random() < 0.3 else l)
        return text, "point %s %s" % (name, " ".join(bits(c) for c in cs)), (4, 5, 6, 7, 8, 9)
    raise ValueError(kind)


SHAPES = ["int", "hex", "barehex", "float", "special", "complex", "bool", "quoted", "path", "badpath", "latlon",
          "point", "point3", "garbage", "mutant", "padded"]


def gen_literal(rng, shape=None):
    r = rng
    s = shape or r.choice(SHAPES)
    dig = lambda n=3: "".join(r.choice("0123456789") for _ in range(r.randrange(1, n + 1)))
    sign = lambda: r.choice(["", "", "-", "+"])
    if s == "int":
        return sign() + r.choice([dig(6), "0" + dig(3), dig(2) + "_" + dig(2), dig(1) + "__" + dig(1), "_" + dig(2), dig(2) + "_"])
    if s == "hex":
        h = "".join(r.choice("0123456789abcdefABCDEF") for _ in range(r.randrange(1, 6)))
        return sign() + r.choice(["0x", "0X", "0x_", "0x__", "0", ""]) + h + r.choice(["", "", "_", "g"])
    if s == "barehex":
        return r.choice(["dead", "beef", "ff", "1e5", "e5", "1e", "0b101", "0o17", "abc", "face", "a_b", "1e1_0", "deadbeef", "Fe", "c0ffee"])
    if s == "float":
        return sign() + r.choice([dig() + "." + dig(), dig() + ".", "." + dig(), ".", dig() + "e" + sign() + dig(2),
                                  dig() + "." + dig() + "E" + dig(1), dig() + "e", dig() + "e+", dig(1) + "_" + dig(1) + "." + dig(1) + "_" + dig(1),
                                  dig(1) + "._" + dig(1), dig(1) + "_." + dig(1), "1e400", "1e-400", dig() + "e" + dig(1) + "_" + dig(1)])
    if s == "special":
        return sign() + r.choice(["inf", "Inf", "INF", "infinity", "Infinity", "infinit", "nan", "NaN", "nana", "in", "infj", "nanj"])
    if s == "complex":
        a, b = sign() + dig(2), r.choice(["+", "-"]) + dig(2)
        return r.choice([a + b + "j", a + "j", "j", "-j", "+J", a + b + "J", "(" + a + b + "j)", "( " + a + b + "j )", a + b, a + " " + b + "j",
                         a + b + "j" + b, "(" + a + b + "j", a + b + "j)", "()", a + "e2" + b + "e-1j", a + "+-" + dig(1) + "j", "." + dig(1) + "j",
                         dig(1) + ".j", a + "+j", "1_0j", a + "+infj", "nan" + b + "j"])
    if s == "bool":
        w = r.choice(["none", "true", "yes", "false", "no", "nope", "yess", "non", "t", "nO", "YES", "None", "True", "FALSE"])
        return "".join(c.upper() if r.random() < 0.2 else c for c in w)
    if s == "quoted":
        q = r.choice("\"'")
        body = "".join(r.choice("ab 1#.\\" + ("'" if q == '"' else '"')) for _ in range(r.randrange(0, 6)))
        return r.choice([q + body + q, q + body, body + q, q + body + q + q, q + q + body + q, q + body + q + "\n", q + body + q + "x"])
    if s == "path":
        seg = lambda: r.choice("abz_AQ") + "".join(r.choice("ab_09Z") for _ in range(r.randrange(0, 3)))
        p = ".".join(seg() for _ in range(r.randrange(1, 4)))
        return r.choice(["", "."]) + p + r.choice(["", "", ".", "\n"])
    if s == "badpath":
        return r.choice([".", "..", "a..b", "a.1b", "1a", "a-b", ".a..", "a.b..", "a b", "a.b.\n\n", "_", "__a.__b", "a.", ".a."])
    if s == "latlon":
        return dig(3) + r.choice("NEnesSwW,xX") + dig(2) + r.choice([".", "", ".."]) + dig(2) + r.choice(["", "", "e", "\n", "."])
    if s in ("point", "point3"):
        num = lambda: sign() + r.choice([dig(2), dig(2) + ".", dig(2) + "." + dig(2), "", "." + dig(1), dig(1) + "e" + dig(1)])
        letters = r.choice(["xy", "ne", "fs"] if s == "point" else ["xyz", "ned", "fsb"])
        out = ""
        for l in letters:
            out += num() + r.choice([l, l, l.upper(), ",", l + l, ""])
        return out + r.choice(["", "", "\n", "q"])
    if s == "padded":
        return r.choice([" ", "\t", "\x0b", "\xa0", "\x1c", "\xa0\x1c", "\x1f\u2003", "\u2003", "\x85"]) + \
            gen_literal(r, r.choice(["int", "hex", "float", "complex", "special"])) + \
            r.choice(["", " ", "\n", "\x0c", "\xa0", "\x1d", "\u3000\x1e"])
    if s == "mutant":
        t = gen_literal(r, r.choice(SHAPES[:13]))
        i = r.randrange(0, len(t) + 1)
        c = r.choice("0123456789+-._eExXjJnNsSwWyYzZfFbBdD,()\"' \t\naf")
        return r.choice([t[:i] + c + t[i:], t[:i] + t[i + 1:], t[:i] + c + t[i + 1:]])
    return "".join(r.choice("0123456789+-._eExXjJnNsSwWyYzZfFbBdD,()\"' \t\naf") for _ in range(r.randrange(0, 8)))


# ---- script contexts
def token_ok(t):
    return bool(t) and (all(c not in " \"'" and c not in PYSPACE for c in t) and t[0] != "#" and not t.endswith("\\")
                        or (t[0] in "\"'" and len(t) >= 2 and t[-1] == t[0] and t[0] not in t[1:-1] and "\n" not in t)) \
        and t not in fb.RESERVED

def falsy_literals():
    """every literal form at the values whose Python truthiness is False (a converter or a caller that tests the value
    instead of `is None` loses exactly these)"""
    out = ["0", "-0", "+0", "00", "0_0", "0x0", "0X00", "-0x0", "0x", "0.0", "-0.0", "+0.0", ".0", "0.", "0e0", "0.0e5",
           "-0e-3", "0.00", "0_0.0_0", "0j", "-0j", "0J", "0+0j", "0-0j", "-0-0j", "(0+0j)", "0.0j", "0e0j", ".0j",
           '""', "''", '" "', "false", "False", "FALSE", "no", "No", "none", "None", "NONE",
           "0x0y", "0.0x0.0y", "-0x+0y", "0X0Y", ".0x.0y", "0,0,", "0n0e", "0N0E", "0f0s", "0x0y0z", "0.0x0.0y0.0z",
           "0n0e0d", "0f0s0b", "-0.0n0e-0d", "0,0,0,"]
    for l in "NESWnesw,":
        for form in ("0%s0.0", "00%s00.000", "0%s0.00", "000%s0.0", "0%s.0", "0%s0", "0%s0.", "-0%s0.0", "0%s0.0e0"):
            out.append(form % l)
    return out


def gen_quoted_ws(rng):
    """a quoted literal whose content has white space that a tokenizer could be tempted to normalise: runs of blanks,
    tabs and other in-line white space, blanks directly inside the quotes, `#` and the other quote character"""
    q = rng.choice("\"'")
    other = "'" if q == '"' else '"'
    gaps = [" ", "  ", "   ", "\t", " \t", "\t\t", "\x0b", "\x0c", " \x1f ", "\xa0", "  \xa0"]
    words = ["two", "blanks", "a", "#", "x" + other, "1", "to", "of", ".p.q", "\\"]
    parts = [rng.choice(gaps) if rng.random() < 0.4 else ""]
    for i in range(rng.randrange(1, 4)):
        if i:
            parts.append(rng.choice(gaps))
        parts.append(rng.choice(words))
    parts.append(rng.choice(gaps) if rng.random() < 0.4 else "")
    if rng.random() < 0.1:
        parts = [rng.choice(gaps)]            # nothing but white space
    return q + "".join(parts) + q


CONTEXTS = ["init", "put", "set", "inc", "do-with", "do-per", "do-cum", "goal", "tolerance", "bid", "timeout"]
HEAD = "house lit\ninit .lit.n with 10\nframer f be active first f0\nframe f0\n"
SCRIPTS = {
    "init": "house lit\ninit .lit.a with %s\n",
    "put": HEAD + "put %s into .lit.b\n",
    "set": HEAD + "set .lit.c with %s\n",
    "inc": HEAD + "inc .lit.n with %s\n",
    "do-with": HEAD + "do c17rec with v %s\n",
    "do-per": HEAD + "do c17rec per v %s\n",
    "do-cum": HEAD + "do c17rec cum v %s\n",
    "goal": HEAD + "go me if .lit.n == %s\n",
    "tolerance": HEAD + "go me if .lit.n == 10 +- %s\n",
    "bid": HEAD + "bid start me at %s\n",
    "timeout": HEAD + "frame f1\ntimeout %s\nframe f2\n",
}
_REC = []


def ensure_deed():
    core.import_ioflo()
    from ioflo.base import doing
    if "C17rec" not in doing.Doer.Registry:
        @doing.doify("C17rec", ioinits=None)
        def c17rec(self, **kw):
            _REC.append(kw)
    return doing


def run_context(ctx, lit):
    """what the literal became in this context: canonical value text, or ERR <class> / other <what>"""
    ensure_deed()
    res = fb.build(SCRIPTS[ctx] % lit, ticks=0, name="c17.flo")
    if res.status != "ok":
        return res.status if res.status.startswith("ERR") else "build-failed"
    house = res.houses[0]
    store = house.store

    def acts(name):
        fr = house.framers[0].frameNames["f0"]
        return list(getattr(fr, name))
    if ctx == "init":
        return canon_value(store.fetchShare("lit.a").value)
    if ctx in ("put", "set", "inc"):
        a = acts("enacts")[0]
        before = canon_value(a.parms["sourceData"]["value"])
        trace = fb.run_ticks(res.houses, 2)
        if any(t.startswith("RUN") or "abort" in t for t in trace):
            return "run-failed"
        share = {"put": "lit.b", "set": "lit.c", "inc": "lit.n"}[ctx]
        after = store.fetchShare(share).value
        if ctx == "inc":
            v = a.parms["sourceData"]["value"]
            if not isinstance(v, (int, float)) or isinstance(v, bool):
                return before
            ok = (after == 10 + v) if not (isinstance(v, float) and v != v) else (after != after)
            return before if ok else "inc-wrong %r" % (after,)
        return before if canon_value(after) == before else "stored %s parsed %s" % (canon_value(after), before)
    if ctx.startswith("do-"):
        a = acts("reacts")[0]
        d = {"do-with": a.parms, "do-per": a.ioinits, "do-cum": a.inits}[ctx]
        return canon_value(d["v"])
    if ctx in ("goal", "tolerance"):
        a = acts("preacts")[0]
        need = a.parms["needs"][0]
        if ctx == "goal":
            return canon_value(need.parms["goal"]) if "goalField" not in need.parms else "indirect"
        return canon_value(need.parms["tolerance"])
    if ctx == "bid":
        a = acts("enacts")[0]
        return canon_value(a.parms["period"]) if a.parms.get("source") is None else "indirect"
    if ctx == "timeout":
        fr = house.framers[0].frameNames["f1"]
        return canon_value(fr.preacts[0].parms["needs"][0].parms["goal"])
    return "?"


def expect_context(ctx, direct, goal, num, text=""):
    """what the context does with the converter's result (harness-side knowledge of the verbs, kept minimal):
    returns the expected text, or None when the context's own rules take over (not compared)"""
    def val(c):
        w = c.split(" ")
        if w[0] == "int":
            return int(w[1])
        if w[0] == "float":
            return float("nan") if w[1] == "nan" else struct.unpack(">d", bytes.fromhex(w[1]))[0]
        if w[0] == "complex":
            f = lambda h: float("nan") if h == "nan" else struct.unpack(">d", bytes.fromhex(h))[0]
            return complex(f(w[1]), f(w[2]))
        return None
    if ctx == "do-per":
        # ioinits must be share paths (acting.Actor._initio rejects other values, Act.resolvePath other texts)
        if direct.startswith("str ") and REF_PATH.match(unhx(direct[4:])) and not unhx(direct[4:]).endswith((".", "\n")):
            return direct
        return "ERR ValueError" if direct == "ERR" else None
    if ctx in ("init", "put", "set", "do-with", "do-cum"):
        return "ERR ValueError" if direct == "ERR" else direct
    if ctx == "inc":
        if direct == "ERR":
            return "ERR ValueError"
        if direct.startswith("str "):
            return "ERR ParseError"
        if direct.split(" ")[0] in ("int", "float"):
            return direct
        return None            # None/bool/point/complex increments: the action's arithmetic decides
    if ctx == "goal":
        return None if goal == "ERR" else goal          # not a literal: parsed as an indirect goal instead
    if ctx == "tolerance":
        return "ERR ValueError" if num == "ERR" else num
    if ctx == "bid":
        if num == "ERR":
            return None                                   # parsed as an indirect period
        v = val(num)
        if isinstance(v, complex):
            # not a real number (Convert2RealNum, fix D08): read as an indirect period if it is a path (`j`, `infj`)
            return "indirect" if text.strip().isalpha() and text.isascii() else "ERR ParseError"
        if isinstance(v, int):
            try:
                float(v)
            except OverflowError:
                return "ERR ParseError"                   # too large for a float (Convert2FloatNum, fix D65b), and not a path
        return canon_value(max(0.0, v))
    if ctx == "timeout":
        if num == "ERR":
            return "ERR ValueError"
        try:
            return canon_value(float(abs(val(num))))
        except OverflowError:
            return "ERR ValueError"                       # too large for a float (Convert2FloatNum, fix D65b)
    return None


class CHECK(core.Check):
    PROPERTY = "C17"
    LEAN_MODULES = ["IofloModel.Props.C17"]
    ENGINE = "literal"
    N_QUICK = 2500
    N_THOROUGH = 60000
    N_SEARCH = 3000
    RULE = ("literal texts from a grammar of shapes (decimal ints with signs/underscores/leading zeros, 0x and bare hex, "
            "floats with dot/exponent/underscore forms, inf/nan spellings, complex forms with parentheses and j, "
            "none/true/yes/false/no in mixed case and near misses, double/single quoted strings and broken quotes, "
            "dotted paths and near-paths, lat/lon forms, the six point forms with signs, decimals, commas, missing "
            "parts, white-space padded numbers, single-character mutants of all of these, random garbage), each given "
            "to all ten Convert2* functions and StripQuotes; values written in literal form (repr of ints, finite floats, "
            "complex, True/False/None, quote-free strings in quotes, points) for the round trip; a sample of literals "
            "inside scripts for eleven literal contexts through the real Builder and a 2-tick run. Exhaustive: all "
            "strings of length <= 3 (quick) / <= 4 (thorough) over the alphabet 0 1 a e x j . - _ \" (all ten functions); every "
            "literal form at the values Python treats as false (0, -0, 0x0, 0.0, -0.0, 0j, empty quoted strings, false/no/none, "
            "points of zeros, lat/lon of zero degrees and minutes in the four hemispheres, both letter cases and the comma "
            "form: about 140 texts) through all ten functions and all eleven script contexts, plus padded and one-character "
            "variants of them; quoted literals with runs of blanks / tabs / other in-line white space in the script contexts. "
            "Non-trivial = at least one function returns a value (not ValueError); distinct by text.")
    TRUSTED = ["correspondence: Convert2* of the working tree called in-process on the same text as the Lean model "
               "(engine 'literal'); script contexts through Builder.build",
               "CPython float(): correct rounding of a decimal numeral '<int>e<int>' to binary64 (the model keeps "
               "decimals exact; the harness rounds them with float()), and binary64 '+' and '/' for deg + min/60.0",
               "ASCII scope: \\d, \\w, str.lower, int() digits beyond ASCII are not modelled (such texts are skipped "
               "as 'unmodelled'); int() is modelled without the 4300 digit limit"]
    PARTIAL = ["binary floating point: repr(float) <-> float(text) is CPython's guarantee; exercised by the round-trip "
               "cases, no theorem",
               "non-ASCII digits/letters outside quotes are outside the model"]
    TECHNIQUE = ("Lean 4 theorems (case analysis on the nested converters; induction on digit strings for the integer "
                 "round trip) + differential correspondence with the real converters and the real Builder")
    LEVEL_TEXT = ("Proved on the model: each of the ten nested Convert2* functions equals 'the first recogniser of the "
                  "documented flat order that accepts decides' (C17_order_*, all ten), so the context dependence is explicit "
                  "(C17_dead_is_path_or_hex, C17_exponent_shadowed_by_hex, C17_dec_before_hex, C17_hex_after_dec); round trips: "
                  "every integer in all ten converters (C17_roundtrip_int), True/False/None, every quote-free string written "
                  "in double or single quotes, every path text, points with integer coordinates of all six kinds "
                  "(C17_roundtrip_*), every finite decimal numeral [-]digits.digits in all ten converters as the exact decimal "
                  "(C17_roundtrip_decimal), every such numeral with an exponent e+k / e-k in all ten converters (C17_roundtrip_exponent), "
                  "and the dot-less form `1e+16` (C17_roundtrip_exponent_nodot), points of all six kinds with decimal coordinates "
                  "(C17_roundtrip_point_*_decimal). Not proved: binary rounding (CPython's float), digit-group underscores, "
                  "exponents written without a sign. The model is tied to building.py/globaling.py by running all converters on the same "
                  "texts and by building scripts for each literal context.")
    LEVEL_NOTE = ("Trusted: Lean kernel; propext, Classical.choice, Quot.sound; the hand transcription of the converters, "
                  "regexes and CPython number grammars, validated only by the correspondence runs; CPython's float() "
                  "rounding and binary64 arithmetic (outside the model); ASCII scope.")

    def case(self, text, origin, expect=None, ctx=False):
        c = {"text": text, "origin": origin}
        if expect:
            c["expect"] = expect
        if ctx:
            c["ctx"] = True
        return c

    def generate(self, rng, n, tier):
        n_rt = n // 5
        n_ctx = 150 if tier == "quick" else 2500
        falsy = falsy_literals()
        for i in range(40 if tier == "quick" else 600):          # the falsy values again, padded / mutated by one character
            t = rng.choice(falsy)
            k = rng.random()
            if k < 0.4:
                t = rng.choice(["", " ", "\t", "\xa0"]) + t + rng.choice(["", " ", "\n", "\x0c"])
            elif k < 0.8 and t:
                i2 = rng.randrange(len(t) + 1)
                c = rng.choice("0.-+jJeExyznesw,_")
                t = rng.choice([t[:i2] + c + t[i2:], t[:i2] + t[i2 + 1:]])
            yield self.case(t, "falsy-variant", ctx=token_ok(t))
        n_qws = 60 if tier == "quick" else 900
        for i in range(n_qws):
            t = gen_quoted_ws(rng)
            if token_ok(t):
                yield self.case(t, "context-quoted-white-space", ctx=True)
        for i in range(n_rt):
            kind = rng.choice(["int", "float", "float", "complex", "bool", "none", "str", "point", "point"])
            text, val, ks = write_value(rng, kind)
            yield self.case(text, "roundtrip:" + kind, expect=[val, list(ks)])
        for i in range(n_ctx):
            t = gen_literal(rng, rng.choice(["int", "hex", "barehex", "float", "special", "complex", "bool", "quoted", "path",
                                             "latlon", "point", "point3", "mutant"]))
            if token_ok(t):
                yield self.case(t, "context", ctx=True)
        for i in range(n - n_rt - n_ctx):
            yield self.case(gen_literal(rng), "grammar")

    def exhaustive(self, tier):
        for t in falsy_literals():
            yield self.case(t, "falsy", ctx=token_ok(t))
        L = 4 if tier == "thorough" else 3
        for n in range(L + 1):
            for t in itertools.product("01aexj.-_\"", repeat=n):
                yield self.case("".join(t), "exhaustive")

    def requests(self, case):
        h = hx(case["text"])
        return ["conv %d %s" % (k, h) for k in range(10)] + ["strip " + h]

    def model_post(self, case, replies):
        out = ["%s %s" % (FUNCS[k], model_value(replies[k])) for k in range(10)]
        out.append("StripQuotes " + replies[10])
        if case.get("ctx"):
            d, g, nm = (model_value(replies[9]), model_value(replies[3]), model_value(replies[0]))
            for ctx in CONTEXTS:
                e = expect_context(ctx, d, g, nm, case["text"])
                out.append("ctx %s %s" % (ctx, "-" if e is None else e))
        return out

    def impl(self, case):
        core.import_ioflo()
        from ioflo.base import building
        t = case["text"]
        out = []
        ok_model = modelled(t)
        for k, name in enumerate(FUNCS):
            if not ok_model:
                out.append("%s unmodelled" % name)
                continue
            try:
                out.append("%s %s" % (name, canon_value(getattr(building, name)(t))))
            except ValueError:
                out.append("%s ERR" % name)
        out.append("StripQuotes str " + hx(building.StripQuotes(t)))
        if case.get("ctx"):
            d, g, nm = out[9].split(" ", 1)[1], out[3].split(" ", 1)[1], out[0].split(" ", 1)[1]
            for ctx in CONTEXTS:
                e = expect_context(ctx, d, g, nm, case["text"])
                out.append("ctx %s %s" % (ctx, "-" if e is None else run_context(ctx, t)))
        return out

    def oracle(self, case, out):
        t = case["text"]
        if modelled(t):
            for k, name in enumerate(FUNCS):
                want = ref_convert(k, t)
                got = out[k].split(" ", 1)[1]
                if got != want:
                    return "%s(%r) = %s; the documented order gives %s" % (name, t, got, want)
        if "expect" in case:
            val, ks = case["expect"]
            for k in ks:
                got = out[k].split(" ", 1)[1]
                if got != val:
                    return "round trip: %r written for %s reads back as %s in %s" % (t, val, got, FUNCS[k])
        if case.get("ctx"):
            d, g, nm = (ref_convert(9, t), ref_convert(3, t), ref_convert(0, t))
            for line in out[11:]:
                _, ctx, got = line.split(" ", 2)
                e = expect_context(ctx, d, g, nm, case["text"])
                if e is not None and got != e:
                    return "context %s: literal %r arrives as %s; the documented conversion gives %s" % (ctx, t, got, e)
        return None

    def nontrivial(self, case, out):
        return any(not l.endswith(" ERR") and not l.endswith("unmodelled") for l in out[:10])

    def bucket(self, case, out):
        kinds = sorted(set(l.split(" ")[1] for l in out[:10]))
        return case.get("origin", "?").split(":")[0] + ":" + "+".join(kinds)

    def shrink_candidates(self, case):
        t = case["text"]
        for i in range(len(t)):
            c = dict(case, text=t[:i] + t[i + 1:])
            c.pop("expect", None)
            if c.get("ctx") and not token_ok(c["text"]):
                continue
            yield c
