"""C18 — the data store tree stays well formed under any operation sequence.

Model:    lean/IofloModel/Model/Store.lean  (Store.fetch*/add/addNode/change/create/createNode)
Theorems: lean/IofloModel/Props/C18.lean
Tie:      the same operation history is run on a real `storing.Store` and on the Lean model
          (driver engine `store`); after EVERY operation the returned object (kind, name,
          identity) and the complete tree (every entry: kind, path, recorded name, identity)
          are compared.
Oracle:   (independent of the Lean model) a flat reference map  path -> (kind, identity)
          maintained in Python from the operations and the accept/reject decisions the
          implementation took: lookups must return exactly the entry last placed at the
          normalised path or None; every entry's name must be its path; a rejected
          operation must leave the dump unchanged; an accepted one must change exactly the
          placed entry plus the new ancestor nodes; structural conflicts must be rejected.

A case is {"ops": [[kind, ...], ...]}:
  ["fetch"|"fetchShare"|"fetchNode", name]
  ["add", name, tag]        store.add(Share(name=name))         new share labelled (tag,0)
  ["addobj", ref, tag]      store.add(<the Share constructed by add/change number ref, or ctor share 2..4>)
  ["change", name, tag]     store.change(Share(name=name))
  ["changeobj", ref]        store.change(<that Share>)      (both dropped when `ref` names no such op before them)
  ["addbad"] ["changebad"]  a non-Share argument
  ["addNode", name, tag]  ["create", name, tag]  ["createNode", name, tag]
Objects made by the store in the operation with number `tag` are labelled (tag,0) (share) and
(tag,depth) (node).  Store() itself performs operations 1..4 (createNode .meta, create .time,
.realtime, .datetime).
"""
import itertools
import core

CTOR = [["createNode", ".meta", 1], ["create", ".time", 2], ["create", ".realtime", 3], ["create", ".datetime", 4]]
LOOKUPS = ("fetch", "fetchShare", "fetchNode")


def hx(s):
    b = s.encode("utf-8")
    return b.hex() if b else "-"


def unhx(h):
    return "" if h == "-" else bytes.fromhex(h).decode("utf-8")


def norm(name):
    return tuple(name.strip(".").split("."))


# --------------------------------------------------------------------------- implementation side

class Impl:
    def __init__(self):
        core.import_ioflo()
        from ioflo.base import storing
        self.storing = storing
        storing.Store.Clear()
        self.labels = {}      # id(obj) -> (tag, sub)
        self.keep = []        # keep every labelled object alive (ids must stay unique)
        self.pool = {}        # tag -> share object constructed by the harness for add/change number tag
        self.store = storing.Store(stamp=0.0)
        top = self.store.shares      # label what the constructor made: operations 1..4
        for key, lab in (("meta", (1, 1)), ("time", (2, 0)), ("realtime", (3, 0)), ("datetime", (4, 0))):
            self.label(top[key], lab)
            if lab[1] == 0:
                self.pool[lab[0]] = top[key]

    def label(self, obj, lab):
        if id(obj) not in self.labels:
            self.labels[id(obj)] = lab
            self.keep.append(obj)

    def relabel(self, tag):
        """label every not yet labelled object in the tree: shares (tag,0), nodes (tag,depth)"""
        S, N = self.storing.Share, self.storing.Node

        def walk(node, depth):
            for k, v in list(dict.items(node)):
                if isinstance(v, S):
                    self.label(v, (tag, 0))
                elif isinstance(v, N):
                    self.label(v, (tag, depth))
                    walk(v, depth + 1)
        walk(self.store.shares, 1)

    def show(self, obj):
        S, N = self.storing.Share, self.storing.Node
        if obj is None:
            return "NONE"
        if isinstance(obj, (S, N)):
            lab = self.labels.get(id(obj))
            nm = obj.name
            return "%s %s %s" % ("S" if isinstance(obj, S) else "N",
                                 hx(nm) if isinstance(nm, str) else "?" + type(nm).__name__,
                                 "%d:%d" % lab if lab else "?:?")
        return "VAL " + type(obj).__name__

    def dump(self):
        S, N = self.storing.Share, self.storing.Node
        out = []

        def walk(node, pre):
            for k, v in list(dict.items(node)):
                p = pre + [hx(k) if isinstance(k, str) else "?"]
                lab = self.labels.get(id(v))
                labs = "%d:%d" % lab if lab else "?:?"
                if isinstance(v, S):
                    out.append("S,%s,%s,%s" % ("/".join(p), hx(v.name) if isinstance(v.name, str) else "?", labs))
                elif isinstance(v, N):
                    out.append("N,%s,%s,%s" % ("/".join(p), hx(v.name) if isinstance(v.name, str) else "?", labs))
                    walk(v, p)
                else:
                    out.append("?,%s,%s,?:?" % ("/".join(p), type(v).__name__))
        walk(self.store.shares, [])
        return ";".join(sorted(out))

    def do(self, op):
        st, S = self.store, self.storing.Share
        kind = op[0]
        tag = None
        try:
            if kind in LOOKUPS:
                res = getattr(st, kind)(op[1])
            elif kind == "add":
                tag = op[2]
                sh = S(name=op[1], value=tag)       # shares carry data, as in real use
                self.label(sh, (tag, 0))
                self.pool.setdefault(tag, sh)
                res = st.add(sh)
            elif kind == "addobj":
                tag = op[2]
                res = st.add(self.pool[op[1]])
            elif kind == "change":
                tag = op[2]
                sh = S(name=op[1], value=tag)
                self.label(sh, (tag, 0))
                self.pool.setdefault(tag, sh)
                res = st.change(sh)
            elif kind == "changeobj":
                res = st.change(self.pool[op[1]])
            elif kind == "addbad":
                res = st.add(5)
            elif kind == "changebad":
                res = st.change("x")
            elif kind == "addNode":
                tag = op[2]
                res = st.addNode(op[1])
            elif kind == "create":
                tag = op[2]
                res = st.create(op[1])
                if isinstance(res, S) and "value" not in res:
                    res.update(value=tag)
            elif kind == "createNode":
                tag = op[2]
                res = st.createNode(op[1])
            else:
                return "HARNESS bad op"
            if tag is not None:
                if isinstance(res, S):
                    self.label(res, (tag, 0))
                self.relabel(tag)
            out = self.show(res)
        except ValueError:
            if tag is not None:
                self.relabel(tag)
            out = "ERR ValueError"
        except Exception as ex:
            if tag is not None:
                self.relabel(tag)
            out = "ERR " + type(ex).__name__
        return out + " | " + self.dump()


def live_ops(ops):
    """drop addobj/changeobj whose `ref` is not the number of an earlier add/change (or 2..4):
    decided from the history alone, so implementation, model and oracle see the same operations"""
    made = {2, 3, 4}
    out = []
    for op in ops:
        if op[0] in ("addobj", "changeobj"):
            if op[1] not in made:
                continue
        elif op[0] in ("add", "change"):
            made.add(op[2])
        out.append(op)
    return out


# --------------------------------------------------------------------------- the check

class CHECK(core.Check):
    PROPERTY = "C18"
    LEAN_MODULES = ["IofloModel.Props.C18"]
    ENGINE = "store"
    N_QUICK = 500
    N_THOROUGH = 12000
    N_SEARCH = 1500
    RULE = ("operation histories (after Store()'s own four creations) of 1..40 operations over a small pool of "
            "paths with shared prefixes, dotted variants (leading/trailing dots), empty interior segments, '' and "
            "'.', share/node kind conflicts, re-use of existing Share objects, non-Share arguments; plus all "
            "histories of length <=2 (quick) / <=3 (thorough) over 4 names x 5 modifying operations, each "
            "followed by lookups. non-trivial = at least one accepted modification, one rejected operation and "
            "one lookup that returned an object; distinct by content")
    TRUSTED = ["correspondence: storing.Store run in-process; after every operation the returned object and the "
               "complete tree (kind, path, recorded name, identity of every entry) are compared with the Lean model "
               "(driver engine 'store')",
               "identity labels are assigned by the harness (tag of the operation that first exposed the object)",
               "odict / str.strip / str.split of CPython and ioflo.aid.odicting",
               "the model describes storing.py WITH fixes/D10-validate-levels-first.patch and "
               "fixes/D10b-fetch-through-share.patch applied"]
    PARTIAL = []
    TECHNIQUE = ("Lean 4 theorems (refinement of the dict tree to a flat path map, induction over the path; "
                 "invariant over histories) + differential correspondence after every step")
    LEVEL_TEXT = ("Full proof on the model for every history: the tree of dicts refines a flat map path->object "
                  "(C18_step_refines: every operation is a point-wise overlay of writes), lookups are pure and read "
                  "that map at the normalised path for every dotted variant (C18_lookup_*, C18_dotted_variants), "
                  "rejected operations return the identical tree (C18_rejected_unchanged, and exactly when the "
                  "stated conflicts hold: C18_*_rejects_iff), every reachable entry is named by its path "
                  "(C18_names_are_paths), last placed wins over histories (C18_last_placed_wins), every dict of the tree has distinct keys (C18_dicts_have_unique_keys), an empty path segment is refused on every tree (C18_empty_segment_rejected). The unpatched "
                  "ordering of add/addNode is kept as `lg = true` with a decide-checked counterexample (D10).")
    LEVEL_NOTE = ("Trusted: Lean kernel; axioms propext, Classical.choice, Quot.sound; the hand transcription of "
                  "Store's eight methods (validated by comparing the whole tree after every step); CPython dict/str. "
                  "Not modelled: Share contents (C19), Store stamps, mutation of share.name after adding, "
                  "non-string names, direct manipulation of store.shares.")

    # ---- generation
    SEGS = ["a", "b", "c", "meta", "time", "x1", "Zed", "value"]
    BELOW = ["time.value", "realtime.value", "datetime.iso", "time._sift", "time.__class__", "time.value.x",
             "datetime.dt.year", "meta.value"]

    def _pool(self, rng):
        paths = []
        for _ in range(rng.randrange(2, 6)):
            if paths and rng.random() < 0.6:
                base = list(rng.choice(paths))
                if rng.random() < 0.5 and len(base) > 1:
                    base = base[:rng.randrange(1, len(base))]
                else:
                    base = base + [rng.choice(self.SEGS)]
            else:
                base = [rng.choice(self.SEGS) for _ in range(rng.randrange(1, 4))]
            paths.append(tuple(base[:5]))
        return paths

    def _name(self, rng, pool, weird):
        r = rng.random()
        if r < 0.04:
            return rng.choice(["", ".", "..", "..."])
        if r < 0.09:                                   # below a share: its data fields are not store entries
            return rng.choice(self.BELOW)
        p = list(rng.choice(pool))
        if rng.random() < 0.25:
            p = p + [rng.choice(self.SEGS)]
        if rng.random() < 0.12 and len(p) >= 1:      # empty interior segment
            p.insert(rng.randrange(1, len(p) + 1) if len(p) > 0 else 0, "")
            if p[-1] == "":
                p.append(rng.choice(self.SEGS))
        s = ".".join(p)
        if weird and rng.random() < 0.3:
            s = rng.choice([" a", "a b", "é.ü", "a.\t", "A.a", "0", "-.-", "a,b"]) + rng.choice(["", ".", "." + s])
        if rng.random() < 0.3:
            s = "." * rng.randrange(1, 3) + s
        if rng.random() < 0.2:
            s = s + "." * rng.randrange(1, 3)
        return s

    def generate(self, rng, n, tier):
        for i in range(n):
            weird = rng.random() < 0.15
            pool = self._pool(rng)
            L = rng.choice([1, 3, 8, 15, 25, 40])
            ops = []
            tag = 5
            tags = [2, 3, 4]
            for _ in range(L):
                r = rng.random()
                nm = self._name(rng, pool, weird)
                if r < 0.22:
                    ops.append([rng.choice(LOOKUPS), nm])
                elif r < 0.40:
                    ops.append(["create", nm, tag])
                elif r < 0.54:
                    ops.append(["createNode", nm, tag])
                elif r < 0.68:
                    ops.append(["add", nm, tag]); tags.append(tag)
                elif r < 0.78:
                    ops.append(["addNode", nm, tag])
                elif r < 0.88:
                    ops.append(["change", nm, tag]); tags.append(tag)
                elif r < 0.92:
                    ops.append(["addobj", rng.choice(tags), tag])
                elif r < 0.96:
                    ops.append(["changeobj", rng.choice(tags)])
                elif r < 0.98:
                    ops.append(["addbad"])
                else:
                    ops.append(["changebad"])
                tag += 1
            # finish with lookups of every pool path in a dotted variant
            for p in pool:
                ops.append([rng.choice(LOOKUPS), rng.choice(["", ".", ".."]) + ".".join(p) + rng.choice(["", "."])])
            yield {"ops": ops}

    def exhaustive(self, tier):
        names = ["a", "a.b", "a..b", ".a."]
        kinds = ["add", "addNode", "change", "create", "createNode"]
        alphabet = [(k, n) for k in kinds for n in names]
        L = 3 if tier == "thorough" else 2
        tail = [["fetch", "a"], ["fetchShare", ".a"], ["fetchNode", "a."], ["fetch", "a.b"], ["fetch", "a..b"]]
        for n in range(1, L + 1):
            for seq in itertools.product(alphabet, repeat=n):
                ops = [[k, nm, 5 + i] for i, (k, nm) in enumerate(seq)]
                yield {"ops": ops + tail}

    def search(self, rng, n, tier):
        return self.generate(rng, n, tier)

    # ---- both sides
    def _ops(self, case):
        return live_ops([list(o) for o in case["ops"]])

    def impl(self, case):
        im = Impl()
        out = []
        for op in self._ops(case):
            out.append(im.do(op))
        return out

    def requests(self, case):
        reqs = ["reset"]
        for op in CTOR:
            reqs.append("%s %s %d" % (op[0], hx(op[1]), op[2]))
        names = {2: "time", 3: "realtime", 4: "datetime"}     # ref -> share.name
        for op in self._ops(case):
            k = op[0]
            if k in LOOKUPS:
                reqs.append("%s %s" % (k, hx(op[1])))
            elif k == "add":
                names.setdefault(op[2], op[1])
                reqs.append("add %s %d 0 %d" % (hx(op[1]), op[2], op[2]))
            elif k == "change":
                names.setdefault(op[2], op[1])
                reqs.append("change %s %d 0" % (hx(op[1]), op[2]))
            elif k == "addobj":
                reqs.append("add %s %d 0 %d" % (hx(names[op[1]]), op[1], op[2]))
            elif k == "changeobj":
                reqs.append("change %s %d 0" % (hx(names[op[1]]), op[1]))
            elif k in ("addbad", "changebad"):
                reqs.append(k)
            elif k in ("addNode", "createNode", "create"):
                reqs.append("%s %s %d" % (k, hx(op[1]), op[2]))
            else:
                reqs.append("skip")
        return reqs

    def model_post(self, case, replies):
        out = []
        for r in replies[1 + len(CTOR):]:
            if r == "bad-op":
                out.append("SKIP")
                continue
            head, _, d = r.partition(" | ")
            out.append(head + " | " + ";".join(sorted(x for x in d.split(";") if x)))
        return out

    # ---- property oracle on the implementation's output
    @staticmethod
    def _parse(line):
        head, _, d = line.partition(" | ")
        ents = {}
        for e in d.split(";"):
            if not e:
                continue
            kind, path, name, lab = e.split(",")
            p = tuple(unhx(x) for x in path.split("/"))
            if p in ents:
                return head, None
            ents[p] = (kind, name, lab)
        return head, ents

    def oracle(self, case, impl_out):
        M = {("meta",): ("N", "1:1"), ("time",): ("S", "2:0"), ("realtime",): ("S", "3:0"), ("datetime",): ("S", "4:0")}
        names = {2: "time", 3: "realtime", 4: "datetime"}
        ops = self._ops(case)
        if len(impl_out) != len(ops):
            return "harness: %d ops, %d outputs: %s" % (len(ops), len(impl_out), impl_out[:1])
        for i, (op, line) in enumerate(zip(ops, impl_out)):
            if line == "SKIP":
                continue
            if line.startswith("HARNESS"):
                return "op %d %s: %s" % (i, op, line)
            head, D = self._parse(line)
            where = "op %d %s -> %s: " % (i, op, head)
            if D is None:
                return where + "two entries at one path"
            if head.startswith("ERR ") and head != "ERR ValueError":
                return where + "unexpected exception"
            if head.startswith("VAL "):
                return where + "returned something that is neither a node, a share nor None"
            # every entry records its own path as its name
            for p, (kind, name, lab) in D.items():
                if kind == "?":
                    return where + "entry %s is neither node nor share" % (p,)
                nm = unhx(name) if name != "?" else None
                if nm is None or (nm != ".".join(p) if kind == "N" else nm.strip(".") != ".".join(p)):
                    return where + "entry at %s records name %r" % (".".join(p), nm)
            flat = {p: (k, lab) for p, (k, nm, lab) in D.items()}
            k = op[0]
            rejected = head == "ERR ValueError"
            E = dict(M)            # expected map after the operation
            want = None            # expected result when accepted ("S"/"N", label)
            must_reject = None
            if k in LOOKUPS:
                p = norm(op[1])
                got = M.get(p)
                if got is not None and ((k == "fetchShare" and got[0] != "S") or (k == "fetchNode" and got[0] != "N")):
                    got = None
                if rejected:
                    return where + "lookup raised"
                exp = "NONE" if got is None else None
                if got is None:
                    if head != "NONE":
                        return where + "no entry of the requested kind was placed at %s but the lookup returned an object" % (".".join(p),)
                else:
                    h = head.split(" ")
                    if head == "NONE" or h[0] != got[0] or h[2] != got[1]:
                        return where + "lookup did not return the %s %s last placed at %s" % (got[0], got[1], ".".join(p))
            elif k in ("addbad", "changebad"):
                if not rejected:
                    return where + "non-Share argument accepted"
            else:
                if k in ("add", "change", "create", "addNode", "createNode"):
                    name, tag = op[1], op[2]
                    if k in ("add", "change"):
                        names.setdefault(tag, name)
                        lab = "%d:0" % tag
                else:   # addobj / changeobj
                    name, tag = names[op[1]], (op[2] if k == "addobj" else 0)
                    lab = "%d:0" % op[1]
                    k = "add" if k == "addobj" else "change"
                p = norm(name)
                prefixes = [p[:j] for j in range(1, len(p))]
                if k == "create":
                    cur = M.get(p)
                    if cur is not None and cur[0] == "S":
                        want = cur
                    else:
                        k = "add"
                        lab = "%d:0" % tag
                        name = name.strip(".")
                if k == "createNode":
                    cur = M.get(p)
                    if cur is not None and cur[0] == "N":
                        want = cur
                    else:
                        k = "addNode"
                if k == "add":
                    if any(M.get(q, ("N",))[0] == "S" for q in prefixes):
                        must_reject = "a share on the way would become a node"
                    elif p in M:
                        must_reject = "it adds over an existing entry"
                    elif name == "" or any(s == "" for s in p[:-1]):
                        must_reject = "empty path segment"
                    else:
                        for q in prefixes:
                            E.setdefault(q, ("N", "%d:%d" % (tag, len(q))))
                        E[p] = ("S", lab)
                        want = ("S", lab)
                elif k == "addNode":
                    if any(M.get(q, ("N",))[0] == "S" for q in prefixes + [p]):
                        must_reject = "a share would become a node"
                    elif any(s == "" for s in p):
                        must_reject = "empty path segment"
                    else:
                        for q in prefixes + [p]:
                            E.setdefault(q, ("N", "%d:%d" % (tag, len(q))))
                        want = E[p]
                elif k == "change":
                    if M.get(p, ("N",))[0] != "S" or p not in M:
                        must_reject = "there is no share to replace at that path"
                    else:
                        E[p] = ("S", lab)
                        want = ("S", lab)
                if rejected:
                    E = M
                elif must_reject is not None:
                    return where + "accepted although " + must_reject
                else:
                    h = head.split(" ")
                    if head == "NONE" or len(h) < 3 or (h[0], h[2]) != want:
                        return where + "returned %s, expected the %s %s" % (head, want[0], want[1])
            if flat != E:
                diff = sorted(set(flat.items()) ^ set(E.items()))[:4]
                return where + ("rejected but the store changed: " if rejected else "store is not the last-placed map: ") + \
                    "; ".join("%s=%s%s" % (".".join(q), v[0], v[1]) for q, v in diff)
            M = E
        return None

    # ---- statistics
    def _stats(self, case, out):
        acc = rej = hit = 0
        for op, line in zip(self._ops(case), out):
            head = line.split(" | ")[0]
            if op[0] in LOOKUPS:
                hit += head not in ("NONE",) and not head.startswith("ERR")
            elif head.startswith("ERR"):
                rej += 1
            elif head != "SKIP":
                acc += 1
        return acc, rej, hit

    def nontrivial(self, case, out):
        acc, rej, hit = self._stats(case, out)
        return acc > 0 and rej > 0 and hit > 0

    def bucket(self, case, out):
        ops = self._ops(case)
        acc, rej, hit = self._stats(case, out)
        names = [o[1] for o in ops if len(o) > 1 and isinstance(o[1], str)]
        dotted = any(n.startswith(".") or n.endswith(".") for n in names)
        empty = any(".." in n.strip(".") or n.strip(".") == "" for n in names)
        n = len(ops)
        return "ops%s rej%s %s%s" % ("1-5" if n <= 5 else "6-20" if n <= 20 else "21+",
                                     "0" if rej == 0 else "1-3" if rej <= 3 else "4+",
                                     "dotted " if dotted else "", "emptyseg" if empty else "")

    def shrink_candidates(self, case):
        ops = case["ops"]
        for i in range(len(ops)):
            yield {"ops": ops[:i] + ops[i + 1:]}
        for i, op in enumerate(ops):
            if len(op) > 1 and isinstance(op[1], str):
                for s in (op[1].strip("."), op[1].replace("..", "."), ".".join(op[1].split(".")[1:])):
                    if s != op[1]:
                        yield {"ops": ops[:i] + [[op[0], s] + op[2:]] + ops[i + 1:]}
