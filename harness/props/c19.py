"""C19 — share stamps, fields and decks follow their documented rules.

Model:    lean/IofloModel/Model/Share.lean (Share value/update/change/create/stampNow, mapping interface,
          Data.__setattr__/getattr/delattr, Deck)
Theorems: lean/IofloModel/Props/C19.lean
Tie:      the same operation history on a real `storing.Share` (two real `Store`s to attach to) and on
          the Lean model (driver engine `share`); after EVERY operation the result and the public
          observations stamp, keys(), items(), list(deck), len() are compared.
Oracle:   (independent of the Lean model) a reference written directly from the property: an
          OrderedDict of fields, a stamp, a deque; public-identifier test by `str.isidentifier`.

A case is {"ops": [[kind, ...], ...]}; values are JSON null / int / str / {"f": float} / {"t": [ints]} (a tuple) /
{"r": id} (the caller's mutable object number id: 0,1 are lists, 2,3 are dicts; ["mutate", id, n] appends to it):
  ["setValue", v] ["getValue"] ["update", pairs, form] ["change", pairs, form] ["create", pairs, form]
  ["stampNow"] ["setItem", k, v] ["getItem", k] ["delItem", k] ["contains", k] ["get", k]
  ["keys"] ["items"] ["values"] ["len"] ["pop", k] ["popitem"] ["setdefault", k, v] ["clear"]
  ["insert", index, k, v] ["sift", null | [k…]] ["copy", "copy"|"copyDataDict"] ["reorder", pairs] ["setData", pairs]
  ["setTruth", v] ["getTruth"] ["changeUnit", pairs, form] ["createUnit", pairs, form] ["fetchUnit", k]
  ["ctorUnit", pairs]  (Share(unit=dict(pairs)))   ["mutate", id, n]
  ["hold", "deck"|"data"|"unit"]     the caller takes (again) a reference to that sub-object of the share
A deck operation may carry a last element "held": it is then done through the reference to share.deck the caller
holds (one is taken before the first operation, while the deck is empty) instead of through the share; likewise
["setattr", k, v, "held"] assigns a field through the held share.data record (= change of one field) and
["setunit", k, v, "held"] through the held unit record.  After every operation the identity of share.data,
share.deck and the unit record is reported (a label per distinct object, in order of first appearance).
  ["push", v] ["pull"] ["gulp", v] ["spew"] ["setClock", i, t|null] ["attach", i|null]
`form` says how the pairs are handed to the call; one kind, or several joined by "+" (the pairs are split evenly
into that many positional / keyword arguments, in that order):
  sequences  "list" "tuple" "gen" (a generator)                  -- iterated as (k, v) duples
  mappings   "dict" "odict" "share" (another Share holding them) "proxy" (types.MappingProxyType)
             "userdict" (collections.UserDict) "duck" (an object with only get/items/keys)  -- .items()
  "kw"       keyword arguments (only as the last part)
A mapping collapses duplicate keys (last value, first position).  Stamps are in units of 1/8 s.
"""
import collections, struct
import core

CLASS_ATTRS = ["__class__", "__delattr__", "__dir__", "__doc__", "__eq__", "__format__", "__ge__",
               "__getattribute__", "__getstate__", "__gt__", "__hash__", "__init__", "__init_subclass__",
               "__le__", "__lt__", "__module__", "__ne__", "__new__", "__reduce__", "__reduce_ex__",
               "__repr__", "__setattr__", "__sizeof__", "__str__", "__subclasshook__", "__weakref__",
               "_change", "_show", "_sift"]        # dir(Data()) without __dict__ (outside the model)


def ints_str(l):
    l = list(l)
    return "_".join("%d" % x for x in l) if l else "."


def pool_contents(o):
    return list(o.values()) if isinstance(o, dict) else list(o)


def hx(s):
    b = s.encode("utf-8")
    return b.hex() if b else "-"


def is_public(k):
    return isinstance(k, str) and k.isidentifier() and not k.startswith("_") and k.isascii()


SEQ_FORMS = ("list", "tuple", "gen")
MAP_FORMS = ("dict", "odict", "share", "proxy", "userdict", "duck")


def split_forms(op):
    """[(kind, pairs)] : the arguments of the call, in order"""
    ps = [tuple(p) for p in op[1]]
    kinds = op[2].split("+")
    n = len(kinds)
    out = []
    for i, kind in enumerate(kinds):
        seg = ps[i * len(ps) // n:(i + 1) * len(ps) // n]
        if kind == "share" and not all(is_public(k) for k, _ in seg):
            kind = "userdict"          # another Share can only hold public field names
        if kind not in SEQ_FORMS:
            d = {}
            for k, v in seg:
                d[k] = v
            seg = list(d.items())
        out.append((kind, seg))
    return out


def eff_pairs(op):
    """the (key, value) sequence the call really iterates"""
    return [p for _, seg in split_forms(op) for p in seg]


class Duck:
    """a mapping by duck typing only: get / items / keys"""
    def __init__(self, pairs):
        self._p = list(pairs)

    def get(self, k, default=None):
        for kk, v in self._p:
            if kk == k:
                return v
        return default

    def items(self):
        return list(self._p)

    def keys(self):
        return [k for k, _ in self._p]


def build_args(parts, storing):
    """(positional arguments, keyword arguments) for split_forms(op)"""
    import types, collections
    from ioflo.aid.odicting import odict
    pa, kwa = [], {}
    for kind, seg in parts:
        if kind == "list":
            pa.append(list(seg))
        elif kind == "tuple":
            pa.append(tuple(seg))
        elif kind == "gen":
            pa.append((p for p in list(seg)))
        elif kind == "dict":
            pa.append(dict(seg))
        elif kind == "odict":
            pa.append(odict(seg))
        elif kind == "share":
            src = storing.Share(name="src")
            src.change(list(seg))
            pa.append(src)
        elif kind == "proxy":
            pa.append(types.MappingProxyType(dict(seg)))
        elif kind == "userdict":
            pa.append(collections.UserDict(dict(seg)))
        elif kind == "duck":
            pa.append(Duck(seg))
        elif kind == "kw":
            kwa.update(dict(seg))
        else:
            raise ValueError("unknown form " + kind)
    return pa, kwa


class CHECK(core.Check):
    PROPERTY = "C19"
    LEAN_MODULES = ["IofloModel.Props.C19"]
    ENGINE = "share"
    N_QUICK = 600
    N_THOROUGH = 9000
    N_SEARCH = 800
    RULE = ("histories of 1..60 operations on one Share: value/update/change/create (fields handed over as every "
            "argument kind the code duck-types — list/tuple/generator of duples, dict, odict, another Share, "
            "MappingProxyType, UserDict, an object with only get/items/keys, keywords — alone or mixed as several "
            "positional plus keyword arguments, with duplicate and existing keys), item set/get/del/contains/get, keys/items/values/len, "
            "pop/popitem/setdefault/clear/insert (any index), sift/copy/copyDataDict/reorder, assignment of a whole data "
            "record, truth, the unit record (changeUnit/createUnit/fetchUnit/Share(unit=..)), values None/int/str/float/"
            "tuple and four mutable objects of the caller (2 lists, 2 dicts) that are stored in fields and on the deck "
            "and appended to afterwards (aliasing), deck push/pull/gulp/spew (with None) done through the share or "
            "through a reference to share.deck the caller took earlier (first one while the deck was empty), fields and "
            "unit fields also assigned through held references to share.data / the unit record, the identity of "
            "share.data, share.deck and the unit record reported after every operation, stamp changes of two stores "
            "(including None) and attach/detach; field names from a small pool of public names, plus (in ~25% of "
            "the cases) rejected names: leading underscore, digit first, '', spaces, punctuation, trailing newline, "
            "and (~10%) class attribute names of Data; non-trivial = a stamping operation with a store attached, "
            "a deletion of an existing field and a rejected name or a deck retrieval all occur; distinct by content")
    TRUSTED = ["correspondence: storing.Share/Data/Deck run in-process against the Lean model (driver engine "
               "'share'); compared after every operation: result, stamp, keys(), items(), list(deck), len()",
               "the model describes storing.py WITH fixes/D11b-data-delattr-keeps-odict-keys.patch, "
               "fixes/D11c-identpub-fullmatch.patch, fixes/D11d-share-setdefault-name-rule.patch, "
               "fixes/D11f-share-insert-name-rule.patch, fixes/D11-class-attribute-names-are-not-fields.patch, "
               "fixes/D11g-share-init-unit-typo.patch and fixes/D11h-share-reorder-works-on-fields.patch applied",
               "CPython attribute machinery (object.__getattribute__/__setattr__/__delattr__ on an instance "
               "whose __dict__ is an odict), the 30 names of dir(Data()) on CPython 3.12, re, deque",
               "stamps are multiples of 1/8 s (exact in binary64); field names are ASCII"]
    PARTIAL = ["C19_spew_none_iff_empty_partial: holds while no None was put on the deck with push (D11e)",
               "C19_fields_ordered_map_reorder_partial: the closed form of reorder is proved for a one-pair call; for "
               "several pairs only the invariant (sync_reorderFold) and the correspondence",
               "not modelled: non-ASCII field names (Python's \\w is Unicode), del share['__dict__'], reorder with a "
               "non-odict argument (ValueError), owner and marks (no interaction with stamp/fields), nested or "
               "self-containing mutable values (the caller's objects hold ints), floats other than as opaque atoms"]
    TECHNIQUE = ("Lean 4 theorems (invariants over histories, refinement of the two-layer Data to an "
                 "insertion-ordered map) + differential correspondence after every step")
    LEVEL_TEXT = ("Proof on the model, every history: stamping rules (C19_value_update_stamp, C19_change_keeps_stamp, "
                  "C19_create_stamps_iff_added, C19_create_never_overwrites, C19_only_stampers_stamp, "
                  "C19_data_assignment_stamps), sift/copy are reads of items() (C19_sift_copy_read), values are stored "
                  "by reference, never copied (C19_values_are_aliased), truth/unit/deck traffic never touch fields or "
                  "stamp and only deck operations touch the deck (C19_frames), the unit record obeys the name rule "
                  "(C19_unit_names_public), the deck and the unit record are never rebound and the data record only by "
                  "assigning a whole record (C19_subobjects_keep_identity), fields as an "
                  "insertion-ordered map (C19_fields_ordered_map_* incl. positional insert, invariant C19_sync_invariant: items() never "
                  "raises), every name the share holds or shows is a public identifier for EVERY history, class attribute "
                  "names of Data included (C19_field_names_public, C19_keys_public; C19_legacy_sift documents the "
                  "unrepaired D11 behaviour); deck FIFO (C19_deck_fifo), gulp ignores None (C19_gulp_ignores_none). "
                  "Partial: spew returns None only when empty only while no None was pushed (C19_spew_none_iff_empty_partial; "
                  "counterexample C19_counterexample_push_none = D11e).")
    LEVEL_NOTE = ("Trusted: Lean kernel; axioms propext, Classical.choice, Quot.sound; the hand transcription of "
                  "Share/Data/Deck validated by the correspondence runs; CPython's attribute lookup order and the "
                  "class-attribute table of Data on 3.12. Outside: non-ASCII names, del __dict__, Share.insert/"
                  "sift/reorder, truth/unit/owner.")

    GOOD = ["value", "a", "b", "x1", "north", "A_b", "z9"]
    BAD = ["_x", "9a", "", "a b", "a-b", "a.b", "ab\n", "\nab", "_", "__x__", "a\tb", "é", "a!", " a"]

    # ---- generation
    def _key(self, rng, mode):
        r = rng.random()
        if mode == "attr" and r < 0.3:
            return rng.choice(CLASS_ATTRS)
        if mode in ("bad", "attr") and r < 0.55:
            k = rng.choice(self.BAD)
            return k if k.isascii() else "a?"
        return rng.choice(self.GOOD)

    def _val(self, rng):
        r = rng.random()
        if r < 0.13:
            return None
        if r < 0.58:
            return rng.randrange(-3, 50)
        if r < 0.72:
            return rng.choice(["", "s", "hello", "7"])
        if r < 0.80:
            return {"f": rng.choice([0.5, 1.25, -2.0, 1e10, 0.1])}
        if r < 0.86:
            return {"t": [rng.randrange(5) for _ in range(rng.randrange(3))]}
        return {"r": rng.randrange(4)}          # one of the caller's lists / dicts: aliased, never copied

    def _form(self, rng):
        r = rng.random()
        kinds = SEQ_FORMS + MAP_FORMS
        if r < 0.55:
            return rng.choice(kinds + ("kw", "list", "dict"))
        if r < 0.80:
            return rng.choice(kinds) + "+kw"
        return "+".join([rng.choice(kinds) for _ in range(rng.choice([2, 3]))] + (["kw"] if rng.random() < 0.5 else []))

    def _pairs(self, rng, mode):
        n = rng.choice([0, 1, 1, 2, 2, 3, 5])
        return [[self._key(rng, mode), self._val(rng)] for _ in range(n)]

    def generate(self, rng, n, tier):
        def via(rng):
            return ["held"] if rng.random() < 0.4 else []
        for _ in range(n):
            r = rng.random()
            mode = "attr" if r < 0.10 else "bad" if r < 0.35 else "good"
            push_none = rng.random() < 0.10
            L = rng.choice([1, 4, 10, 20, 35, 60])
            ops = []
            if rng.random() < 0.7:
                ops.append(["setClock", 0, rng.randrange(0, 80)])
                ops.append(["attach", 0])
            for _ in range(L):
                r = rng.random()
                k = self._key(rng, mode)
                v = self._val(rng)
                form = self._form(rng)
                r9 = rng.random()
                if r9 < 0.03:
                    ops.append(["hold", rng.choice(["deck", "deck", "data", "unit"])]); continue
                if r9 < 0.06:
                    ops.append(["setattr", k, v, "held"]); continue
                if r9 < 0.075:
                    ops.append(["setunit", k, v, "held"]); continue
                if rng.random() < 0.14:        # sift / copy / reorder / data record / truth / unit record
                    ops.append(rng.choice([["sift", None], ["sift", [self._key(rng, mode) for _ in range(rng.randrange(4))]],
                                           ["copy", rng.choice(["copy", "copyDataDict"])],
                                           ["reorder", self._pairs(rng, mode)], ["reorder", self._pairs(rng, mode)],
                                           ["setData", self._pairs(rng, mode)],
                                           ["setTruth", v], ["getTruth"],
                                           ["changeUnit", self._pairs(rng, mode), rng.choice(["list", "dict", "kw"])],
                                           ["createUnit", self._pairs(rng, mode), rng.choice(["list", "dict", "kw"])],
                                           ["fetchUnit", k], ["ctorUnit", self._pairs(rng, mode)]]))
                    continue
                if r < 0.07: ops.append(["setValue", v])
                elif r < 0.10: ops.append(["getValue"])
                elif r < 0.19: ops.append(["update", self._pairs(rng, mode), form])
                elif r < 0.27: ops.append(["change", self._pairs(rng, mode), form])
                elif r < 0.36: ops.append(["create", self._pairs(rng, mode), form])
                elif r < 0.39: ops.append(["stampNow"])
                elif r < 0.47: ops.append(["setItem", k, v])
                elif r < 0.51: ops.append(["getItem", k])
                elif r < 0.58: ops.append(["delItem", k])
                elif r < 0.61: ops.append(["contains", k])
                elif r < 0.63: ops.append(["get", k])
                elif r < 0.65: ops.append([rng.choice(["keys", "items", "values", "len"])])
                elif r < 0.68: ops.append(["pop", k])
                elif r < 0.70: ops.append(["popitem"])
                elif r < 0.73: ops.append(["setdefault", k, v])
                elif r < 0.735: ops.append(["clear"])
                elif r < 0.76: ops.append(["insert", rng.choice([0, 0, 1, 2, -1, -2, -9, 9]), k, v])
                elif r < 0.80:
                    ops.append(["push", None if (push_none and rng.random() < 0.4) else (0 if v is None else v)] + via(rng))
                elif r < 0.82: ops.append(["pull"] + via(rng))
                elif r < 0.87: ops.append(["gulp", v] + via(rng))
                elif r < 0.92: ops.append(["spew"] + via(rng))
                elif r < 0.94: ops.append(["mutate", rng.randrange(4), rng.randrange(100)])
                elif r < 0.97: ops.append(["setClock", rng.randrange(2), rng.choice([None, rng.randrange(0, 200)])])
                else: ops.append(["attach", rng.choice([None, 0, 1])])
            yield {"ops": ops}

    def exhaustive(self, tier):
        """all histories of length <= 2 (quick) / <= 3 (thorough) over a small op alphabet, from a share that
        is attached to a store at stamp 3 and already has field a=1"""
        alpha = [["setValue", 5], ["update", [["b", 2]], "list"], ["change", [["a", 7]], "list"],
                 ["create", [["a", 9], ["c", 3]], "list"], ["create", [["a", 9]], "kw"], ["delItem", "a"],
                 ["setItem", "_x", 1], ["setClock", 0, 9], ["attach", None], ["stampNow"],
                 ["gulp", None], ["gulp", 4], ["spew"], ["pull"], ["gulp", 6, "held"], ["spew", "held"]]
        pre = [["setClock", 0, 3], ["attach", 0], ["change", [["a", 1]], "list"]]
        import itertools
        L = 3 if tier == "thorough" else 2
        for n in range(1, L + 1):
            for seq in itertools.product(alpha, repeat=n):
                yield {"ops": pre + [list(o) for o in seq] + [["items"]]}

    # ---- implementation side
    def _show_val(self, v, key=None, sh=None):
        """canonical value: None / int / str / float (bit pattern) / tuple of ints / one of the caller's mutable
        objects BY IDENTITY with its present contents; anything else (e.g. a copy of a list, a bound method of
        Data) by its type name"""
        for i, o in enumerate(getattr(self, "_pool", [])):
            if v is o:
                return "r%d[%s]" % (i, ints_str(pool_contents(o)))
        if v is None:
            return "n"
        if isinstance(v, bool):
            return "?bool"
        if isinstance(v, int):
            return "i%d" % v
        if isinstance(v, str):
            return "s" + hx(v)
        if isinstance(v, float):
            return "f%d" % struct.unpack(">Q", struct.pack(">d", v))[0]
        if isinstance(v, tuple) and all(isinstance(x, int) for x in v):
            return "t" + ints_str(v)
        if callable(v) or isinstance(v, type):
            return "a" + (hx(key) if isinstance(key, str) else "?")
        return "?" + type(v).__name__

    def _stamp(self, t):
        if t is None:
            return "n"
        if isinstance(t, float) and (t * 8) == int(t * 8):
            return "%d" % int(t * 8)
        return "?%r" % (t,)

    def _pairs_out(self, items):
        items = list(items)
        return ";".join("%s=%s" % (hx(k) if isinstance(k, str) else "?", self._show_val(v)) for k, v in items) if items else "."

    def _observe(self, sh):
        try:
            keys = list(sh.keys())
            ks = ",".join(hx(k) if isinstance(k, str) else "?" for k in keys) if keys else "."
        except Exception as ex:
            ks = "ERR " + type(ex).__name__
        try:
            its = self._pairs_out(sh.items())
        except Exception as ex:
            its = "ERR " + type(ex).__name__
        dk = list(sh.deck)
        try:
            un = "-" if sh.unit is None else self._pairs_out(sh.unit.__dict__.items())
        except Exception as ex:
            un = "ERR " + type(ex).__name__
        def label(kind, o):
            if o is None:
                return "-"
            seen = self._ids[kind]
            for i, x in enumerate(seen):
                if x is o:
                    return "%d" % i
            seen.append(o)
            return "%d" % (len(seen) - 1)
        ids = "%s,%s,%s" % (label("data", sh.data), label("deck", sh.deck), label("unit", sh.unit))
        return "%s | %s | %s | %s | %d | %s | %s | %s" % (self._stamp(sh.stamp), ks, its,
                                                          ",".join(self._show_val(v) for v in dk) if dk else ".", len(sh),
                                                          self._show_val(sh.truth), un, ids)

    def impl(self, case):
        core.import_ioflo()
        from ioflo.base import storing
        storing.Store.Clear()
        stores = [storing.Store(name="s0"), storing.Store(name="s1")]
        sh = storing.Share(name="sh")
        self._pool = [[], [], {}, {}]          # the caller's mutable objects
        py = self._to_py
        self._ids = {"data": [], "deck": [], "unit": []}     # distinct objects seen, in order
        held = {"deck": sh.deck, "data": sh.data, "unit": None}   # references the caller holds (deck: taken empty)
        self._observe(sh)                      # the initial sub-objects get labels 0

        def parts_py(op):
            return [(kind, [(kk, py(vv)) for kk, vv in seg]) for kind, seg in split_forms(op)]
        out = []
        for op in case["ops"]:
            k = op[0]
            try:
                if k == "setValue":
                    sh.value = py(op[1]); r = "unit"
                elif k == "getValue":
                    r = "v:" + self._show_val(sh.value)
                elif k in ("update", "change", "create"):
                    f = getattr(sh, k)
                    pa, kwa = build_args(parts_py(op), storing)
                    res = f(*pa, **kwa)
                    r = "unit" if res is sh else "?notself"
                elif k == "stampNow":
                    r = "t:" + self._stamp(sh.stampNow())
                elif k == "setItem":
                    sh[op[1]] = py(op[2]); r = "unit"
                elif k == "getItem":
                    r = "v:" + self._show_val(sh[op[1]], op[1], sh)
                elif k == "delItem":
                    del sh[op[1]]; r = "unit"
                elif k == "contains":
                    r = "b:" + str(op[1] in sh)
                elif k == "get":
                    r = "v:" + self._show_val(sh.get(op[1]), op[1], sh)
                elif k == "keys":
                    ks = list(sh.keys()); r = "k:" + (",".join(hx(x) for x in ks) if ks else ".")
                elif k == "items":
                    r = "p:" + self._pairs_out(sh.items())
                elif k == "values":
                    keys = list(sh.keys())
                    vs = sh.values()
                    r = "l:" + (",".join(self._show_val(v) for v in vs) if vs else ".")
                elif k == "len":
                    r = "n:%d" % len(sh)
                elif k == "pop":
                    r = "v:" + self._show_val(sh.pop(op[1]))
                elif k == "popitem":
                    r = "p:" + self._pairs_out([sh.popitem()])
                elif k == "setdefault":
                    r = "v:" + self._show_val(sh.setdefault(op[1], py(op[2])))
                elif k == "clear":
                    sh.clear(); r = "unit"
                elif k == "insert":
                    sh.insert(op[1], op[2], py(op[3])); r = "unit"
                elif k == "sift":
                    res = sh.sift() if op[1] is None else sh.sift(list(op[1]))
                    r = "p:" + self._pairs_out(res.items())
                elif k == "copy":
                    res = sh.copy() if op[1] == "copy" else sh.copyDataDict()
                    r = "p:" + self._pairs_out(res.items())
                elif k == "reorder":
                    from ioflo.aid.odicting import odict
                    sh.reorder(odict([(kk, py(vv)) for kk, vv in op[1]])); r = "unit"
                elif k == "setData":
                    sh.data = storing.Data([(kk, py(vv)) for kk, vv in op[1]]); r = "unit"
                    held["data"] = sh.data      # the documented rebinding: the caller takes the new record
                elif k == "setTruth":
                    sh.truth = py(op[1]); r = "unit"
                elif k == "getTruth":
                    r = "v:" + self._show_val(sh.truth)
                elif k in ("changeUnit", "createUnit"):
                    pa, kwa = build_args(parts_py(op), storing)
                    res = getattr(sh, k)(*pa, **kwa)
                    r = "unit" if res is sh else "?notself"
                elif k == "fetchUnit":
                    got = sh.fetchUnit(op[1])
                    if sh.unit is not None and op[1] in CLASS_ATTRS and op[1] != "__weakref__" \
                            and not dict.__contains__(sh.unit.__dict__, op[1]):
                        r = "v:a" + hx(op[1])      # fetchUnit still reads through getattr: a class attribute of Data
                    else:
                        r = "v:" + self._show_val(got, op[1])
                elif k == "ctorUnit":
                    s2 = storing.Share(name="u", unit=dict((kk, py(vv)) for kk, vv in op[1]))
                    r = "p:" + ("-" if s2.unit is None else self._pairs_out(s2.unit.__dict__.items()))
                elif k == "mutate":
                    o = self._pool[op[1]]
                    if isinstance(o, dict):
                        o[len(o)] = op[2]
                    else:
                        o.append(op[2])
                    r = "unit"
                elif k == "hold":
                    held[op[1]] = sh.deck if op[1] == "deck" else sh.data if op[1] == "data" else sh.unit
                    r = "unit"
                elif k == "setattr":        # a field through the held data record
                    setattr(held["data"], op[1], py(op[2])); r = "unit"
                elif k == "setunit":        # a unit field through the held unit record
                    if held["unit"] is None:
                        held["unit"] = sh.unit
                    if held["unit"] is None:
                        sh.changeUnit([(op[1], py(op[2]))])
                    else:
                        setattr(held["unit"], op[1], py(op[2]))
                    r = "unit"
                elif k == "push":
                    (held["deck"] if op[-1] == "held" and len(op) > 2 else sh).push(py(op[1])); r = "unit"
                elif k == "pull":
                    r = "v:" + self._show_val((held["deck"] if op[-1] == "held" else sh).pull())
                elif k == "gulp":
                    (held["deck"] if op[-1] == "held" and len(op) > 2 else sh.deck).gulp(py(op[1])); r = "unit"
                elif k == "spew":
                    r = "v:" + self._show_val((held["deck"] if op[-1] == "held" else sh.deck).spew())
                elif k == "setClock":
                    st = stores[0 if op[1] == 0 else 1]
                    if op[2] is None:
                        st.stamp = None
                    else:
                        st.changeStamp(op[2] / 8.0)
                    r = "unit"
                elif k == "attach":
                    sh.changeStore(None if op[1] is None else stores[0 if op[1] == 0 else 1]); r = "unit"
                else:
                    r = "HARNESS bad op"
            except (KeyError, AttributeError, TypeError, IndexError) as ex:
                r = "ERR " + type(ex).__name__
            except Exception as ex:
                r = "ERR " + type(ex).__name__
            out.append(r + " | " + self._observe(sh))
        return out

    # ---- model side
    def _venc(self, v, pool=None):
        """wire form of a case value; with `pool` (lists of ints) a mutable object also shows its contents"""
        if v is None:
            return "n"
        if isinstance(v, bool):
            return "?bool"
        if isinstance(v, int):
            return "i%d" % v
        if isinstance(v, str):
            return "s" + hx(v)
        if "f" in v:
            return "f%d" % struct.unpack(">Q", struct.pack(">d", float(v["f"])))[0]
        if "fb" in v:
            return "f%d" % v["fb"]
        if "t" in v:
            return "t" + ints_str(v["t"])
        if "r" in v:
            return "r%d" % v["r"] + ("" if pool is None else "[%s]" % ints_str(pool[v["r"]]))
        return "?"

    def _penc(self, ps, pool=None):
        return ";".join("%s=%s" % (hx(k), self._venc(v, pool)) for k, v in ps) if ps else "."

    def _to_py(self, v):
        if isinstance(v, dict):
            if "f" in v:
                return float(v["f"])
            if "t" in v:
                return tuple(v["t"])
            if "r" in v:
                return self._pool[v["r"]]
        return v

    def requests(self, case):
        reqs = ["reset"]
        for op in case["ops"]:
            k = op[0]
            if k == "hold":
                reqs.append("hold " + op[1])           # taking a reference is not an operation of the share
            elif k == "setattr":
                reqs.append("change %s" % self._penc([(op[1], op[2])]))
            elif k == "setunit":
                reqs.append("changeUnit %s" % self._penc([(op[1], op[2])]))
            elif k in ("setValue", "push", "gulp"):
                reqs.append("%s %s" % (k, self._venc(op[1])))
            elif k in ("update", "change", "create"):
                reqs.append("%s %s" % (k, self._penc(eff_pairs(op))))
            elif k in ("setItem", "setdefault"):
                reqs.append("%s %s %s" % (k, hx(op[1]), self._venc(op[2])))
            elif k in ("getItem", "delItem", "contains", "get", "pop"):
                reqs.append("%s %s" % (k, hx(op[1])))
            elif k == "insert":
                reqs.append("insert %d %s %s" % (op[1], hx(op[2]), self._venc(op[3])))
            elif k == "sift":
                reqs.append("sift none" if op[1] is None else "sift " + (",".join(hx(x) for x in op[1]) if op[1] else "."))
            elif k == "copy":
                reqs.append("copy")
            elif k in ("reorder", "setData", "ctorUnit"):
                d = {}
                for kk, vv in op[1]:
                    d[kk] = vv
                ps = list(d.items()) if k != "setData" else [tuple(x) for x in op[1]]
                reqs.append("%s %s" % (k, self._penc(ps)))
            elif k in ("changeUnit", "createUnit"):
                reqs.append("%s %s" % (k, self._penc(eff_pairs(op))))
            elif k in ("setTruth",):
                reqs.append("setTruth %s" % self._venc(op[1]))
            elif k == "fetchUnit":
                reqs.append("fetchUnit %s" % hx(op[1]))
            elif k == "mutate":
                reqs.append("mutate %d %d" % (op[1], op[2]))
            elif k == "setClock":
                reqs.append("setClock %d %s" % (0 if op[1] == 0 else 1, "n" if op[2] is None else "%d" % op[2]))
            elif k == "attach":
                reqs.append("attach %s" % ("n" if op[1] is None else "%d" % (0 if op[1] == 0 else 1)))
            else:
                reqs.append(k)
        return reqs

    def model_post(self, case, replies):
        return replies[1:]

    # ---- the property, stated on the implementation's outputs
    def oracle(self, case, out):
        return self._oracle2(case, out)[1]

    def _oracle2(self, case, out):
        """(kind, message): kind None = holds; "other" = a failure that is not of the two recorded kinds
        (returned as soon as it is met); "known" = only failures of the recorded kind D11e (spew hands back a
        None that was pushed) were met.
        After a failure of a recorded kind the reference carries on, so that anything else in the same
        history is still found."""
        ops = []
        for op in case["ops"]:             # operations through a held reference are the same operations
            if op[0] == "setattr":
                ops.append(["change", [[op[1], op[2]]], "list"])
            elif op[0] == "setunit":
                ops.append(["changeUnit", [[op[1], op[2]]], "list"])
            else:
                ops.append(op)
        if len(out) != len(ops):
            return "other", "harness: %d ops, %d outputs: %s" % (len(ops), len(out), out[:1])
        n_records = 0                      # whole data records assigned so far
        F = collections.OrderedDict()      # fields
        stamp = None
        clocks = [None, None]
        att = None
        deck = collections.deque()
        opool = [[], [], [], []]           # contents of the caller's mutable objects
        truth = None
        U = None                            # the unit record
        venc = lambda v: self._venc(v, opool)
        penc = lambda ps: self._penc(ps, opool)
        known = []
        d11 = False                         # a class-attribute name was accepted: len() is no longer pinned

        def now():
            return None if att is None else clocks[att]

        def is_ca(kk):
            return False       # D11 is repaired: a class attribute name of Data is just a non-public name

        for i, (op, line) in enumerate(zip(ops, out)):
            parts = line.split(" | ")
            if len(parts) != 9:
                return "other", "op %d %s: %s" % (i, op, line)
            res, o_stamp, o_keys, o_items, o_deck, o_len, o_truth, o_unit, o_ids = parts
            where = "op %d %s -> %s: " % (i, op[:3], res)
            k = op[0]
            err = res.startswith("ERR ")
            expect_res = None      # exact expected result string, when the property fixes it
            resync = False
            if k == "setValue":
                if err:
                    return "other", where + "assigning the value raised"
                F["value"] = op[1]; stamp = now(); expect_res = "unit"
            elif k == "getValue":
                expect_res = "v:" + venc(F.get("value"))
            elif k in ("update", "change", "create"):
                ps = eff_pairs(op)
                bad = [kk for kk, _ in ps if not is_public(kk)]
                if k == "create":
                    bad = [kk for kk in bad if kk not in F]
                if bad:
                    if not err and k != "create":
                        msg = where + "field name %r is not a public identifier but was accepted" % (bad[0],)
                        if all(is_ca(kk) for kk in bad):
                            known.append(msg); d11 = True
                        else:
                            return "other", msg
                    # create may silently skip a name it considers present; what matters is what became a field
                    resync = True
                elif err:
                    return "other", where + "raised although every field name is a public identifier"
                else:
                    expect_res = "unit"
                    if k == "create":
                        added = False
                        for kk, vv in ps:
                            if kk not in F:
                                F[kk] = vv; added = True
                        if added:
                            stamp = now()
                    else:
                        for kk, vv in ps:
                            F[kk] = vv
                        if k == "update":
                            stamp = now()
            elif k == "stampNow":
                stamp = now(); expect_res = "t:" + ("n" if stamp is None else "%d" % stamp)
            elif k in ("setItem", "setdefault"):
                kk = op[1]
                if not is_public(kk) and kk not in F:
                    if not err:
                        msg = where + "field name %r is not a public identifier but was accepted" % (kk,)
                        if is_ca(kk):
                            known.append(msg); d11 = True
                        else:
                            return "other", msg
                elif err:
                    return "other", where + "raised for a public field name"
                elif k == "setItem":
                    F[kk] = op[2]; expect_res = "unit"
                else:
                    F.setdefault(kk, op[2]); expect_res = "v:" + venc(F[kk])
            elif k in ("getItem", "get"):
                kk = op[1]
                if kk in F:
                    expect_res = "v:" + venc(F[kk])
                elif is_ca(kk):
                    if res != ("v:n" if k == "get" else "ERR KeyError"):
                        known.append(where + "%r is not a field but reading it gave something" % (kk,))
                elif k == "get":
                    expect_res = "v:n"
                elif res != "ERR KeyError":
                    return "other", where + "%r is not a field but reading it did not raise KeyError" % (kk,)
            elif k == "contains":
                if is_ca(op[1]) and op[1] not in F:
                    if res != "b:False":
                        known.append(where + "%r is not a field but is reported as contained" % (op[1],))
                else:
                    expect_res = "b:" + str(op[1] in F)
            elif k in ("delItem", "pop"):
                kk = op[1]
                if kk in F:
                    v = F.pop(kk); expect_res = "unit" if k == "delItem" else "v:" + venc(v)
                elif not err:
                    msg = where + "%r is not a field but removing it did not raise" % (kk,)
                    if is_ca(kk):
                        known.append(msg)
                    else:
                        return "other", msg
            elif k == "popitem":
                if F:
                    kk, v = F.popitem(last=True); expect_res = "p:%s=%s" % (hx(kk), venc(v))
                elif res != "ERR KeyError":
                    return "other", where + "popitem on an empty share did not raise KeyError"
            elif k == "clear":
                F.clear(); expect_res = "unit"; d11 = False
            elif k == "insert":
                idx, kk, vv = op[1], op[2], op[3]
                if not is_public(kk):
                    if not err:
                        msg = where + "field name %r is not a public identifier but was accepted" % (kk,)
                        if is_ca(kk) and o_keys == self._keys(F):
                            known.append(msg); d11 = True
                        else:
                            return "other", msg
                elif kk in F:
                    if res != "ERR KeyError":
                        return "other", where + "inserting an existing key did not raise KeyError"
                elif err:
                    return "other", where + "raised for a new public field name"
                else:
                    items = list(F.items())
                    lst = list(range(len(items)))
                    lst.insert(idx, None)                     # where Python's list.insert puts it
                    n = lst.index(None)
                    F = collections.OrderedDict(items[:n] + [(kk, vv)] + items[n:])
                    expect_res = "unit"
            elif k == "keys":
                expect_res = "k:" + self._keys(F)
            elif k == "items":
                expect_res = "p:" + penc(list(F.items()))
            elif k == "values":
                expect_res = "l:" + (",".join(venc(v) for v in F.values()) if F else ".")
            elif k == "len":
                if not d11:
                    expect_res = "n:%d" % len(F)
            elif k == "sift":
                if op[1] is None:
                    expect_res = "p:" + penc(list(F.items()))
                elif all(x in F for x in op[1]):
                    seen = collections.OrderedDict((x, F[x]) for x in op[1])
                    expect_res = "p:" + penc(list(seen.items()))
                elif not err:
                    return "other", where + "sift of a name that is not a field did not raise"
            elif k == "copy":
                expect_res = "p:" + penc(list(F.items()))
            elif k == "reorder":
                d = collections.OrderedDict()
                for kk, vv in op[1]:
                    d[kk] = vv
                bad = [kk for kk in d if kk not in F and not is_public(kk)]
                if bad:
                    if not err:
                        return "other", where + "field name %r is not a public identifier but was accepted" % (bad[0],)
                elif err:
                    return "other", where + "reorder raised"
                else:
                    for kk, vv in d.items():
                        F[kk] = vv
                        F.move_to_end(kk)
                    expect_res = "unit"
            elif k == "setData":
                bad = [kk for kk, _ in op[1] if not is_public(kk)]
                if bad:
                    if not err:
                        return "other", where + "field name %r is not a public identifier but was accepted" % (bad[0],)
                elif err:
                    return "other", where + "assigning a data record with public names raised"
                else:
                    F = collections.OrderedDict()
                    for kk, vv in op[1]:
                        F[kk] = vv
                    stamp = now(); expect_res = "unit"; d11 = False; n_records += 1
            elif k == "hold":
                expect_res = "unit"
            elif k == "setTruth":
                truth = op[1]; expect_res = "unit"
            elif k == "getTruth":
                expect_res = "v:" + venc(truth)
            elif k in ("changeUnit", "createUnit"):
                ps = eff_pairs(op)
                if U is None:
                    U = collections.OrderedDict()
                bad = [kk for kk, _ in ps if not is_public(kk) and kk not in U]
                if bad:
                    U = None if o_unit in ("-",) or o_unit.startswith("ERR") else collections.OrderedDict(
                        (("" if e.partition("=")[0] == "-" else bytes.fromhex(e.partition("=")[0]).decode()),
                         self._vdec(e.partition("=")[2])) for e in ([] if o_unit == "." else o_unit.split(";")))
                    if U is not None and any(not is_public(kk) for kk in U):
                        return "other", where + "a unit name that is not a public identifier was accepted"
                elif err:
                    return "other", where + "raised although every unit name is a public identifier"
                else:
                    for kk, vv in ps:
                        if k == "changeUnit" or kk not in U:
                            U[kk] = vv
                    expect_res = "unit"
            elif k == "fetchUnit":
                if is_public(op[1]):
                    expect_res = "v:" + venc(None if U is None else U.get(op[1]))
            elif k == "ctorUnit":
                d = collections.OrderedDict()
                for kk, vv in op[1]:
                    d[kk] = vv
                if all(is_public(kk) for kk in d):
                    expect_res = "p:" + penc(list(d.items()))
                elif not err:
                    return "other", where + "a unit name that is not a public identifier was accepted"
            elif k == "mutate":
                opool[op[1]].append(op[2]); expect_res = "unit"
            elif k == "push":
                deck.append(op[1]); expect_res = "unit"
            elif k == "gulp":
                if op[1] is not None:
                    deck.append(op[1])
                expect_res = "unit"
            elif k == "pull":
                if deck:
                    expect_res = "v:" + venc(deck.popleft())
                elif res != "ERR IndexError":
                    return "other", where + "pull on an empty deck did not raise IndexError"
            elif k == "spew":
                if deck:
                    v = deck.popleft()
                    if res == "v:n":
                        msg = where + "spew returned None although the deck was not empty"
                        if v is None:
                            known.append(msg)        # the None that was pushed comes back
                        else:
                            return "other", msg
                    expect_res = "v:" + venc(v)
                else:
                    expect_res = "v:n"
            elif k == "setClock":
                clocks[0 if op[1] == 0 else 1] = op[2]; expect_res = "unit"
            elif k == "attach":
                att = None if op[1] is None else (0 if op[1] == 0 else 1); expect_res = "unit"
            if expect_res is not None and res != expect_res:
                return "other", where + "expected %s" % expect_res
            # observations
            if resync:
                # a call that met a non-public name: whatever it left behind must still be well formed
                if o_items.startswith("ERR") or o_keys.startswith("ERR"):
                    return "other", where + "items()/keys() raise after the call"
                newF = collections.OrderedDict()
                for ent in ([] if o_items == "." else o_items.split(";")):
                    hk, _, hv = ent.partition("=")
                    kk = "" if hk == "-" else bytes.fromhex(hk).decode()
                    if not is_public(kk):
                        return "other", where + "field %r is not a public identifier" % (kk,)
                    if kk in F and self._venc(F[kk]) != self._venc(self._vdec(hv)) and k == "create":
                        return "other", where + "create overwrote the existing field %r" % (kk,)
                    newF[kk] = self._vdec(hv)
                F = newF
                if o_stamp not in ("n" if stamp is None else "%d" % stamp, "n" if now() is None else "%d" % now()):
                    return "other", where + "stamp %s is neither the old stamp nor the store's time" % o_stamp
                stamp = None if o_stamp == "n" else int(o_stamp)
            want_stamp = "n" if stamp is None else "%d" % stamp
            if o_stamp != want_stamp:
                return "other", where + "stamp is %s, the rules give %s" % (o_stamp, want_stamp)
            if o_keys != self._keys(F) or o_items != penc(list(F.items())):
                return "other", where + "fields are %s / %s, an insertion-ordered mapping gives %s" % (
                    o_keys, o_items, penc(list(F.items())))
            if not d11 and o_len != "%d" % len(F):
                return "other", where + "len() is %s with %d fields" % (o_len, len(F))
            want_ids = "%d,0,%s" % (n_records, "-" if U is None else "0")
            if o_ids != want_ids:
                return "other", where + ("the share's sub-objects (data record, deck, unit record) are objects %s, "
                                         "expected %s: a reference held by the caller no longer is the share's" % (o_ids, want_ids))
            if o_truth != venc(truth):
                return "other", where + "truth is %s, expected %s" % (o_truth, venc(truth))
            want_unit = "-" if U is None else penc(list(U.items()))
            if o_unit != want_unit:
                return "other", where + "unit record is %s, expected %s" % (o_unit, want_unit)
            want_deck = ",".join(venc(v) for v in deck) if deck else "."
            if o_deck != want_deck:
                return "other", where + "deck is %s, FIFO gives %s" % (o_deck, want_deck)
        if known:
            return "known", known[0]
        return None, None

    def _keys(self, F):
        return ",".join(hx(k) for k in F) if F else "."

    def _vdec(self, s):
        if s == "n":
            return None
        if s.startswith("i"):
            return int(s[1:])
        if s.startswith("s"):
            return "" if s[1:] == "-" else bytes.fromhex(s[1:]).decode()
        if s.startswith("f"):
            return {"fb": int(s[1:])}
        if s.startswith("t"):
            return {"t": [] if s[1:] == "." else [int(x) for x in s[1:].split("_")]}
        if s.startswith("r"):
            return {"r": int(s[1:].split("[")[0])}
        return s

    # ---- known findings: the region predicates are the Lean definitions, evaluated by the driver
    def region(self, finding, case):
        key = core.case_key(case)
        cache = self.__dict__.setdefault("_region_cache", {})
        if key not in cache:
            reqs = self.requests(case) + ["region D11e"]
            rep = core.Driver(self.ENGINE).run(reqs)
            cache[key] = {"D11e": rep[-1] == "true"}
        return cache[key].get(finding["id"], False)

    # ---- statistics
    def nontrivial(self, case, out):
        stamped = deleted = third = False
        for op, line in zip(case["ops"], out):
            res, o_stamp = line.split(" | ")[:2]
            if op[0] in ("setValue", "update", "create", "stampNow") and not res.startswith("ERR") and o_stamp != "n":
                stamped = True
            if op[0] in ("delItem", "pop", "popitem") and not res.startswith("ERR"):
                deleted = True
            if res.startswith("ERR") or (op[0] in ("pull", "spew") and res != "v:n"):
                third = True
        return stamped and deleted and third

    def bucket(self, case, out):
        ops = case["ops"]
        names = []
        for op in ops:
            if op[0] in ("update", "change", "create"):
                names += [p[0] for p in op[1]]
            elif op[0] in ("setItem", "getItem", "delItem", "contains", "get", "pop", "setdefault"):
                names.append(op[1])
            elif op[0] == "insert":
                names.append(op[2])
        kind = "classattr" if any(n in CLASS_ATTRS for n in names) else \
            "badnames" if any(not is_public(n) for n in names) else "publicnames"
        pn = any(op[0] == "push" and op[1] is None for op in ops)
        n = len(ops)
        return "ops%s %s%s" % ("1-6" if n <= 6 else "7-25" if n <= 25 else "26+", kind, " pushNone" if pn else "")

    def _cands(self, case):
        ops = case["ops"]
        for i in range(len(ops)):
            yield {"ops": ops[:i] + ops[i + 1:]}
        for i, op in enumerate(ops):
            if op[0] in ("update", "change", "create") and len(op[1]) > 1:
                for j in range(len(op[1])):
                    yield {"ops": ops[:i] + [[op[0], op[1][:j] + op[1][j + 1:], op[2]]] + ops[i + 1:]}

    def shrink_candidates(self, case):
        """a failure that is not of a recorded kind must stay one while shrinking; a failure of a recorded
        kind that is reported because the implementation no longer behaves as recorded (model != implementation)
        must keep disagreeing (otherwise the shrunk case could be nothing but the known finding)"""
        kind = self._oracle2(case, self.safe_impl(case))[0]
        for cand in self._cands(case):
            io = self.safe_impl(cand)
            k2 = self._oracle2(cand, io)[0]
            if kind == "other" and k2 != "other":
                continue
            if kind == "known" and (k2 is None or self.model([cand])[0] == io):
                continue
            yield cand
