"""C20 — 'is updated' / 'is changed' conditions report changes since the mark.

Model:    lean/IofloModel/Model/Marks.lean  (Mark, MarkerUpdate/MarkerChange, NeedUpdate/NeedChange,
          NeedMarker._resolve placement, one flat reader framer between two writer framers)
Theorems: lean/IofloModel/Props/C20.lean
Tie:      a generated program (reader framer with marker needs; writer framers before and after it
          in the tick order) is rendered as FloScript, built by the real Builder, run by the real
          Skedder; an observer framer (last in the tick order) records after every tick the reader's
          active frame and whether it (re-)entered a frame in that tick.  The Lean driver runs the
          model on the same program and schedule; the two traces must be equal.
          Target frames may carry entry needs (`let me if [not] field in share`) on shares the writers flip,
          so transitions are attempted and refused as well as taken.
Oracle:   independent of the Lean model: replays the observed trace against the property itself —
          per (share, marker key) it keeps the update times, the entry-reset times and the
          taken-transition-reset times / the snapshot taken at the last of those moments, and demands
          that at every tick the first transition whose conditions hold *by the property's wording*
          is the one the implementation took.
"""
import json
import core, flob

FIELDS_V = ["value"]
FIELDS_F = ["a", "b"]
MARKERS = ["m1", "m2"]


# ----------------------------------------------------------------------------- values

def py_val(v):
    t = v[0]
    if t == "N":
        return None
    if t == "B":
        return bool(v[1])
    if t == "I":
        return int(v[1])
    if t == "D":
        return v[1] / float(2 ** v[2])
    if t == "S":
        return v[1]
    raise ValueError(v)


def flo_val(v):
    t = v[0]
    if t == "N":
        return "none"
    if t == "B":
        return "true" if v[1] else "false"
    if t == "I":
        return str(int(v[1]))
    if t == "D":
        return repr(v[1] / float(2 ** v[2]))
    if t == "S":
        return '"%s"' % v[1]
    raise ValueError(v)


def drv_val(v):
    t = v[0]
    if t == "N":
        return "N"
    if t == "B":
        return "B%d" % (1 if v[1] else 0)
    if t == "I":
        return "I%d" % v[1]
    if t == "D":
        return "D%d/%d" % (v[1], v[2])
    if t == "S":
        return "S" + (v[1].encode("ascii").hex() or "-")
    raise ValueError(v)


# ----------------------------------------------------------------------------- rendering

def flo_write(w, tag, acts):
    kind, s, fs = w
    if kind == "P":
        if len(fs) == 1 and fs[0][0] == "value":
            return "put %s into .s%d" % (flo_val(fs[0][1]), s)
        return "put %s into .s%d" % (" ".join("%s %s" % (k, flo_val(v)) for k, v in fs), s)
    # Share.change: no FloScript verb changes data without stamping, so a registered deed does it
    path = ".s%d" % s
    data = [(k, py_val(v)) for k, v in fs]
    acts[tag] = lambda store, path=path, data=data: store.fetch(path).change(data)
    return 'do fb act with tag "%s"' % tag


def flo_need(n):
    out = []
    if n["neg"]:
        out.append("not")
    out.append(".s%d is %s" % (n["s"], "updated" if n["k"] == "u" else "changed"))
    cl = n["cl"]
    if cl == "bare":
        out.append("in frame")
    elif cl == "me":
        out.append("in frame me")
    elif cl != "-":
        out.append("in frame %s" % cl[1:])
    if n["by"]:
        out.append("by %s" % n["by"])
    return " ".join(out)


def flo_guard(g):
    neg, s, field = g
    return "%s%s in .s%d" % ("not " if neg else "", field, s)


def flo_script(case, acts):
    L = ["house h", ""]
    for i, init in enumerate(case["inits"]):
        if len(init) == 1 and init[0][0] == "value":
            L.append("  init .s%d with %s" % (i, flo_val(init[0][1])))
        else:
            L.append("  init .s%d with %s" % (i, " ".join("%s %s" % (k, flo_val(v)) for k, v in init)))
    n = len(case["ticks"])

    def writer(name, key):
        L.append("")
        L.append("  framer %s be active first %s0" % (name, name))
        for i, t in enumerate(case["ticks"]):
            L.append("    frame %s%d" % (name, i))
            L.append("      enter")
            for j, w in enumerate(t[key]):
                L.append("      " + flo_write(w, "%s_%d_%d" % (name, i, j), acts))
            if i + 1 < n:
                L.append("      go next")

    writer("wb", "wb")
    L.append("")
    L.append("  framer rd be active first %s" % case["frames"][0]["name"])
    for f in case["frames"]:
        L.append("    frame %s%s" % (f["name"], (" in " + f["over"]) if f.get("over") else ""))
        for g in f.get("guard", []):
            L.append("      let me if %s" % flo_guard(g))
        for nd in f.get("gneeds", []):
            L.append("      let me if %s" % flo_need(nd))
        for ctx in ("enter", "recur", "exit"):
            if f[ctx]:
                L.append("      %s" % ctx)
                for j, w in enumerate(f[ctx]):
                    L.append("      " + flo_write(w, "rd_%s_%s_%d" % (f["name"], ctx, j), acts))
        for t in f["trans"]:
            far = t["far"] if t["far"] in ("next", "me") else t["far"][1:]
            if t["needs"]:
                L.append("      go %s if %s" % (far, " and ".join(flo_need(nd) for nd in t["needs"])))
            else:
                L.append("      go %s" % far)
    writer("wa", "wa")
    L += ["", "  framer obs be active first o", "    frame o", "      do fb obs",
          ""]
    return "\n".join(L)


def drv_write(w):
    kind, s, fs = w
    out = [kind, str(s), str(len(fs))]
    for k, v in fs:
        out += [k, drv_val(v)]
    return out


def drv_list(items, f):
    out = [str(len(items))]
    for it in items:
        out += f(it)
    return out


def drv_need(n):
    cl = n["cl"]
    return [n["k"], "1" if n["neg"] else "0", str(n["s"]), "me" if cl in ("bare", "me") else cl,
            ("=" + n["by"]) if n["by"] else "-"]


def drv_line(case):
    out = ["run"]
    out += drv_list(case["inits"], lambda init: drv_list(init, lambda kv: [kv[0], drv_val(kv[1])]))
    out += drv_list(case["frames"], lambda f: [f["name"], ("=" + f["over"]) if f.get("over") else "-"]
                    + drv_list(f.get("guard", []), lambda g: ["1" if g[0] else "0", str(g[1]), g[2]])
                    + drv_list(f.get("gneeds", []), drv_need)
                    + drv_list(f["enter"], drv_write)
                    + drv_list(f["recur"], drv_write) + drv_list(f["exit"], drv_write)
                    + drv_list(f["trans"], lambda t: [t["far"]] + drv_list(t["needs"], drv_need)))
    out += drv_list(case["ticks"], lambda t: drv_list(t["wb"], drv_write) + drv_list(t["wa"], drv_write))
    return " ".join(out)


# ----------------------------------------------------------------------------- the property, directly

NEG_INF = float("-inf")


class Spec:
    """The property's wording as a history checker (no Mark objects, no placement logic)."""

    def __init__(self, case):
        self.case = case
        self.names = [f["name"] for f in case["frames"]]
        self.data = [dict((k, py_val(v)) for k, v in init) for init in case["inits"]]
        self.updates = [[] for _ in case["inits"]]          # update times per share
        self.entry = {}        # (share, key) -> times of entry resets          (is updated)
        self.transit = {}      # (share, key) -> times of taken-transition resets
        self.snap = {}         # (share, key) -> copy of the data at the last reset   (is changed)
        # every marker need of the program with its home frame
        self.needs = [(fi, nd) for fi, f in enumerate(case["frames"]) for t in f["trans"] for nd in t["needs"]]
        # marker conditions used as entry needs (`let me if .s is updated in frame X`): they name frames like any
        # other marker need, but guard no transition, so nothing is ever reset "on a taken transition" for them
        self.needs += [(fi, nd) for fi, f in enumerate(case["frames"]) for nd in f.get("gneeds", [])]

    def named_frame(self, home, nd):
        cl = nd["cl"]
        if cl in ("-", "bare", "me") or cl == "=me":
            return home
        return self.names.index(cl[1:])

    def key(self, home, nd):
        return (nd["s"], nd["by"] if nd["by"] else self.names[self.named_frame(home, nd)])

    def write(self, w, now):
        kind, s, fs = w
        for k, v in fs:
            self.data[s][k] = py_val(v)
        if kind == "P":
            self.updates[s].append(now)

    def holds(self, home, nd):
        k = self.key(home, nd)
        if nd["k"] == "u":
            e = max(self.entry.get(k, [NEG_INF]))
            x = max(self.transit.get(k, [NEG_INF]))
            # updated at or after every entry reset and strictly after every taken-transition reset
            r = any(u >= e and u > x for u in self.updates[nd["s"]])
        else:
            if k not in self.snap:
                r = True                                     # true before the first snapshot
            else:
                snap = self.snap[k]
                r = any((f not in snap) or (snap[f] != v) for f, v in self.data[nd["s"]].items())
        return (not r) if nd["neg"] else r

    def reset(self, home, nd, now, taken):
        k = self.key(home, nd)
        if nd["k"] == "u":
            (self.transit if taken else self.entry).setdefault(k, []).append(now)
        else:
            self.snap[k] = dict(self.data[nd["s"]])

    def enter(self, fi, now):
        # "the mark is set on entry to the named frame": every need that names this frame
        for home, nd in self.needs:
            if nd["cl"] != "-" and self.named_frame(home, nd) == fi:
                self.reset(home, nd, now, False)
        for w in self.case["frames"][fi]["enter"]:
            self.write(w, now)

    def admits(self, fi):
        """entry conditions of a frame: `let me if [not] field in share` on the current data"""
        for neg, s, field in self.case["frames"][fi].get("guard", []):
            r = bool(self.data[s][field])
            if neg:
                r = not r
            if not r:
                return False
        return all(self.holds(fi, nd) for nd in self.case["frames"][fi].get("gneeds", []))

    def outline(self, a):
        """the over frames from the top down to the frame, then its primary (first declared) under frames"""
        frames = self.case["frames"]
        over = lambda i: self.names.index(frames[i]["over"]) if frames[i].get("over") else None
        head, f = [], a
        while f is not None:
            head.append(f)
            f = over(f)
        head.reverse()
        f = a
        while True:
            unders = [j for j in range(len(frames)) if over(j) == f]
            if not unders:
                break
            f = unders[0]
            head.append(f)
        return head

    def exits_enters(self, actives, far):
        """the active outline is left from the first frame that is the target itself or is not on the target's
        outline; the target's outline is entered from there"""
        fars = self.outline(far)
        for i in range(min(len(actives), len(fars))):
            if actives[i] == far or actives[i] != fars[i]:
                return actives[i:], fars[i:]
        return [], []

    def far(self, fi, t):
        if t["far"] == "me":
            return fi
        if t["far"] == "next":
            return fi + 1
        return self.names.index(t["far"][1:])


def bad_refs(case):
    names = [f["name"] for f in case["frames"]]
    for fi, f in enumerate(case["frames"]):
        if f.get("over") and f["over"] not in names:
            return True
        for nd in f.get("gneeds", []):
            cl = nd["cl"]
            if cl.startswith("=") and cl[1:] != "me" and cl[1:] not in names:
                return True
        for t in f["trans"]:
            if t["far"] == "next":
                if fi + 1 >= len(names):
                    return True
            elif t["far"] != "me" and t["far"][1:] not in names:
                return True
            for nd in t["needs"]:
                cl = nd["cl"]
                if cl.startswith("=") and cl[1:] != "me" and cl[1:] not in names:
                    return True
    return False


def check_trace(case, line):
    """None if the observed trace is what the property demands, else the failed clause"""
    if line == "ERR build":
        return None if bad_refs(case) else "a program with only valid frame references did not build"
    if bad_refs(case):
        return "a program with a dangling frame reference built"
    toks = line.split()
    n = len(case["ticks"])
    if len(toks) != n:
        return "expected %d observations, got %d" % (n, len(toks))
    sp = Spec(case)
    active = 0
    for i, t in enumerate(case["ticks"]):
        now = i
        for w in t["wb"]:
            sp.write(w, now)
        name, entered = toks[i][:-1], toks[i][-1] == "*"
        if i == 0:
            for fj in sp.outline(0):
                sp.enter(fj, now)
            want_active, want_entered, why = 0, True, "start"
        else:
            actives = sp.outline(active)
            taken = None
            for home in actives:                      # the frames of the active outline, top down
                f = case["frames"][home]
                for ti, tr in enumerate(f["trans"]):
                    # taken = conditions hold and every frame to be entered lets the framer in; a transition that
                    # is only attempted resets nothing ("whenever a transition guarded by that mark is TAKEN")
                    if not all(sp.holds(home, nd) for nd in tr["needs"]):
                        continue
                    exits, enters = sp.exits_enters(actives, sp.far(home, tr))
                    if enters and all(sp.admits(fj) for fj in enters):
                        taken = (home, ti, tr, exits, enters)
                        break
                if taken:
                    break
            if taken is None:
                want_active, want_entered, why = active, False, "no transition of the outline of %s has its conditions true and is admitted" % sp.names[active]
            else:
                home, ti, tr, exits, enters = taken
                want_active, want_entered = sp.far(home, tr), True
                why = "transition #%d of frame %s (%s) holds" % (ti, sp.names[home], " and ".join(flo_need(nd) for nd in tr["needs"]) or "unconditional")
                for nd in tr["needs"]:
                    sp.reset(home, nd, now, True)            # "whenever a transition guarded by that mark is taken"
                for fj in reversed(exits):
                    for w in case["frames"][fj]["exit"]:
                        sp.write(w, now)
                for fj in enters:                            # "the mark is set on entry to the named frame"
                    sp.enter(fj, now)
        if (name, entered) != (sp.names[want_active], want_entered):
            return "tick %d: %s, so the reader should be in %s%s; implementation: %s" % (
                i, why, sp.names[want_active], "*" if want_entered else ".", toks[i])
        active = want_active
        for fj in sp.outline(active):
            for w in case["frames"][fj]["recur"]:
                sp.write(w, now)
        for w in t["wa"]:
            sp.write(w, now)
    return None


# ----------------------------------------------------------------------------- generation

def gen_val(rng, small=True):
    r = rng.randrange(10)
    if r < 5:
        return ["I", rng.choice([0, 1, 2, 3])]
    if r < 6:
        return ["B", rng.randrange(2)]
    if r < 8:
        return ["D", rng.choice([0, 1, 2, 3, 4, 5, 6]), rng.choice([0, 1, 2])]
    if r < 9:
        return ["S", rng.choice(["x", "y", "1"])]
    return ["N"]


def gen_case(rng, tier):
    nsh = rng.choice([1, 1, 2])
    kinds = [rng.choice("VF") for _ in range(nsh)]
    fields = [FIELDS_V if k == "V" else FIELDS_F for k in kinds]
    inits = [[[f, gen_val(rng)] for f in fields[s]] for s in range(nsh)]
    nfr = rng.choice([1, 2, 2, 3, 3, 4, 5])
    names = ["A", "B", "C", "D", "E"][:nfr]
    nticks = rng.choice([3, 5, 8, 12])
    style = rng.choice(["upd", "upd", "chg", "mix", "mix"])

    def gen_write(allow_chg=True, same=None):
        s = rng.randrange(nsh)
        if allow_chg and rng.random() < (0.35 if style != "upd" else 0.1):
            fs = fields[s] + (["z"] if rng.random() < 0.3 else [])
            f = rng.choice(fs)
            return ["C", s, [[f, gen_val(rng)]]]
        if kinds[s] == "V" or rng.random() < 0.6:
            f = rng.choice(fields[s])
            v = gen_val(rng)
            if rng.random() < 0.4:           # same value again: updated but not changed
                v = [x for k, x in inits[s] if k == f][0]
            return ["P", s, [[f, v]]]
        return ["P", s, [[f, gen_val(rng)] for f in fields[s]]]

    def gen_writes(p, mx=2):
        out = []
        while len(out) < mx and rng.random() < p:
            out.append(gen_write())
        return out

    def gen_need(home):
        k = {"upd": "u", "chg": "c"}.get(style) or rng.choice("uc")
        cl = rng.choice(["-", "-", "bare", "me", "=" + rng.choice(names), "=" + rng.choice(names)])
        by = rng.choice(["", "", "", "m1", "m1", "m2", rng.choice(names)])
        return {"k": k, "neg": 1 if rng.random() < 0.15 else 0, "s": rng.randrange(nsh), "cl": cl, "by": by}

    frames = []
    for fi, nm in enumerate(names):
        trans = []
        for _ in range(rng.choice([1, 1, 2, 2, 3])):
            far = rng.choice(["me", "next"] + ["=" + x for x in names] * 2)
            if far == "next" and fi + 1 >= nfr:
                far = "=" + names[0]
            r = rng.random()
            needs = [] if r < 0.07 else [gen_need(fi)] if r < 0.8 else [gen_need(fi), gen_need(fi)]
            trans.append({"far": far, "needs": needs})
            if needs and style == "mix" and rng.random() < 0.3:
                # the other kind of condition on the very same share, frame clause and marker (one Mark, two markers)
                twin = dict(needs[0], k="c" if needs[0]["k"] == "u" else "u", neg=0)
                trans.append({"far": rng.choice(["me"] + ["=" + x for x in names]), "needs": [twin]})
        guard = []
        if fi > 0 and rng.random() < 0.35:
            for _ in range(rng.choice([1, 1, 2])):
                gs = rng.randrange(nsh)
                guard.append([1 if rng.random() < 0.3 else 0, gs, rng.choice(fields[gs])])
        gneeds = []
        if fi > 0 and rng.random() < 0.3:
            # marker conditions as entry needs of the frame: armed only by entries of the frame they name
            gneeds = [gen_need(fi) for _ in range(rng.choice([1, 1, 2]))]
            earlier = [(names[hj], nd) for hj, fr in enumerate(frames) for t in fr["trans"] for nd in t["needs"]]
            if earlier and rng.random() < 0.5:
                # share the Mark with a transition need of an earlier frame (same share, mark key), so that the
                # transition's taken-resets and the entry need's frame both act on one Mark
                hn, other = rng.choice(earlier)
                g = gneeds[0]
                g["s"], g["by"] = other["s"], other["by"]
                ocl = other["cl"]
                g["cl"] = "=" + (hn if ocl in ("-", "bare", "me", "=me") else ocl[1:])
                if rng.random() < 0.5:
                    g["k"] = other["k"]
        frames.append({"name": nm, "guard": guard, "gneeds": gneeds, "enter": gen_writes(0.3), "recur": gen_writes(0.15, 1),
                       "exit": gen_writes(0.2, 1), "trans": trans})
    if nfr > 1 and rng.random() < 0.5:
        # nest the frames: the marks of an over frame are armed on entry to IT, not by moving among its unders
        for fi in range(1, nfr):
            if rng.random() < 0.6:
                frames[fi]["over"] = names[rng.randrange(0, fi)]
        # the first outline (frame 0 and its primary under frames) must be enterable at the start
        f = 0
        while f is not None:
            frames[f]["guard"] = []
            frames[f]["gneeds"] = []
            unders = [j for j in range(nfr) if frames[j].get("over") == names[f]]
            f = unders[0] if unders else None
    dens = rng.choice([0.15, 0.35, 0.6])
    ticks = [{"wb": gen_writes(dens), "wa": gen_writes(dens)} for _ in range(nticks)]
    return {"period": rng.choice(["0.125", "1.0", "0.1", "0.5"]), "inits": inits, "frames": frames, "ticks": ticks}


def gen_malformed(rng, tier):
    c = gen_case(rng, tier)
    f = rng.choice(c["frames"])
    t = rng.choice(f["trans"])
    r = rng.randrange(3)
    if r == 0:
        t["far"] = "=Zed"
    elif r == 1 and t["needs"]:
        t["needs"][0]["cl"] = "=Zed"
    elif r == 1:
        c["frames"][-1].setdefault("gneeds", []).append({"k": "u", "neg": 0, "s": 0, "cl": "=Zed", "by": ""})
    else:
        c["frames"][-1]["trans"].append({"far": "next", "needs": []})
    return c


class CHECK(core.Check):
    PROPERTY = "C20"
    LEAN_MODULES = ["IofloModel.Props.C20"]
    ENGINE = "marks"
    N_QUICK = 300
    N_THOROUGH = 12000
    N_SEARCH = 1500
    RULE = ("programs: 1-2 shares (single 'value' field or fields a,b; all initialised), one reader framer of 1-5 frames (half of the programs nest them with `in`; "
            "a third of the later frames with 1-2 entry needs `let me if [not] field in share` on the same shares the "
            "writers flip; 30% of the later frames also with 1-2 MARKER conditions as entry needs `let me if [not] share is "
            "updated|changed [in frame ..] [by ..]`, half of them sharing the Mark of an earlier transition need) with enter/recur/exit writes and 1-3 transitions each guarded by 0-2 marker needs (updated/changed, "
            "optional not, optional 'in frame [me|name]', optional 'by marker' incl. a marker equal to a frame name), "
            "a writer framer before and one after the reader in the tick order with random writes per tick (put = "
            "stamped update, same or different value; Share.change = unstamped, may add a field), 3-12 ticks, tick "
            "period 0.125/0.5/1.0/0.1; 4% programs with a dangling frame reference. non-trivial = built, and the "
            "reader both took and refused a transition after the first tick")
    TRUSTED = ["correspondence: the generated program is rendered as FloScript, built by ioflo's Builder and run by its "
               "Skedder; observed per tick: reader's active frame name and whether its recurred counter was reset "
               "(= it entered a frame); compared with the Lean model's trace (driver engine 'marks')",
               "time is modelled by the tick index: the code only compares stamps copied from store.stamp",
               "literal conversion of the FloScript values (C17), Data/odict field storage (C19), the frame machinery "
               "outside a flat single framer (C05-C08)"]
    PARTIAL = ["model covers one reader framer with nested frames (outline, ExEn) and marker needs both on transitions and "
               "as entry needs of frames; no auxiliaries, no marker needs on conditional-aux (suspender) acts, no entry "
               "needs on the framer's first outline; NaN field values are outside PyVal"]
    TECHNIQUE = "Lean 4 theorems over all histories (induction on event lists) + differential correspondence on generated FloScript programs"
    LEVEL_TEXT = ("Full proof on the model, history form, all histories: C20_updated_iff ('is updated' after any time-ordered "
                  "history of updates / entry resets / taken-transition resets is true exactly when some update is at or after "
                  "every entry reset and strictly after every transition reset) with the three named cases "
                  "(C20_updated_before_first_mark, C20_same_tick_entry_counts, C20_same_tick_transit_does_not); "
                  "C20_changed_before_first_snapshot, C20_changed_iff ('is changed' = some current field differs from or is "
                  "missing in the data as of the last reset), C20_not_changed_right_after_snapshot, C20_one_write_after_snapshot. "
                  "Machine part, all programs/logs of the flat reader-framer model: C20_machine_updated / C20_machine_changed "
                  "(every need evaluation in a world reached through a time-ordered log is that history query), "
                  "C20_run_is_log, C20_decision_world; C20_refused_transition_skipped / C20_taken_transition_admitted / "
                  "C20_refused_transition_keeps_mark (a transition whose conditions hold but whose target frame refuses "
                  "entry - `let me if` false - runs no marker act and changes no Mark: resets happen only on TAKEN "
                  "transitions); C20_shared_by_marker, C20_default_marker_key; and the placement done by NeedMarker._resolve: C20_enact_placement "
                  "(enact markers of a frame = the requests of the needs naming it, no duplicates), C20_tract_placement, "
                  "C20_fire_markers. Marker conditions used as ENTRY needs (beacts): C20_entry_need_has_no_tract (no transition "
                  "carries their tract marker, so nothing is ever reset for them 'on a taken transition'), "
                  "C20_entry_need_without_clause_never_arms (without an `in frame` clause no marker act exists for them at all), "
                  "C20_entry_needs_all_hold (an admitted entry had every marker entry need true in the decision world; with "
                  "C20_refused_transition_keeps_mark a refused entry leaves every Mark as armed); C20_enact_placement and "
                  "C20_tract_placement range over transition and entry needs alike. No _partial theorem. The model is tied to the code by building and running generated "
                  "FloScript programs (writers before and after the reader) with the real Builder and Skedder.")
    LEVEL_NOTE = ("Trusted: Lean kernel; axioms propext, Classical.choice, Quot.sound; the hand transcription of needing.py "
                  "(NeedUpdate, NeedChange, NeedMarker._resolve), acting.py (MarkerUpdate, MarkerChange, Transiter.action "
                  "order) and storing.py (Mark, Share.update/change) validated only by the correspondence runs; time as tick "
                  "index; the model has one reader framer (nested frames, transition and entry marker needs): auxiliaries, "
                  "marker needs on conditional-aux (suspender) acts, entry needs on the first outline and NaN values are not modelled.")

    def generate(self, rng, n, tier):
        for i in range(n):
            if rng.random() < 0.04:
                yield gen_malformed(rng, tier)
            else:
                yield gen_case(rng, tier)

    def exhaustive(self, tier):
        return exhaustive_cases(tier)

    def requests(self, case):
        return [drv_line(case)]

    def impl(self, case):
        acts = {}
        text = flo_script(case, acts)
        sk = flob.build(text, float(case["period"]))
        if sk is None:
            return ["ERR build"]
        rd = flob.framer_of(sk, "rd")
        obs = []

        def observe(store):
            obs.append("%s%s" % (rd.active.name if rd.active else "?", "*" if rd.recurred == 0 else "."))
        flob.run(sk, obs=observe, acts=acts, nticks=len(case["ticks"]))
        return [" ".join(obs)]

    def oracle(self, case, out):
        if len(out) != 1:
            return "no trace: %r" % (out,)
        if out[0].startswith("HARNESS-EXC"):
            return "implementation raised: " + out[0]
        return check_trace(case, out[0])

    def nontrivial(self, case, out):
        if not out or out[0].startswith(("ERR", "HARNESS")):
            return False
        toks = out[0].split()[1:]
        return any(t.endswith("*") for t in toks) and any(t.endswith(".") for t in toks)

    def bucket(self, case, out):
        if out and out[0] == "ERR build":
            return "build-error"
        ks = set(nd["k"] for f in case["frames"] for t in f["trans"] for nd in t["needs"])
        k = "updated+changed" if len(ks) == 2 else "updated" if ks == {"u"} else "changed" if ks == {"c"} else "no-needs"
        shared = any(nd["by"] for f in case["frames"] for t in f["trans"] for nd in t["needs"])
        named = any(nd["cl"] != "-" for f in case["frames"] for t in f["trans"] for nd in t["needs"])
        guarded = any(f.get("guard") for f in case["frames"])
        eneed = any(f.get("gneeds") for f in case["frames"])
        nested = any(f.get("over") for f in case["frames"])
        return "%s%s%s%s%s%s" % (k, ",by" if shared else "", ",in-frame" if named else "", ",entry-guard" if guarded else "",
                                 ",entry-marker-need" if eneed else "", ",nested" if nested else "")

    def shrink_candidates(self, case):
        def clone():
            return json.loads(json.dumps(case))
        n = len(case["ticks"])
        if n > 1:
            c = clone(); c["ticks"].pop(); yield c
        for i in range(n):
            for key in ("wb", "wa"):
                for j in range(len(case["ticks"][i][key])):
                    c = clone(); del c["ticks"][i][key][j]; yield c
        for fi, f in enumerate(case["frames"]):
            if f.get("over"):
                c = clone(); c["frames"][fi]["over"] = None; yield c
            for j in range(len(f.get("guard", []))):
                c = clone(); del c["frames"][fi]["guard"][j]; yield c
            for j in range(len(f.get("gneeds", []))):
                c = clone(); del c["frames"][fi]["gneeds"][j]; yield c
            for ctx in ("enter", "recur", "exit"):
                for j in range(len(f[ctx])):
                    c = clone(); del c["frames"][fi][ctx][j]; yield c
            for ti, t in enumerate(f["trans"]):
                if len(f["trans"]) > 1:
                    c = clone(); del c["frames"][fi]["trans"][ti]; yield c
                for ni in range(len(t["needs"])):
                    if len(t["needs"]) > 1:
                        c = clone(); del c["frames"][fi]["trans"][ti]["needs"][ni]; yield c
                    nd = t["needs"][ni]
                    if nd["neg"]:
                        c = clone(); c["frames"][fi]["trans"][ti]["needs"][ni]["neg"] = 0; yield c
        if case["period"] != "1.0":
            c = clone(); c["period"] = "1.0"; yield c


def exhaustive_cases(tier):
    """small complete families: one share, frames A,B; A guards `go B` with one need in every clause/by
    form, B returns unconditionally or by the same need; every placement of one or two updates in 4 ticks."""
    import itertools
    out = []
    clauses = ["-", "bare", "=B", "=A"]
    bys = ["", "m1"]
    kinds = ["u", "c"]
    slots = ["wb", "wa"]
    nt = 4
    places = [(i, s) for i in range(nt) for s in slots]
    combos = [()] + [(p,) for p in places] + (list(itertools.combinations(places, 2)) if tier == "thorough" else [])
    for k in kinds:
        for cl in clauses:
            for by in bys:
                for back in ("go", "need"):
                    for combo in combos:
                        ticks = [{"wb": [], "wa": []} for _ in range(nt)]
                        for n_, (i, s) in enumerate(combo):
                            ticks[i][s].append(["P", 0, [["value", ["I", 1 if k == "u" else n_ + 1]]]])
                        nd = {"k": k, "neg": 0, "s": 0, "cl": cl, "by": by}
                        frames = [
                            {"name": "A", "enter": [], "recur": [], "exit": [], "trans": [{"far": "=B", "needs": [nd]}]},
                            {"name": "B", "enter": [], "recur": [], "exit": [],
                             "trans": [{"far": "=A", "needs": [] if back == "go" else [dict(nd, cl="-")]}]}]
                        out.append({"period": "0.125", "inits": [[["value", ["I", 0]]]], "frames": frames, "ticks": ticks,
                                    "origin": "exhaustive"})
    # the same family with an entry guard on B (`let me if value in .s1`) that a writer opens at tick 2:
    # an update before that must still count when B finally admits the framer
    for k in kinds:
        for cl in clauses:
            for by in bys:
                for (i, sl) in places:
                    for open_at in (1, 2, 3):
                        ticks = [{"wb": [], "wa": []} for _ in range(nt + 1)]
                        ticks[i][sl].append(["P", 0, [["value", ["I", 1]]]])
                        ticks[open_at]["wb"].append(["P", 1, [["value", ["B", 1]]]])
                        nd = {"k": k, "neg": 0, "s": 0, "cl": cl, "by": by}
                        frames = [
                            {"name": "A", "guard": [], "enter": [], "recur": [], "exit": [], "trans": [{"far": "=B", "needs": [nd]}]},
                            {"name": "B", "guard": [[0, 1, "value"]], "enter": [], "recur": [], "exit": [], "trans": []}]
                        out.append({"period": "0.125", "inits": [[["value", ["I", 0]]], [["value", ["B", 0]]]],
                                    "frames": frames, "ticks": ticks, "origin": "exhaustive"})
    # both kinds of condition on one share with one mark key and the same named frame, in either order
    for first in kinds:
        second = "c" if first == "u" else "u"
        for cl in ("=A", "=B", "bare"):
            for by in bys:
                for combo in [()] + [(p,) for p in places]:
                    ticks = [{"wb": [], "wa": []} for _ in range(nt)]
                    for n_, (i, sl) in enumerate(combo):
                        ticks[i][sl].append(["P", 0, [["value", ["I", n_ + 1]]]])
                    n1 = {"k": first, "neg": 0, "s": 0, "cl": cl, "by": by}
                    n2 = {"k": second, "neg": 0, "s": 0, "cl": cl, "by": by}
                    frames = [
                        {"name": "A", "guard": [], "enter": [], "recur": [], "exit": [],
                         "trans": [{"far": "=B", "needs": [n1]}, {"far": "=C", "needs": [n2]}]},
                        {"name": "B", "guard": [], "enter": [], "recur": [], "exit": [], "trans": [{"far": "=A", "needs": []}]},
                        {"name": "C", "guard": [], "enter": [], "recur": [], "exit": [], "trans": [{"far": "=A", "needs": []}]}]
                    out.append({"period": "0.125", "inits": [[["value", ["I", 0]]]], "frames": frames, "ticks": ticks,
                                "origin": "exhaustive"})
    # nested: over frame O with unders A and B that hand over every tick; O (or A) carries the need naming O / A / B
    for k in kinds:
        for home in ("O", "A"):
            for cl in ("-", "=O", "=A", "=B", "bare"):
                for by in bys:
                    for combo in [()] + [(p,) for p in places]:
                        ticks = [{"wb": [], "wa": []} for _ in range(nt + 1)]
                        for n_, (i, sl) in enumerate(combo):
                            ticks[i][sl].append(["P", 0, [["value", ["I", n_ + 1]]]])
                        nd = {"k": k, "neg": 0, "s": 0, "cl": cl, "by": by}
                        tz = {"far": "=Z", "needs": [nd]}
                        frames = [
                            {"name": "O", "guard": [], "enter": [], "recur": [], "exit": [], "trans": [tz] if home == "O" else []},
                            {"name": "A", "over": "O", "guard": [], "enter": [], "recur": [], "exit": [],
                             "trans": ([tz] if home == "A" else []) + [{"far": "=B", "needs": []}]},
                            {"name": "B", "over": "O", "guard": [], "enter": [], "recur": [], "exit": [], "trans": [{"far": "=A", "needs": []}]},
                            {"name": "Z", "guard": [], "enter": [], "recur": [], "exit": [], "trans": [{"far": "=O", "needs": []}]}]
                        out.append({"period": "0.125", "inits": [[["value", ["I", 0]]]], "frames": frames, "ticks": ticks,
                                    "origin": "exhaustive"})
    # marker condition as ENTRY need of B (`let me if .s0 is updated|changed [in frame ...] [by m1]`), A hands over to B
    # every tick (or by the same condition sharing the Mark), B returns every tick: the entry need is armed only by
    # entries of the frame it names, a refused attempt arms nothing
    for k in kinds:
        for cl in clauses:
            for by in bys:
                for fwd in ("go", "need"):
                    for combo in [()] + [(p_,) for p_ in places] + (list(itertools.combinations(places, 2)) if tier == "thorough" else []):
                        ticks = [{"wb": [], "wa": []} for _ in range(nt + 1)]
                        for n_, (i_, sl) in enumerate(combo):
                            ticks[i_][sl].append(["P", 0, [["value", ["I", n_ + 1]]]])
                        nd = {"k": k, "neg": 0, "s": 0, "cl": cl, "by": by}
                        frames = [
                            {"name": "A", "guard": [], "gneeds": [], "enter": [], "recur": [], "exit": [],
                             "trans": [{"far": "=B", "needs": [] if fwd == "go" else [dict(nd, cl="-", by=by or "B")]}]},
                            {"name": "B", "guard": [], "gneeds": [nd], "enter": [], "recur": [], "exit": [],
                             "trans": [{"far": "=A", "needs": []}]}]
                        out.append({"period": "0.125", "inits": [[["value", ["I", 0]]]], "frames": frames, "ticks": ticks,
                                    "origin": "exhaustive"})
    return out
