"""C21 — comparison conditions evaluate exactly the written comparison.
Model:    lean/IofloModel/Model/Need.lean (Need.Check, NeedDirect/Indirect/Boolean.action, Nact, the need loop of
          Transiter.action, a frame re-evaluating its transition on elapsed/recurred)
Theorems: lean/IofloModel/Props/C21.lean
Tie, three kinds of case against the Lean driver `drv-need`:
  check   needing.Need.Check(state, comparison, goal, tolerance) on Python values
  acts    one clause through the real actors: NeedDirect / NeedIndirect / NeedBoolean instances on real
          storing.Share objects, wrapped in acting.Act or acting.Nact ('not')
  script  a FloScript `go hit if <needs>` built by the real Builder and run by the real Skedder; the shares are
          set after the build; observed: transition taken (and at which evaluation) or not, or TypeError out of run()
  guard   a FloScript whose conditions sit in an auxiliary framer — either a plain `aux worker` or a MOOT framer run
          as a clone (`aux worker as w1`) — as a `let me if <needs>` entry guard and a `go hit if <needs>` transition;
          observed: frame blocked / entered and transition taken or not / TypeError
  clones  a moot framer cloned two or three times (`aux worker as wa`, `… as wb`, …; the clones run one after the
          other, so their clocks start at different ticks) whose `go hit if <needs>` uses framer-relative operands
          (elapsed, recurred, `x of framer`, `y of framer`) that are given different values per instance; observed per
          instance: taken at which evaluation / not taken, compared with the model run per instance
  history one clause through the real actor, evaluated again and again by the SAME actor instance while the state and
          goal shares are changed in between by every write path the store offers: update(), change(), the .value
          setter, item assignment, create() (no effect on an existing field), deleting and re-adding the field, and
          replacing the whole record through the Share.data setter; every evaluation must give what the written
          condition gives on the CURRENT contents
Every case is in mode q (ints and dyadic floats: float arithmetic exact, compared with the exact-rational
instantiation the theorems are about) or mode f (decimal-grid and random doubles, on and one ulp next to the band
edges goal-|tol|, goal+|tol|: compared bit for bit with the same definitions instantiated at Lean Float).
Oracle:   the written comparison evaluated by this file on the Python values themselves, straight from
          the property text (window goal-|tol| <= state <= goal+|tol| for numbers — evaluated as written, in the
          arithmetic of the values: exact for ints/dyadics, IEEE for floats —, equality otherwise, != its
          complement, orderings compare, bare state = truthiness, not = negation, and = all true); where Python
          itself cannot order the operands (None, str against number) the property is silent and any outcome but a
          silent True/False flip is accepted: the oracle then requires TypeError.

value token: None -> null | bool -> true/false | number -> "i:<int>" or "q:<p>/<q>" (float, dyadic) or "x:<16 hex>" (any
double, by bit pattern) | string -> "s:<text>"
"""
import os, itertools, struct, math
from fractions import Fraction as F
import core

CMPS = ["==", "!=", "<", "<=", ">=", ">"]
# key -> (path, explicit field or None) as written in a script; 0/1 are the framer clocks
REFS = {2: (".a.x", None), 3: (".a.s", None), 4: (".g.v", "value"), 5: (".g.w", "lim"), 6: (".b.y", None)}


# framer-relative operands of the `clones` kind: key -> share name under .framer.<instance>.
RELS = {7: "x", 8: "y"}


def py(tok):
    if tok is None or isinstance(tok, bool):
        return tok
    k, v = tok.split(":", 1)
    if k == "i":
        return int(v)
    if k == "q":
        f = F(v)
        x = float(f)
        if F(x) != f:
            raise core.Infra("inexact " + tok)
        return x
    if k == "x":
        return struct.unpack(">d", bytes.fromhex(v))[0]
    if k == "s":
        return v
    raise core.Infra("bad token %r" % (tok,))


def X(v):
    """token of an arbitrary double"""
    return "x:" + struct.pack(">d", float(v)).hex()


def wire(tok, mode="q"):
    v = py(tok)
    if v is None:
        return "N"
    if isinstance(v, bool):
        return "B1" if v else "B0"
    if isinstance(v, str):
        return "S" + ",".join(str(ord(c)) for c in v)
    if mode == "f":
        if F(float(v)) != F(v):
            raise core.Infra("int not a double: %r" % (v,))
        b = struct.pack(">d", float(v)).hex()
        return "X" + ("0000000000000000" if b == "8000000000000000" else b)
    f = F(v)
    return "Q%d/%d" % (f.numerator, f.denominator)


def lit(tok):
    """FloScript literal"""
    v = py(tok)
    if v is None:
        return "None"
    if isinstance(v, bool):
        return "True" if v else "False"
    if isinstance(v, str):
        return '"%s"' % v
    if isinstance(v, int):
        return "%d" % v
    s = repr(v)
    if "e" in s or "E" in s or "n" in s:
        raise core.Infra("float literal not plain: " + s)
    return s


def spec_num(v):
    """number (bools are 0/1) or None"""
    if isinstance(v, bool):
        return F(int(v))
    if isinstance(v, (int, float)):
        return F(v)
    return None


def spec_check(state, cmp_, goal, tol):
    """the property text. returns True/False or 'TypeError'"""
    s, g, t = spec_num(state), spec_num(goal), spec_num(tol)
    if cmp_ in ("==", "!="):
        if s is not None and g is not None and t is not None:
            # the written formula, band edges in the arithmetic of the values themselves (exact for ints and
            # dyadics, IEEE double otherwise); the comparisons with the edges are exact
            lo, hi = goal - abs(tol), goal + abs(tol)
            r = (F(lo) <= s <= F(hi))
        else:                                   # "equality otherwise"
            sn, gn = spec_num(state), spec_num(goal)
            if sn is not None and gn is not None:
                r = (sn == gn)
            else:
                r = (type(state) is type(goal) and state == goal)
        return r if cmp_ == "==" else (not r)
    if cmp_ in ("<", "<=", ">=", ">"):
        if s is not None and g is not None:
            a, b = s, g
        elif isinstance(state, str) and isinstance(goal, str):
            a, b = [ord(c) for c in state], [ord(c) for c in goal]
        else:
            return "TypeError"
        return {"<": a < b, "<=": a <= b, ">=": a >= b, ">": a > b}[cmp_]
    return False


def spec_truthy(v):
    if v is None:
        return False
    if isinstance(v, bool):
        return v
    if isinstance(v, str):
        return len(v) > 0
    return F(v) != 0


class CHECK(core.Check):
    PROPERTY = "C21"
    LEAN_MODULES = ["IofloModel.Props.C21"]
    ENGINE = "need"
    N_QUICK = 1400
    N_THOROUGH = 30000
    N_SEARCH = 2000
    RULE = ("check: Need.Check on (state, op, goal, tol) with values from {None, bools, ints, dyadic floats, negative, "
            "strings incl. empty/prefix/case}, goal +- tol boundary and either side, all six operators and unknown "
            "operator strings; acts: one clause through NeedDirect/NeedIndirect/NeedBoolean on real Shares under Act or "
            "Nact; script: FloScript `go hit if [not] need [and …]` (1..3 clauses, direct and indirect goals, explicit "
            "fields, framer clocks elapsed/recurred) through Builder + Skedder, shares set after build; guard: the "
            "same conditions as `let me if` entry guard and `go` transition inside an auxiliary framer that is either plain "
            "or a moot framer run as a clone (`aux worker as w1`); clones: a moot framer cloned 2 or 3 times in sequence, "
            "`go hit if` on framer-relative operands (elapsed, recurred, `x of framer`) with different values per "
            "instance, every instance compared with its own model run; every need FORM the Builder accepts and the model reaches "
            "(framer state elapsed / recurred bare, `re`, `re me`, `re <framer>`; share need boolean / direct / indirect, with "
            "and without field; `<tasker> is running|stopped|…|done`) x plain / `not` x alone / first / last of a conjunction "
            "as an exhaustive table, and the spellings mixed into the random scripts; history: one clause evaluated repeatedly by the same actor "
            "instance while its state / goal shares are rewritten through update, change, .value, item assignment, "
            "create, delete+re-add and whole-record replacement via the Share.data setter, every evaluation compared "
            "with the condition on the current contents; ints beyond 2**53 (neighbouring values, goal direct "
            "and indirect, mostly WITHOUT a tolerance clause so that the Builder's default tolerance is what reaches "
            "Need.Check) in 20% of the q-mode condition lists of every script-level kind plus an exhaustive table. "
            "30% of the random cases of every kind in mode f: "
            "numbers from decimal grids (k/10, k/20, k/100) and random doubles, the state on the computed band edges "
            "goal-|tol|, goal+|tol|, one ulp inside/outside them (math.nextafter) and on decimal neighbours. "
            "Bounded-exhaustive: check over a 13-value set x 7 operators x 3 tolerances (thorough: 17 values x 8 x 5). "
            "non-trivial = the result is True/False (not an error) and the operands are not identical tokens; "
            "distinct by the whole case")
    TRUSTED = ["correspondence: needing.Need.Check, the NeedDirect/NeedIndirect/NeedBoolean actors, acting.Act/Nact and "
               "(script cases) building.Builder + skedding.Skedder + acting.Transiter run in-process; compared with the "
               "Lean driver 'need' (mode q: exact rationals; mode f: Lean Float = IEEE binary64, bit patterns exchanged)",
               "script cases: shares are assigned from Python after build() (literal conversion of `put` is C17's subject); "
               "goal literals go through Convert2StrBoolCoordNum; the framer clocks at the j-th evaluation are "
               "elapsed = j*period, recurred = j (measured, C11's subject)",
               "Python semantics of == < <= on None/bool/int/float/str as transcribed in pyEq/pyLt?/pyLe?; exactness of "
               "float arithmetic on the dyadic values used"]
    PARTIAL = ["values outside None/bool/int/float/str (complex, points, NaN, inf) are outside the model",
               "the theorems are about exact rational arithmetic; for doubles that are not dyadic the band edges "
               "goal -/+ |tol| round: that behaviour is pinned by the Float instantiation of the same definitions "
               "(compared bit for bit), not proved about",
               "ints beyond 2^53 mixed with floats (Python compares them exactly, the Float instantiation cannot)"]
    TECHNIQUE = ("Lean 4 theorems for all Python values in all positions (case analysis, induction over the need list and "
                 "over the ticks) + differential correspondence at three levels (function, actors, FloScript run)")
    LEVEL_TEXT = ("Full proof on the model: == on numbers <-> goal-|tol| <= state <= goal+|tol| (also |state-goal| <= |tol|; "
                  "tol 0 <-> equal), Python equality otherwise, != the complement for all values, the four orderings on "
                  "numbers and (lexicographic) strings and TypeError exactly on incomparable operands, tolerance ignored by "
                  "orderings, unknown operator false, bare state = truthiness, indirect = direct with the other field's "
                  "value, not negates, a need list is the left-to-right conjunction stopping at the first false "
                  "(characterised for true / false / error), and a frame's transition fires at the first evaluation whose "
                  "clocks satisfy the needs.")
    LEVEL_NOTE = ("Trusted: Lean kernel; axioms propext, Classical.choice, Quot.sound; hand transcription of Need.Check and "
                  "the actors validated by the correspondence runs only; the FloScript level additionally trusts the "
                  "harness's script template and the measured clock values; exact rational arithmetic (dyadic inputs).")

    # ------------------------------------------------------------------ values
    NUMS = ["i:0", "i:1", "i:-1", "i:5", "q:1/2", "q:-1/2", "q:11/2", "q:9/2", "q:5/1", "q:6/1", "i:6", "q:0/1",
            "q:21/4", "q:-3/4", "i:100", "q:1/8", "q:1/4", "q:3/8"]
    STRS = ["s:", "s:a", "s:ab", "s:abc", "s:b", "s:B", "s:Zeta", "s:alpha", "s:hello", "s:bye", "s:5", "s:not"]
    OTHERS = [None, True, False]

    def _val(self, rng, kind=None):
        k = kind or rng.choice(["num", "num", "num", "str", "other"])
        if k == "num":
            if rng.random() < 0.5:
                return rng.choice(self.NUMS)
            g = rng.choice([1, 2, 4, 8])
            v = F(rng.randint(-6 * g, 6 * g), g)
            return "i:%d" % v if v.denominator == 1 and rng.random() < 0.5 else "q:%d/%d" % (v.numerator, v.denominator)
        if k == "str":
            return rng.choice(self.STRS)
        return rng.choice(self.OTHERS)

    def _near(self, rng, goal, tol):
        """a state on or next to the edges of goal +- tol"""
        g, t = spec_num(py(goal)), spec_num(py(tol))
        if g is None or t is None:
            return self._val(rng)
        edge = g + rng.choice([-1, 1]) * abs(t)
        v = edge + rng.choice([0, 0, F(1, 8), -F(1, 8), F(1, 1024), -F(1, 1024)])
        return "i:%d" % v if v.denominator == 1 and rng.random() < 0.4 else "q:%d/%d" % (v.numerator, v.denominator)

    def _fnum(self, rng):
        r = rng.random()
        if r < 0.45:
            return rng.choice([0.1, 0.2, 0.3, 0.4, 0.15, 0.05, 0.25, 0.5, 0.7, 0.8, 1.1, 1.4, 0.6, 0.9, 1.2, 2.3, -0.3, -0.4])
        if r < 0.7:
            return rng.randint(-40, 40) / rng.choice([10, 20, 100])
        if r < 0.85:
            return float(rng.randint(-5, 5))
        return rng.uniform(-3, 3)

    def _ftriple(self, rng):
        """(state, goal, tol) doubles with the state on / next to the computed band edges"""
        goal = self._fnum(rng)
        tol = rng.choice([0.1, 0.1, 0.05, 0.3, 0.25, 0.2, -0.1, 0.7, abs(self._fnum(rng)), 0.0])
        lo, hi = goal - abs(tol), goal + abs(tol)
        edge = rng.choice([lo, hi])
        r = rng.random()
        if r < 0.3:
            state = edge
        elif r < 0.6:
            state = math.nextafter(edge, rng.choice([-math.inf, math.inf]))
        elif r < 0.8:
            state = round(edge, rng.choice([1, 2, 3]))            # the decimal neighbour (0.4 for 0.30000000000000004 …)
        elif r < 0.9:
            state = goal
        else:
            state = self._fnum(rng)
        return state, goal, tol

    def _ftok(self, v):
        s = repr(float(v))
        if "e" in s or "n" in s or "i" in s:                      # keep FloScript literals plain
            v = round(float(v), 6)
        return X(v)

    def _fclause(self, rng, env):
        """a comparison clause on doubles; fills env"""
        state, goal, tol = self._ftriple(rng)
        k = rng.choice([2, 4, 5, 6])
        if rng.random() < 0.6:
            g = {"lit": self._ftok(goal)}
        else:
            gk = rng.choice([x for x in (2, 4, 5, 6) if x != k])
            g = {"ref": gk}
            env[str(gk)] = self._ftok(goal)
        env[str(k)] = self._ftok(state)
        cmp_ = rng.choice(["==", "==", "!=", "!=", "<", "<=", ">=", ">"])
        return {"neg": rng.random() < 0.3, "kind": "c", "k": k, "cmp": cmp_, "goal": g, "tol": self._ftok(tol),
                "showtol": True}

    def _triple(self, rng):
        goal = self._val(rng)
        tol = rng.choice(["i:0", "i:0", "q:1/2", "q:-1/2", "i:1", "q:1/8", self._val(rng, "num"), None, "s:x", True])
        state = self._near(rng, goal, tol) if rng.random() < 0.6 else self._val(rng)
        if rng.random() < 0.15:
            state = goal
        return state, goal, tol

    def _clause(self, rng, clocks=True):
        """clause dict + the env entries it wants"""
        neg = rng.random() < 0.3
        if rng.random() < 0.15:
            return {"neg": neg, "kind": "b", "k": rng.choice([2, 3, 4, 5, 6])}
        if clocks and rng.random() < 0.3:
            k = rng.choice([0, 1])
            goal = rng.choice(["q:1/8", "q:1/4", "q:3/8", "i:0", "i:1", "i:2", "i:3", "q:1/2", "i:50"])
            g = {"lit": goal} if rng.random() < 0.8 else {"ref": rng.choice([2, 4, 5, 6])}
            return {"neg": neg, "kind": "c", "k": k, "cmp": rng.choice(CMPS), "goal": g,
                    "tol": rng.choice(["i:0", "i:0", "q:1/8", "q:-1/8"]), "re": rng.choice(self.RE)}
        if clocks and rng.random() < 0.08:                 # clocks=True only in the `script` kind (framer main)
            text = rng.choice(sorted(self.ATOMS))
            return {"neg": neg, "kind": "a", "text": text, "truth": self.ATOMS[text]}
        k = rng.choice([2, 3, 4, 5, 6])
        g = {"lit": self._val(rng)} if rng.random() < 0.65 else {"ref": rng.choice([2, 3, 4, 5, 6])}
        tol = rng.choice(["i:0", "i:0", "q:1/2", "q:-1/2", "i:1", "q:1/8"])
        return {"neg": neg, "kind": "c", "k": k, "cmp": rng.choice(CMPS), "goal": g, "tol": tol}

    def _env(self, rng, clauses):
        env = {}
        for c in clauses:
            if c["kind"] == "a":
                continue
            ks = [c["k"]] + ([c["goal"]["ref"]] if c["kind"] == "c" and "ref" in c["goal"] else [])
            for k in ks:
                if k >= 2 and str(k) not in env and rng.random() < 0.9:      # 10%: never assigned -> created 0.0
                    env[str(k)] = self._val(rng)
        # steer towards boundaries: make a state sit next to its goal window
        for c in clauses:
            if c["kind"] == "c" and c["k"] >= 2 and rng.random() < 0.5:
                goal = c["goal"].get("lit") if "lit" in c["goal"] else env.get(str(c["goal"]["ref"]), "q:0/1")
                env[str(c["k"])] = self._near(rng, goal, c["tol"]) if rng.random() < 0.8 else goal
        return env

    def _clauses_env(self, rng, mode, nmax, clocks, big=None):
        """1..nmax clauses + env, in the given mode"""
        if mode == "f":
            env = {}
            cs = []
            for _ in range(rng.choice([1, 1, 2, 3][:max(1, nmax + 1)])):
                if cs and rng.random() < 0.3:
                    cs.append(self._clause(rng, clocks=clocks))           # mixed in: ints / strings / clocks
                else:
                    cs.append(self._fclause(rng, env))
            cs = cs[:nmax]
            for c in cs:                                                  # values for the non-f clauses
                if c["kind"] == "a":
                    continue
                ks = [c["k"]] + ([c["goal"]["ref"]] if c["kind"] == "c" and "ref" in c["goal"] else [])
                for k in ks:
                    if k >= 2 and str(k) not in env:
                        env[str(k)] = self._val(rng)
            return cs, env
        if big is None:
            big = rng.random() < 0.2
        if big:                                        # ints beyond 2**53, mostly without a tolerance clause; the whole
            env = {}                                   # list stays all-integer (a float tolerance would round them)
            cs = [self._bigclause(rng, env) for _ in range(rng.choice([1, 1, 2][:max(1, nmax)]))][:nmax]
            return cs, env
        cs = [self._clause(rng, clocks=clocks) for _ in range(rng.choice([1, 1, 2, 2, 3][:max(1, nmax + 2)]))][:nmax]
        return cs, self._env(rng, cs)

    BIG = [2 ** 53, 2 ** 63, 1700000000000000000, 10 ** 20]

    def _bigint(self, rng, near=None):
        """an int beyond 2**53 (not all of them doubles); `near`: a neighbour of that int"""
        if near is not None:
            return "i:%d" % (py(near) + rng.choice([0, 0, 0, 1, -1, 2, -2]))
        return "i:%d" % (rng.choice(self.BIG) + rng.choice([0, 1, 1, 2, 3, -1]))

    def _bigclause(self, rng, env):
        """`state <op> goal` on ints beyond 2**53; tolerance absent (the Builder's default), an explicit 0 or a
        small int — all-integer arithmetic, exact in Python"""
        goal = self._bigint(rng)
        k = rng.choice([2, 4, 5, 6])
        if rng.random() < 0.6:
            g = {"lit": goal}
        else:
            gk = rng.choice([x for x in (2, 4, 5, 6) if x != k])
            g = {"ref": gk}
            env[str(gk)] = goal
        env[str(k)] = self._bigint(rng, near=goal)
        t = rng.random()
        c = {"neg": rng.random() < 0.3, "kind": "c", "k": k, "cmp": rng.choice(["==", "==", "!=", "!=", "<", "<=", ">=", ">"]),
             "goal": g, "tol": "i:0"}
        if t < 0.25:
            c["showtol"] = True                       # written `+- 0`
        elif t < 0.4:
            c["tol"] = rng.choice(["i:1", "i:2", "i:-1"])
        return c

    def _rclause(self, rng):
        """a clause on framer-relative operands (clocks, `x of framer`)"""
        neg = rng.random() < 0.25
        r = rng.random()
        if r < 0.35:
            k = rng.choice([0, 1])
            goal = rng.choice(["q:1/4", "q:3/8", "q:1/2", "i:2", "i:3", "q:1/8", "i:1"])
            g = {"lit": goal} if rng.random() < 0.7 else {"ref": rng.choice([7, 8])}
            return {"neg": neg, "kind": "c", "k": k, "cmp": rng.choice([">=", ">=", ">", "==", "<=", "<", "!="]), "goal": g,
                    "tol": rng.choice(["i:0", "i:0", "q:1/8"]), "re": rng.choice([None, "re", "re me"])}
        if r < 0.45:
            return {"neg": neg, "kind": "b", "k": rng.choice([7, 8])}
        k = rng.choice([7, 8])
        g = {"lit": rng.choice(["i:3", "i:1", "q:5/2", "i:0", "s:a", "i:2"])} if rng.random() < 0.6 else \
            {"ref": rng.choice([x for x in (7, 8, 4) if x != k])}
        return {"neg": neg, "kind": "c", "k": k, "cmp": rng.choice(CMPS), "goal": g,
                "tol": rng.choice(["i:0", "i:0", "q:1/2", "i:1"])}

    RELVALS = ["i:0", "i:1", "i:2", "i:3", "q:5/2", "q:7/2", "i:5", "q:1/4", "q:3/8", "s:a", "s:b", None, True]

    def _clones_case(self, rng):
        n = rng.choice([2, 2, 3])
        cs = [self._rclause(rng) for _ in range(rng.choice([1, 1, 2]))]
        env = {"4": self._val(rng, "num")} if any(c["kind"] == "c" and c["goal"].get("ref") == 4 for c in cs) else {}
        rel = []
        for _ in range(n):
            e = {}
            for k in ("7", "8"):
                if rng.random() < 0.9:
                    e[k] = rng.choice(self.RELVALS[:9]) if rng.random() < 0.85 else rng.choice(self.RELVALS)
            rel.append(e)
        return {"kind": "clones", "mode": "q", "clauses": cs, "env": env, "rel": rel, "period": "q:1/8",
                "limit": rng.choice([3, 4])}

    WRITES = ["update", "change", "value", "item", "create", "readd", "data", "data", "data+"]

    def _history_case(self, rng):
        mode = "f" if rng.random() < 0.2 else "q"
        big = (mode == "q" and rng.random() < 0.1)
        cs, env = self._clauses_env(rng, mode, 1, clocks=False, big=big)
        c = cs[0]
        keys = [c["k"]] + ([c["goal"]["ref"]] if c["kind"] == "c" and "ref" in c["goal"] else [])
        for k in keys:
            env.setdefault(str(k), self._val(rng, "num") if mode == "q" and not big else
                           (self._ftok(self._fnum(rng)) if mode == "f" else self._bigint(rng)))
        steps = []
        for _ in range(rng.choice([1, 2, 3, 4])):
            writes = []
            for k in keys:
                if rng.random() < 0.7:
                    how = rng.choice(self.WRITES)
                    if how == "value" and REFS[k][1] not in (None, "value"):
                        how = "item"
                    old = env[str(k)]
                    r = rng.random()
                    if big:
                        new = self._bigint(rng, near=old)
                    elif mode == "f":
                        new = self._ftok(self._fnum(rng)) if r < 0.7 else old
                    elif r < 0.5 and c["kind"] == "c":
                        goal = c["goal"].get("lit") if "lit" in c["goal"] else env[str(c["goal"]["ref"])]
                        new = self._near(rng, goal, c["tol"])
                    else:
                        new = self._val(rng)
                    writes.append([k, how, new])
            steps.append(writes)
        return {"kind": "history", "mode": mode, "clause": c, "env": env, "steps": steps}

    def generate(self, rng, n, tier):
        for i in range(max(40, n // 8)):
            yield self._history_case(rng)
        for i in range(max(30, n // 10)):
            yield self._clones_case(rng)
        n_script = max(40, n // 8)
        n_guard = max(40, n // 8)
        n_acts = n // 4
        for i in range(n - n_script - n_acts - n_guard):
            mode = "f" if rng.random() < 0.3 else "q"
            if mode == "f":
                st, g, t = self._ftriple(rng)
                s_, g_, t_ = X(st), X(g), X(t)
                if rng.random() < 0.1:
                    g_ = rng.choice(["i:0", "i:1", None, "s:a", True])   # mixed operands
                cmp_ = rng.choice(["==", "==", "!=", "<", "<=", ">=", ">"])
            elif rng.random() < 0.08:
                g_ = self._bigint(rng)
                s_, t_ = self._bigint(rng, near=g_), rng.choice(["i:0", "i:0", "i:1", True, False])
                cmp_ = rng.choice(CMPS)
            else:
                s_, g_, t_ = self._triple(rng)
                cmp_ = rng.choice(CMPS) if rng.random() < 0.95 else rng.choice(["=", "=>", "is", "", "eq"])
            yield {"kind": "check", "mode": mode, "state": s_, "cmp": cmp_, "goal": g_, "tol": t_}
        for i in range(n_acts):
            mode = "f" if rng.random() < 0.3 else "q"
            cs, env = self._clauses_env(rng, mode, 1, clocks=False)
            yield {"kind": "acts", "mode": mode, "clause": cs[0], "env": env}
        for i in range(n_script):
            mode = "f" if rng.random() < 0.3 else "q"
            cs, env = self._clauses_env(rng, mode, 3, clocks=True)
            yield {"kind": "script", "mode": mode, "clauses": cs, "env": env, "period": "q:1/8", "limit": rng.choice([3, 5])}
        for i in range(n_guard):
            mode = "f" if rng.random() < 0.3 else "q"
            big = (mode == "q" and rng.random() < 0.2)
            guard, env1 = self._clauses_env(rng, mode, 2, clocks=False, big=big)
            if rng.random() < 0.15:
                guard, env1 = [], {}
            cs, env2 = self._clauses_env(rng, mode, 2, clocks=False, big=big)
            env = dict(env2)
            env.update(env1)                                              # the guard's boundary values win
            if guard and rng.random() < 0.5:                              # make sure negated guards are frequent
                guard[0] = dict(guard[0], neg=True)
            yield {"kind": "guard", "mode": mode, "clone": rng.random() < 0.6, "guard": guard, "clauses": cs, "env": env}

    def exhaustive(self, tier):
        if tier == "thorough":
            vals = [None, True, False, "i:0", "i:1", "i:5", "q:11/2", "q:9/2", "q:5/1", "i:6", "q:-1/2", "q:21/4",
                    "s:", "s:a", "s:ab", "s:B", "s:5"]
            tols = ["i:0", "q:1/2", "q:-1/2", None, "s:x"]
            cmps = CMPS + ["=", "is"]
        else:
            vals = [None, True, False, "i:0", "i:1", "i:5", "q:11/2", "q:9/2", "i:6", "s:", "s:a", "s:ab", "s:B"]
            tols = ["i:0", "q:1/2", None]
            cmps = CMPS + ["="]
        for s, g, t, c in itertools.product(vals, vals, tols, cmps):
            yield {"kind": "check", "mode": "q", "state": s, "cmp": c, "goal": g, "tol": t}
        for c in self._big_table(tier):
            yield c
        for c in self._form_table():
            yield c
        # the decimal band-edge table (doubles): every pair state/goal/tol from small decimal sets, == and !=
        decs = [0.1, 0.2, 0.3, 0.4, 0.15, 0.05, 0.25, 0.5, 0.8, 1.1, 1.4]
        tols = [0.1, 0.05, 0.3, 0.25]
        if tier == "quick":
            decs, tols = decs[:8], tols[:3]
        for g in decs:
            for t in tols:
                edges = {g - t, g + t, round(g - t, 2), round(g + t, 2)}
                for e in list(edges):
                    edges.add(math.nextafter(e, math.inf))
                    edges.add(math.nextafter(e, -math.inf))
                for st in sorted(edges):
                    for c in ("==", "!="):
                        yield {"kind": "check", "mode": "f", "state": X(st), "cmp": c, "goal": X(g), "tol": X(t)}

    def _forms(self):
        """one clause per need FORM that Builder.makeNeed accepts and this model reaches (its branches: `is` participle
        -> status / done; `state re [framer]` -> framer need; bare elapsed / recurred (deprecated); share need without
        comparison -> boolean, with a literal goal -> direct, with a path goal -> indirect; each with and without an
        explicit field), each with the share values that make it true / false"""
        out = []
        for k in (0, 1):
            for re_ in self.RE:
                goal = "q:1/4" if k == 0 else "i:2"        # false at the 1st evaluation, true at the 2nd
                out.append(({"kind": "c", "k": k, "cmp": ">=", "goal": {"lit": goal}, "tol": "i:0", "re": re_}, [{}]))
            out.append(({"kind": "c", "k": k, "cmp": ">=", "goal": {"ref": 4}, "tol": "i:0", "re": "re me"},
                        [{"4": "q:1/4" if k == 0 else "i:2"}]))
        out.append(({"kind": "c", "k": 2, "cmp": "==", "goal": {"lit": "i:3"}, "tol": "i:0"}, [{"2": "i:3"}, {"2": "i:4"}]))
        out.append(({"kind": "c", "k": 2, "cmp": "==", "goal": {"lit": "q:3/1"}, "tol": "q:1/2", "showtol": True},
                    [{"2": "q:7/2"}, {"2": "i:4"}]))
        out.append(({"kind": "c", "k": 5, "cmp": "<", "goal": {"lit": "s:b"}, "tol": "i:0"}, [{"5": "s:a"}, {"5": "s:c"}]))
        out.append(({"kind": "c", "k": 2, "cmp": "!=", "goal": {"ref": 6}, "tol": "i:0"},
                    [{"2": "i:1", "6": "i:2"}, {"2": "i:2", "6": "i:2"}]))
        out.append(({"kind": "c", "k": 4, "cmp": ">", "goal": {"ref": 5}, "tol": "i:0"},
                    [{"4": "i:5", "5": "i:2"}, {"4": "i:1", "5": "i:2"}]))
        out.append(({"kind": "b", "k": 3}, [{"3": "s:x"}, {"3": "s:"}]))
        out.append(({"kind": "b", "k": 5}, [{"5": "i:1"}, {"5": "i:0"}]))
        for text in sorted(self.ATOMS):
            out.append(({"kind": "a", "text": text, "truth": self.ATOMS[text]}, [{}]))
        return out

    def _form_table(self):
        """need form x plain / `not` x alone / first / last of a conjunction (the partner is a true share need)"""
        partner = {"neg": False, "kind": "c", "k": 6, "cmp": "==", "goal": {"lit": "i:7"}, "tol": "i:0"}
        for form, envs in self._forms():
            for env in envs:
                for neg in (False, True):
                    c = dict(form, neg=neg)
                    for pos in ("alone", "first", "last"):
                        if form["kind"] == "c" and form.get("k") == 2 and pos != "alone":
                            pass
                        cs = [c] if pos == "alone" else [c, partner] if pos == "first" else [partner, c]
                        e = dict(env)
                        if pos != "alone":
                            e["6"] = "i:7"
                        yield {"kind": "script", "mode": "q", "clauses": cs, "env": e, "period": "q:1/8", "limit": 3}

    def _big_table(self, tier):
        """conditions written without a tolerance clause (and with `+- 0`) on neighbouring ints beyond 2**53,
        through the Builder: direct and indirect goal, plain and negated, == and !="""
        bases = [2 ** 53, 1700000000000000000] if tier == "quick" else [2 ** 53, 2 ** 63, 1700000000000000000, 10 ** 20]
        for B in bases:
            goal = B + 1
            for st in (B, B + 1, B + 2):
                for cmp_ in ("==", "!="):
                    for neg in (False, True):
                        for indirect in (False, True):
                            for showtol in (False, True):
                                c = {"neg": neg, "kind": "c", "k": 2, "cmp": cmp_, "tol": "i:0",
                                     "goal": {"ref": 4} if indirect else {"lit": "i:%d" % goal}}
                                if showtol:
                                    c["showtol"] = True
                                env = {"2": "i:%d" % st}
                                if indirect:
                                    env["4"] = "i:%d" % goal
                                yield {"kind": "script", "mode": "q", "clauses": [c], "env": env, "period": "q:1/8", "limit": 1}

    # ------------------------------------------------------------------ implementation
    def impl(self, case):
        kind = case["kind"]
        if kind == "check":
            from ioflo.base import needing
            try:
                r = needing.Need.Check(py(case["state"]), case["cmp"], py(case["goal"]), py(case["tol"]))
            except TypeError:
                return ["E TypeError"]
            return ["T" if r is True else "F" if r is False else "? %r" % (r,)]
        if kind == "acts":
            return [self._impl_acts(case)]
        if kind == "guard":
            return [self._impl_guard(case)]
        if kind == "clones":
            return self._impl_clones(case)
        if kind == "history":
            return self._impl_history(case)
        return [self._impl_script(case)]

    def _impl_acts(self, case):
        from ioflo.base import needing, acting, storing
        store = storing.Store(stamp=0.0)
        shares = {}

        def share(k):
            path, field = REFS[k]
            if k not in shares:
                sh = store.create(path)
                field = field or "value"
                sh[field] = py(case["env"][str(k)]) if str(k) in case["env"] else 0.0   # what _resolve creates
                shares[k] = (sh, field)
            return shares[k]

        c = case["clause"]
        st, sf = share(c["k"])
        if c["kind"] == "b":
            actor, parms = needing.NeedBoolean(store=store), dict(state=st, stateField=sf)
        elif "lit" in c["goal"]:
            actor = needing.NeedDirect(store=store)
            parms = dict(state=st, stateField=sf, comparison=c["cmp"], goal=py(c["goal"]["lit"]), tolerance=py(c["tol"]))
        else:
            gs, gf = share(c["goal"]["ref"])
            actor = needing.NeedIndirect(store=store)
            parms = dict(state=st, stateField=sf, comparison=c["cmp"], goal=gs, goalField=gf, tolerance=py(c["tol"]))
        act = (acting.Nact if c["neg"] else acting.Act)(actor=actor, parms=parms)
        try:
            r = act()
        except TypeError:
            return "E TypeError"
        return "T" if r is True else "F" if r is False else "? %r" % (r,)

    # status / done needs of the framer itself while it runs (`<tasker> is <participle>`): text -> truth
    ATOMS = {"main is running": True, "me is running": True, "main is stopped": False, "main is aborted": False,
             "main is readied": False, "main is started": False, "main is done": False}
    RE = [None, "re", "re me", "re main"]               # spellings of a framer-state need

    @staticmethod
    def _state_text(k, re_=None):
        if k in (0, 1):
            return ("elapsed" if k == 0 else "recurred") + ((" " + re_) if re_ else "")
        if k in RELS:
            return "%s of framer" % RELS[k]
        path, field = REFS[k]
        return "%s in %s" % (field, path) if field else path

    def cond_text(self, clauses):
        parts = []
        for c in clauses:
            s = "not " if c["neg"] else ""
            if c["kind"] == "a":
                parts.append(s + c["text"])
                continue
            s += self._state_text(c["k"], c.get("re"))
            if c["kind"] == "c":
                s += " " + c["cmp"] + " "
                s += lit(c["goal"]["lit"]) if "lit" in c["goal"] else self._state_text(c["goal"]["ref"])
                if py(c["tol"]) != 0 or c.get("showtol"):
                    s += " +- " + lit(c["tol"])
            parts.append(s)
        return " and ".join(parts)

    GUARD_TPL = ("house test\n\nframer main be active first start\n   frame timeout\n      go abort if elapsed >= 1\n"
                 "      frame start in timeout\n         put 0 into .out.r\n         put 0 into .out.reached\n"
                 "         %(auxline)s\n         go fin if aux %(auxname)s is done\n   frame fin\n      bid stop all\n"
                 "   frame abort\n      put 9 into .out.r\n      bid stop all\n\n"
                 "framer worker be %(kind)s first A\n   frame A\n      go next\n   frame B\n%(guard)s"
                 "      put 1 into .out.reached\n      go hit if %(cond)s\n      go miss\n   frame hit\n"
                 "      put 1 into .out.r\n      done\n   frame miss\n      put 2 into .out.r\n      done\n")

    def guard_text(self, case):
        clone = case["clone"]
        return self.GUARD_TPL % {
            "auxline": "aux worker as w1" if clone else "aux worker", "auxname": "w1" if clone else "worker",
            "kind": "moot" if clone else "aux",
            "guard": ("      let me if %s\n" % self.cond_text(case["guard"])) if case["guard"] else "",
            "cond": self.cond_text(case["clauses"])}

    def _run_flo(self, text, case):
        """build + run a script; returns (store | None, error string | None)"""
        from ioflo.base import skedding
        d = os.path.join(core.SCRATCH, "c21-%d" % os.getpid())
        os.makedirs(d, exist_ok=True)
        path = os.path.join(d, "need.flo")
        with open(path, "w") as f:
            f.write(text)
        try:
            sk = skedding.Skedder(name="c21", period=0.125, real=False, filepath=path)
            if not sk.build():
                return None, "BUILD-FAILED"
            store = sk.houses[0].store
            for k, tok in case["env"].items():
                p, field = REFS[int(k)]
                sh = store.fetch(p)
                if sh is None:
                    continue                      # not referenced by this script
                sh[field or "value"] = py(tok)
            try:
                sk.run()
            except TypeError:
                return None, "E TypeError"
            return store, None
        finally:
            try:
                os.remove(path)
                os.rmdir(d)
            except OSError:
                pass

    def clones_text(self, case):
        tags = ["wa", "wb", "wc"][:len(case["rel"])]
        main = ""
        for i, t in enumerate(tags):
            nxt = "m%d" % (i + 1) if i + 1 < len(tags) else "fin"
            main += ("   frame m%d\n      aux worker as %s\n      go %s if aux %s is done\n"
                     "      go fail if elapsed >= 4\n" % (i, t, nxt, t))
        return ("house test\n\nframer main be active first m0\n" + main +
                "   frame fin\n      bid stop all\n   frame fail\n      put 1 into .out.fail\n      bid stop all\n\n"
                "framer worker be moot first A\n   frame A\n      put 0 into n of framer\n      put 0 into r of framer\n"
                "      go next\n   frame B\n      recur\n         inc n of framer with 1\n"
                "      go hit if %s\n      go miss if n of framer >= %d\n   frame hit\n      put 1 into r of framer\n"
                "      done\n   frame miss\n      put 2 into r of framer\n      done\n"
                % (self.cond_text(case["clauses"]), case["limit"]))

    def _impl_clones(self, case):
        from ioflo.base import skedding
        tags = ["wa", "wb", "wc"][:len(case["rel"])]
        d = os.path.join(core.SCRATCH, "c21-%d" % os.getpid())
        os.makedirs(d, exist_ok=True)
        path = os.path.join(d, "clones.flo")
        with open(path, "w") as f:
            f.write(self.clones_text(case))
        try:
            sk = skedding.Skedder(name="c21", period=py(case["period"]), real=False, filepath=path)
            if not sk.build():
                return ["BUILD-FAILED"] * len(tags)
            store = sk.houses[0].store
            for k, tok in case["env"].items():
                p, field = REFS[int(k)]
                sh = store.fetch(p)
                if sh is not None:
                    sh[field or "value"] = py(tok)
            for t, e in zip(tags, case["rel"]):
                for k, tok in e.items():
                    sh = store.fetch(".framer.main_%s.%s" % (t, RELS[int(k)]))
                    if sh is not None:                    # only operands the script mentions exist
                        sh["value"] = py(tok)
            raised = False
            try:
                sk.run()
            except TypeError:
                raised = True
            out = []
            for t in tags:
                r = store.fetch(".framer.main_%s.r" % t)
                n = store.fetch(".framer.main_%s.n" % t)
                r, n = (r["value"] if r is not None else None), (n["value"] if n is not None else None)
                if out and out[-1] in ("E TypeError", "-"):
                    out.append("-")
                elif r == 1:
                    out.append("hit %d" % n)
                elif r == 2:
                    out.append("miss")
                elif raised:
                    out.append("E TypeError")
                else:
                    out.append("? r=%r n=%r" % (r, n))
            return out
        finally:
            try:
                os.remove(path)
                os.rmdir(d)
            except OSError:
                pass

    @staticmethod
    def _history_envs(case):
        """contents of the fields at every evaluation (documented effect of each write path)"""
        cur = dict(case["env"])
        envs = [dict(cur)]
        for writes in case["steps"]:
            for k, how, tok in writes:
                if how != "create":                       # create() leaves an existing field alone
                    cur[str(k)] = tok
            envs.append(dict(cur))
        return envs

    def _impl_history(self, case):
        from ioflo.base import needing, acting, storing
        store = storing.Store(stamp=0.0)
        shares = {}

        def share(k):
            path, field = REFS[k]
            if k not in shares:
                sh = store.create(path)
                field = field or "value"
                sh[field] = py(case["env"][str(k)]) if str(k) in case["env"] else 0.0
                shares[k] = (sh, field)
            return shares[k]

        c = case["clause"]
        st, sf = share(c["k"])
        if c["kind"] == "b":
            actor, parms = needing.NeedBoolean(store=store), dict(state=st, stateField=sf)
        elif "lit" in c["goal"]:
            actor = needing.NeedDirect(store=store)
            parms = dict(state=st, stateField=sf, comparison=c["cmp"], goal=py(c["goal"]["lit"]), tolerance=py(c["tol"]))
        else:
            gs, gf = share(c["goal"]["ref"])
            actor = needing.NeedIndirect(store=store)
            parms = dict(state=st, stateField=sf, comparison=c["cmp"], goal=gs, goalField=gf, tolerance=py(c["tol"]))
        act = (acting.Nact if c["neg"] else acting.Act)(actor=actor, parms=parms)

        def ev():
            try:
                r = act()
            except TypeError:
                return "E TypeError"
            except KeyError:
                return "E KeyError"
            return "T" if r is True else "F" if r is False else "? %r" % (r,)

        out = [ev()]
        for writes in case["steps"]:
            for k, how, tok in writes:
                sh, field = share(k)
                v = py(tok)
                if how == "update":
                    sh.update(**{field: v})
                elif how == "change":
                    sh.change(**{field: v})
                elif how == "value":
                    sh.value = v
                elif how == "item":
                    sh[field] = v
                elif how == "create":
                    sh.create(**{field: v})
                elif how == "readd":
                    del sh[field]
                    sh[field] = v
                elif how == "data":
                    sh.data = storing.Data(**{field: v})
                elif how == "data+":
                    sh.data = storing.Data([("extra", 1), (field, v)])
                else:
                    raise core.Infra("bad write " + how)
            out.append(ev())
        return out

    def _inst_env(self, case, i):
        e = dict(case["env"])
        e.update(case["rel"][i])
        return e

    def _impl_guard(self, case):
        store, err = self._run_flo(self.guard_text(case), case)
        if err:
            return err
        reached, r = store.fetch(".out.reached")["value"], store.fetch(".out.r")["value"]
        if (reached, r) == (0, 9):
            return "blocked"
        if (reached, r) == (1, 1):
            return "hit"
        if (reached, r) == (1, 2):
            return "miss"
        return "? reached=%r r=%r" % (reached, r)

    def script_text(self, case):
        parts = [self.cond_text(case["clauses"])]
        return ("house test\n\nframer main be active first start\n   frame start\n      put 0 into .out.r\n"
                "      put 0 into .out.n\n      go f1\n\n   frame f1\n      recur\n      inc .out.n with 1\n"
                "      go hit if %s\n      go miss if .out.n >= %d\n\n   frame hit\n      put 1 into .out.r\n"
                "      bid stop me\n\n   frame miss\n      put 2 into .out.r\n      bid stop me\n"
                % (" and ".join(parts), case["limit"]))

    def _impl_script(self, case):
        from ioflo.base import skedding
        d = os.path.join(core.SCRATCH, "c21-%d" % os.getpid())
        os.makedirs(d, exist_ok=True)
        path = os.path.join(d, "need.flo")
        with open(path, "w") as f:
            f.write(self.script_text(case))
        try:
            sk = skedding.Skedder(name="c21", period=py(case["period"]), real=False, filepath=path)
            if not sk.build():
                return "BUILD-FAILED"
            store = sk.houses[0].store
            for k, tok in case["env"].items():
                p, field = REFS[int(k)]
                sh = store.fetch(p)
                if sh is None:
                    continue                      # not referenced by this script
                sh[field or "value"] = py(tok)
            try:
                sk.run()
            except TypeError:
                return "E TypeError"
            r = store.fetch(".out.r")["value"]
            n = store.fetch(".out.n")["value"]
            return "hit %d" % n if r == 1 else "miss" if r == 2 else "? r=%r n=%r" % (r, n)
        finally:
            try:
                os.remove(path)
                os.rmdir(d)
            except OSError:
                pass

    # ------------------------------------------------------------------ model requests
    @staticmethod
    def _clause_wire(c, m):
        s = "!" if c["neg"] else ""
        if c["kind"] == "a":
            return s + "b:%d" % (20 if c["truth"] else 21)
        if c["kind"] == "b":
            return s + "b:%d" % c["k"]
        g = ("L" + wire(c["goal"]["lit"], m)) if "lit" in c["goal"] else "R%d" % c["goal"]["ref"]
        cmp_ = c["cmp"] if c["cmp"] and not set(c["cmp"]) & set(" :;") else "?"
        return s + "c:%d:%s:%s:%s" % (c["k"], cmp_, g, wire(c["tol"], m))

    @staticmethod
    def _env_wire(env, m):
        env = dict(env)
        env["20"], env["21"] = True, False                 # the two truth values of status / done atoms
        return ";".join("%s=%s" % (k, wire(v, m)) for k, v in sorted(env.items(), key=lambda kv: int(kv[0]))) or "-"

    def requests(self, case):
        m = case.get("mode", "q")
        cl = lambda cs: ";".join(self._clause_wire(c, m) for c in cs) or "-"
        if case["kind"] == "check":
            cmp_ = case["cmp"] if case["cmp"] and " " not in case["cmp"] else "?"
            return ["%s check %s %s %s %s" % (m, wire(case["state"], m), cmp_, wire(case["goal"], m), wire(case["tol"], m))]
        if case["kind"] == "acts":
            return ["%s all %s %s" % (m, self._env_wire(case["env"], m), self._clause_wire(case["clause"], m))]
        if case["kind"] == "history":
            return ["%s all %s %s" % (m, self._env_wire(e, m), self._clause_wire(case["clause"], m))
                    for e in self._history_envs(case)]
        if case["kind"] == "clones":
            return ["%s frame %s %d %s %s" % (m, wire(case["period"], m), case["limit"],
                                              self._env_wire(self._inst_env(case, i), m), cl(case["clauses"]))
                    for i in range(len(case["rel"]))]
        if case["kind"] == "guard":
            return ["%s guarded %s %s %s" % (m, self._env_wire(case["env"], m), cl(case["guard"]), cl(case["clauses"]))]
        return ["%s frame %s %d %s %s" % (m, wire(case["period"], m), case["limit"], self._env_wire(case["env"], m),
                                          cl(case["clauses"]))]

    def model_post(self, case, replies):
        if case["kind"] != "clones":
            return replies
        out = []
        for r in replies:                                 # the instances run one after the other: nothing after a raise
            out.append("-" if out and out[-1] in ("E TypeError", "-") else r)
        return out

    # ------------------------------------------------------------------ oracle
    def _spec_clause(self, c, env):
        def get(k):
            return py(env[str(k)]) if str(k) in env else 0.0
        if c["kind"] == "a":
            r = c["truth"]
        elif c["kind"] == "b":
            r = spec_truthy(get(c["k"]))
        else:
            goal = py(c["goal"]["lit"]) if "lit" in c["goal"] else get(c["goal"]["ref"])
            r = spec_check(get(c["k"]), c["cmp"], goal, py(c["tol"]))
            if r == "TypeError":
                return r
        return (not r) if c["neg"] else r

    def _spec_all(self, clauses, env):
        for c in clauses:
            r = self._spec_clause(c, env)
            if r == "TypeError":
                return r
            if not r:
                return False
        return True

    def _spec_frame(self, clauses, env, period, limit):
        for j in range(1, limit + 1):
            e = dict(env)
            e["0"] = "q:%d/%d" % ((period * j).numerator, (period * j).denominator)
            e["1"] = "i:%d" % j
            r = self._spec_all(clauses, e)
            if r == "TypeError":
                return "E TypeError"
            if r:
                return "hit %d" % j
        return "miss"

    def oracle(self, case, out):
        if case["kind"] == "history":
            envs = self._history_envs(case)
            if len(out) != len(envs):
                return "unexpected output %r" % (out,)
            show = {True: "T", False: "F", "TypeError": "E TypeError"}
            for i, (e, got) in enumerate(zip(envs, out)):
                want = show[self._spec_clause(case["clause"], e)]
                if got != want:
                    return "evaluation %d of `%s` after %s: %s, the written condition on the current contents %s gives %s" % (
                        i, self.cond_text([case["clause"]]), case["steps"][i - 1] if i else "construction", got,
                        {k: py(v) for k, v in e.items()}, want)
            return None
        if case["kind"] == "clones":
            if len(out) != len(case["rel"]):
                return "unexpected output %r" % (out,)
            period = F(py(case["period"]))
            stop = False
            for i, got in enumerate(out):
                want = "-" if stop else self._spec_frame(case["clauses"], self._inst_env(case, i), period, case["limit"])
                if want == "E TypeError":
                    stop = True
                if got != want:
                    return "clone %d of %d, `go hit if %s` with its own operands %s: %s, the written condition gives %s" % (
                        i + 1, len(out), self.cond_text(case["clauses"]),
                        {k: py(v) for k, v in self._inst_env(case, i).items()}, got, want)
            return None
        if len(out) != 1:
            return "unexpected output %r" % (out,)
        got = out[0]
        show = {True: "T", False: "F", "TypeError": "E TypeError"}
        if case["kind"] == "check":
            want = show[spec_check(py(case["state"]), case["cmp"], py(case["goal"]), py(case["tol"]))]
            if got != want:
                return "Check(%r %s %r +- %r) = %s, the written comparison gives %s" % (
                    py(case["state"]), case["cmp"], py(case["goal"]), py(case["tol"]), got, want)
            return None
        if case["kind"] == "acts":
            want = show[self._spec_clause(case["clause"], case["env"])]
            if got != want:
                return "clause %s on %s = %s, the written condition gives %s" % (case["clause"], case["env"], got, want)
            return None
        if case["kind"] == "guard":
            g = self._spec_all(case["guard"], case["env"])
            if g == "TypeError":
                want = "E TypeError"
            elif not g:
                want = "blocked"
            else:
                r = self._spec_all(case["clauses"], case["env"])
                want = "E TypeError" if r == "TypeError" else "hit" if r else "miss"
            if got != want:
                return "%s framer: `let me if %s` / `go hit if %s` with %s: %s, the written conditions give %s" % (
                    "cloned moot" if case["clone"] else "plain aux", self.cond_text(case["guard"]) or "-",
                    self.cond_text(case["clauses"]), {k: py(v) for k, v in case["env"].items()}, got, want)
            return None
        period = F(py(case["period"]))
        want = "miss"
        for j in range(1, case["limit"] + 1):
            env = dict(case["env"])
            env["0"] = "q:%d/%d" % ((period * j).numerator, (period * j).denominator)
            env["1"] = "i:%d" % j
            r = self._spec_all(case["clauses"], env)
            if r == "TypeError":
                want = "E TypeError"
                break
            if r:
                want = "hit %d" % j
                break
        if got != want:
            return "script `%s` with %s: %s, the written condition gives %s" % (
                self.script_text(case).split("go hit if ")[1].split("\n")[0], case["env"], got, want)
        return None

    # ------------------------------------------------------------------ statistics
    def nontrivial(self, case, out):
        if not out or out[0].startswith(("E", "?", "BUILD", "HARNESS")):
            return False
        if case["kind"] == "history":
            return len(set(out)) > 1                      # the result changed along the history
        if case["kind"] == "clones":
            return len(set(out)) > 1                      # the instances behaved differently
        if case["kind"] == "check":
            return case["state"] != case["goal"]
        return True

    def bucket(self, case, out):
        if case["kind"] == "history":
            hows = sorted({w[1] for ws in case["steps"] for w in ws})
            return "history/%s/%s/%s" % (case["mode"], "changes" if len(set(out)) > 1 else "constant",
                                         "record-replaced" if any(h.startswith("data") for h in hows) else "in-place")
        if case["kind"] == "clones":
            kinds = sorted({o.split()[0] for o in out})
            differ = len(set(out)) > 1
            return "clones/%d/%s/%s" % (len(case["rel"]), "instances-differ" if differ else "instances-agree", "+".join(kinds))
        res = out[0].split()[0] if out else "none"
        res = case.get("mode", "q") + "/" + res
        if case["kind"] == "guard":
            neg = any(c["neg"] for c in case["guard"])
            return "guard/%s/%s/%s" % ("clone" if case["clone"] else "plain",
                                        "negated-guard" if neg else "guard" if case["guard"] else "no-guard", res)
        if case["kind"] == "check":
            def t(v):
                v = py(v)
                return "none" if v is None else "bool" if isinstance(v, bool) else "str" if isinstance(v, str) else "num"
            op = case["cmp"] if case["cmp"] in CMPS else "unknown-op"
            return "check/%s/%s-%s/%s" % (op, t(case["state"]), t(case["goal"]), res)
        if case["kind"] == "acts":
            c = case["clause"]
            k = "boolean" if c["kind"] == "b" else ("direct" if "lit" in c["goal"] else "indirect")
            return "acts/%s%s/%s" % ("not-" if c["neg"] else "", k, res)
        clocks = any(c.get("k", 9) < 2 for c in case["clauses"])
        if any(c["kind"] == "a" for c in case["clauses"]):
            return "script/%dclauses/status-or-done/%s" % (len(case["clauses"]), res)
        if any(c.get("re") for c in case["clauses"]):
            return "script/%dclauses/clock-re/%s" % (len(case["clauses"]), res)
        return "script/%dclauses%s/%s" % (len(case["clauses"]), "/clock" if clocks else "", res)

    def shrink_candidates(self, case):
        if case["kind"] == "history":
            for i in range(len(case["steps"])):
                c = dict(case)
                c["steps"] = case["steps"][:i] + case["steps"][i + 1:]
                yield c
            for i, ws in enumerate(case["steps"]):
                for j in range(len(ws)):
                    c = dict(case)
                    c["steps"] = [list(x) for x in case["steps"]]
                    c["steps"][i] = ws[:j] + ws[j + 1:]
                    yield c
            return
        if case["kind"] == "clones":
            if len(case["clauses"]) > 1:
                for i in range(len(case["clauses"])):
                    c = dict(case)
                    c["clauses"] = case["clauses"][:i] + case["clauses"][i + 1:]
                    yield c
            if len(case["rel"]) > 2:
                for i in range(len(case["rel"])):
                    c = dict(case)
                    c["rel"] = case["rel"][:i] + case["rel"][i + 1:]
                    yield c
            return
        if case["kind"] == "guard":
            for key in ("guard", "clauses"):
                if len(case[key]) > (0 if key == "guard" else 1):
                    for i in range(len(case[key])):
                        c = dict(case)
                        c[key] = case[key][:i] + case[key][i + 1:]
                        yield c
            if case["clone"]:
                c = dict(case)
                c["clone"] = False
                yield c
        if case["kind"] == "script" and len(case["clauses"]) > 1:
            for i in range(len(case["clauses"])):
                c = dict(case)
                c["clauses"] = case["clauses"][:i] + case["clauses"][i + 1:]
                yield c
        if case["kind"] in ("script", "acts", "guard"):
            for k in list(case["env"]):
                c = dict(case)
                c["env"] = {a: b for a, b in case["env"].items() if a != k}
                yield c
