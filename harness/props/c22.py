"""C22 — each log rule records exactly the runs and updates it promises.
Model:    lean/IofloModel/Model/LogRules.lean (transcription of ioflo/base/logging.py Log rules + Logger runner)
Theorems: lean/IofloModel/Props/C22.lean
Tie:      real House/Store/Logger/Log objects writing under /verif/.scratch/log/<pid>; the same history of share
          writes and runner controls is sent to the Lean driver (engine 'logrules'); per-control outcome and the
          final contents of every log file are compared line by line.
Oracle:   an idealised logger written from the property text (dirty flag for 'update', last logged values for
          'change', FIFO queues for 'streak'/'deck'), evaluated on the file contents the real code produced.
"""
import os, sys, shutil, atexit, itertools, json, copy
from collections import deque
import core

RULES = ["never", "once", "always", "update", "change", "streak", "deck"]
RULENAME = {"never": "Never", "once": "Once", "always": "Always", "update": "Update", "change": "Change",
            "streak": "Streak", "deck": "Deck"}
ROOT = os.path.join(core.SCRATCH, "log", str(os.getpid()))
_made = [False]


def _cleanup():
    shutil.rmtree(ROOT, ignore_errors=True)
    for d in (os.path.dirname(ROOT), core.SCRATCH):
        try:
            os.rmdir(d)
        except OSError:
            pass


def scratch():
    if not _made[0]:
        os.makedirs(ROOT, exist_ok=True)
        atexit.register(_cleanup)
        _made[0] = True
    return ROOT


# --------------------------------------------------------------------------- value syntax (shared with the driver)

def p_atom(s):
    if s == "N":
        return None
    if s == "T":
        return True
    if s == "F":
        return False
    if s[0] == "i":
        return int(s[1:])
    if s[0] == "s":
        return s[1:]
    raise ValueError(s)


def p_plus(s):
    return [p_atom(x) for x in s.split("+")] if s else []


def p_elem(s):
    """what a queue holds: an atom, U<atom>+<atom>.. a tuple (U alone is ()), V<atom>+.. a list"""
    if s[0] == "U":
        return tuple(p_plus(s[1:]))
    if s[0] == "V":
        return p_plus(s[1:])
    return p_atom(s)


def p_map(s, cls, pv):
    d = cls()
    if s:
        for kv in s.split(","):
            k, v = kv.split("=")
            d[k] = pv(v)
    return d


def p_val(s):
    """a field value: atom, U.. tuple, L<elem>,<elem>.. list, K<elem>,.. collections.deque, D<k>=<atom>,.. dict, Q<k>=<atom>,.. ioflo odict"""
    if s[0] == "L":
        return [p_elem(x) for x in s[1:].split(",")] if len(s) > 1 else []
    if s[0] == "K":
        return deque(p_elem(x) for x in s[1:].split(",")) if len(s) > 1 else deque()
    if s[0] == "U":
        return tuple(p_plus(s[1:]))
    if s[0] == "D":
        return p_map(s[1:], dict, p_atom)
    if s[0] == "Q":
        from ioflo.aid.odicting import odict
        return p_map(s[1:], odict, p_atom)
    return p_atom(s)


def p_entry(s):
    """a deck entry: M<f>=<elem>,.. a mapping; O<elem> / OL<atom>,.. something that is not a mapping"""
    if s[0] == "M":
        from ioflo.aid.odicting import odict
        return p_map(s[1:], odict, p_elem)
    if s[0] == "O":
        if s[1:2] == "L":
            return [p_atom(x) for x in s[2:].split(",")] if len(s) > 2 else []
        return p_elem(s[1:])
    raise ValueError(s)


def loggee_str(lg):
    return "%s:%d:%s" % (lg[0], lg[1], ",".join(lg[2]))


def log_line(lg):
    old = "-" if lg.get("old") is None else str(lg["old"])
    lgs = ";".join(loggee_str(x) for x in lg["loggees"]) or "-"
    return "log %s %s %s %s" % (lg["rule"], lg["base"], old, lgs)


CTL = {"ready": "READY", "start": "START", "run": "RUN", "stop": "STOP", "abort": "ABORT"}


# --------------------------------------------------------------------------- the idealised logger (oracle)

class Spec:
    """The property text as a reference: what each log's file must contain after the history.
    Returns (expected_lines_per_log | None when the property does not speak, notes)."""

    def __init__(self, case):
        self.case = case
        self.stamp = None
        self.shares = {}          # sid -> {"data": dict(field->value) insertion ordered, "deck": [], }
        self.logs = []
        for lg in case["logs"]:
            self.logs.append({"cfg": lg, "fields": {t: list(fs) for t, _, fs in lg["loggees"]},
                              "cols": None, "recs": [], "ran": False, "dirty": False, "last": None,
                              "judge": True, "header": None, "started": False})
        self.refs = []            # the container objects producers took once (None: nothing to take)
        self.probes = []          # what each probe must show
        self.status = "stopped"
        self.nruns = 0
        self.numeric = True       # every run happened at a numeric store stamp

    def share(self, sid):
        return self.shares.setdefault(sid, {"data": {}, "deck": []})

    @staticmethod
    def stamp_text(k):
        return "None" if k is None else repr(k / 8.0)

    def snapshot(self, log):
        cells = []
        for tag, sid, _ in log["cfg"]["loggees"]:
            data = self.share(sid)["data"]
            for f in log["fields"][tag]:
                cells.append(("v", copy.deepcopy(data[f])) if f in data else ("missing",))
        return cells

    @staticmethod
    def cell_text(c):
        return "" if c[0] == "missing" else str(c[1])      # one cell shows one value, whatever its type

    def rec_text(self, cells):
        return self.stamp_text(self.stamp) + "".join("\t" + self.cell_text(c) for c in cells)

    def start(self):
        for log in self.logs:
            cfg = log["cfg"]
            lgs = cfg["loggees"]
            if cfg["rule"] == "streak":
                if lgs:
                    tag, sid, _ = lgs[0]
                    if log["fields"][tag]:
                        log["fields"][tag] = log["fields"][tag][:1]
                    else:
                        log["fields"][tag] = list(self.share(sid)["data"].keys())[:1]
            else:
                for tag, sid, _ in lgs:
                    if not log["fields"][tag]:
                        log["fields"][tag] = list(self.share(sid)["data"].keys())
            if not log["started"]:
                log["started"] = True
                cols = []
                for tag, sid, _ in lgs:
                    fs = log["fields"][tag]
                    cols += ["%s.%s" % (tag, f) for f in fs] if len(fs) > 1 else [tag]
                log["header"] = ["text\t%s\t%s" % (RULENAME[cfg["rule"]], cfg["base"]), "\t".join(["_time"] + cols)]

    def run(self):
        """one logger run: every log, in order"""
        self.nruns += 1
        if self.stamp is None:
            self.numeric = False
        for log in self.logs:
            cfg = log["cfg"]
            rule = cfg["rule"]
            if rule == "never":
                pass
            elif rule == "once":
                if not log["ran"]:
                    log["recs"].append(self.rec_text(self.snapshot(log)))
            elif rule == "always":
                log["recs"].append(self.rec_text(self.snapshot(log)))
            elif rule == "update":
                if not log["ran"] or log["dirty"]:
                    log["recs"].append(self.rec_text(self.snapshot(log)))
                    log["dirty"] = False
            elif rule == "change":
                cells = self.snapshot(log)
                if not log["ran"] or self.differs(cells, log["last"]):
                    log["recs"].append(self.rec_text(cells))
                    log["last"] = cells
            elif rule == "streak":
                if cfg["loggees"]:
                    tag, sid, _ = cfg["loggees"][0]
                    data = self.share(sid)["data"]
                    fs = log["fields"][tag]
                    f = fs[0] if fs else (list(data.keys())[0] if data else None)
                    if data and f is not None and f in data:
                        # every queued element is logged exactly once, as the text of that ONE element
                        if isinstance(data[f], (list, deque)):       # FIFO: left / first to right / last
                            for el in data[f]:
                                log["recs"].append(self.stamp_text(self.stamp) + "\t" + str(el))
                            data[f].clear()          # emptied IN PLACE: it stays the producer's object
                        elif isinstance(data[f], dict):      # a mapping queue holds (key, value) items
                            for k, v in data[f].items():
                                log["recs"].append(self.stamp_text(self.stamp) + "\t" + str((k, v)))
                            data[f].clear()          # emptied IN PLACE
                        else:
                            log["judge"] = False     # not a queue: the property is silent
            elif rule == "deck":
                if cfg["loggees"]:
                    tag, sid, _ = cfg["loggees"][0]
                    sh = self.share(sid)
                    for e in sh["deck"]:
                        if isinstance(e, dict):
                            log["recs"].append(self.stamp_text(self.stamp) + "".join(
                                "\t" + (str(e[f]) if f in e else "") for f in log["fields"][tag]))
                    del sh["deck"][:]                # emptied IN PLACE
            log["ran"] = True

    @staticmethod
    def differs(cells, last):
        if last is None or len(cells) != len(last):
            return True
        for a, b in zip(cells, last):
            if a[0] != b[0]:
                return True
            if a[0] == "v" and a[1] != b[1]:
                return True
        return False

    def op(self, line):
        w = line.split(" ")
        k = w[0]
        if k == "stamp":
            self.stamp = None if w[1] == "none" else int(w[1])
        elif k == "adv":
            if self.stamp is not None:
                self.stamp += int(w[1])
        elif k in ("write", "poke"):
            sid = int(w[1])
            self.share(sid)["data"][w[2]] = p_val(w[3])
            if k == "write":
                for log in self.logs:
                    if any(s == sid for _, s, _ in log["cfg"]["loggees"]):
                        log["dirty"] = True
        elif k == "append":
            d = self.share(int(w[1]))["data"]
            if isinstance(d.get(w[2]), (list, deque)):
                d[w[2]].append(p_elem(w[3]))
        elif k == "setitem":
            d = self.share(int(w[1]))["data"]
            if isinstance(d.get(w[2]), dict):
                d[w[2]][w[3]] = p_atom(w[4])
        elif k == "hold":                 # ref = share[f], taken once
            v = self.share(int(w[1]))["data"].get(w[2])
            self.refs.append((int(w[1]), w[2], v) if isinstance(v, (list, deque, dict)) else None)
        elif k == "happend":
            r = self.refs[int(w[1])] if int(w[1]) < len(self.refs) else None
            if r is not None and isinstance(r[2], (list, deque)):
                r[2].append(p_elem(w[2]))
        elif k == "hsetitem":
            r = self.refs[int(w[1])] if int(w[1]) < len(self.refs) else None
            if r is not None and isinstance(r[2], dict):
                r[2][w[2]] = p_atom(w[3])
        elif k == "probe":
            # the object a producer holds is the share's field value for as long as the PRODUCER does not bind the
            # field to something else; a logger run empties it where it is
            self.probes.append(",".join(
                "void" if r is None else "%d:%d" % (self.share(r[0])["data"].get(r[1]) is r[2], len(r[2]))
                for r in self.refs) or "-")
        elif k == "dprobe":
            self.probes.append("1:%d" % len(self.share(int(w[1]))["deck"]))
        elif k in ("push", "hpush"):
            e = w[2]
            if e[0] == "M":
                self.share(int(w[1]))["deck"].append(p_map(e[1:], dict, p_elem))
            else:
                self.share(int(w[1]))["deck"].append(p_entry(e))
        elif k == "ctl":
            c = w[1]
            if c == "start":
                self.start()
                self.run()
                self.status = "started"
            elif c == "run":
                self.run()
                self.status = "running"
            elif c == "stop":
                if self.status != "stopped":
                    self.run()
                    self.status = "stopped"
            elif c == "ready":
                self.status = "readied"
            elif c == "abort":
                self.status = "aborted"


def clock_ok(ops):
    """the store stamp never goes back (and not to None) once it is numeric"""
    cur = None
    for o in ops:
        w = o.split(" ")
        if w[0] == "stamp":
            if w[1] == "none":
                if cur is not None:
                    return False
            else:
                if cur is not None and int(w[1]) < cur:
                    return False
                cur = int(w[1])
        elif w[0] == "adv" and cur is not None:
            cur += int(w[1])
    return True


def proto_ok(ops):
    """the controls follow the runner protocol: RUN only while started/running, STOP while started/running/stopped"""
    st = "stopped"
    for o in ops:
        if not o.startswith("ctl "):
            continue
        c = o[4:]
        if c == "run" and st not in ("started", "running"):
            return False
        if c == "stop" and st not in ("started", "running", "stopped"):
            return False
        st = {"run": "running", "start": "started", "stop": "stopped", "ready": "readied", "abort": "aborted"}[c]
    return True


# --------------------------------------------------------------------------- the check

def rng_free_fields(q0):
    """the odict queue is named in the field list, the dict queue is found as the share's first field"""
    return ["q"] if q0.startswith("Q") else []


class CHECK(core.Check):
    PROPERTY = "C22"
    LEAN_MODULES = ["IofloModel.Props.C22"]
    ENGINE = "logrules"
    N_QUICK = 300
    N_THOROUGH = 12000
    N_SEARCH = 1500
    RULE = ("histories: 1-3 shares + a queue share, 1-4 logs (every rule; field selections: default-all / subset / "
            "absent field; one to three loggees), ticks with writes placed before and after the logger run of the tick, "
            "producers that fetch the queue object (list / deque / dict / odict field value, the share's deck) ONCE and append "
            "through it across runs next to producers that go through the share each time, references gone stale "
            "because the producer rebound the field, a probe after every run (held object `is` the field value, its "
            "length), START re-sent to a running logger, same-value and unstamped writes, in-place list appends and mapping item assignments, values = int/bool/None/str, "
            "tuples of length 0-3, lists and collections.deques of atoms/tuples/lists, dict and odict; streak queues that are "
            "lists or deques of such "
            "elements or mapping-valued (dict/odict), deck entries with tuple/list-valued fields and non-mapping entries "
            "(None, falsy, tuples, lists), logger periods 1-3 ticks, restarts with writes while "
            "stopped, optional None store stamp, pre-existing files; every 6th case from a malformed stream (controls "
            "out of order, deck without fields, no loggees); plus all single-log histories of length <= 3 (quick) / <= 5 "
            "(thorough) over {write 0, write 1, advance, run} for once/always/update/change and of length <= 2 / <= 4 "
            "over {append x2, push mapping, push non-mapping, advance, run} for streak+deck, of length <= 2 / <= 4 over "
            "{append of a 0/1/2/3-tuple and of a nested list, push of a tuple-valued mapping, advance, run} and over "
            "{three item assignments, advance, run} on an odict and a dict queue, of length <= 2 / <= 3 over {write of a "
            "0/1/2-tuple and an int, advance, run} for always/update/change, of length <= 2 / <= 3-4 over {append / item "
            "assignment through a held reference and through the share, push through a held deck, rebinding the queue "
            "field, taking a new reference, advance, run+probe} on a list, a deque and an odict queue; non-trivial = some log "
            "wrote a record; distinct by case content")
    TRUSTED = ["correspondence: real ioflo House/Store/Share/Logger/Log objects writing under /verif/.scratch/log/<pid> vs "
               "the Lean driver 'logrules' on the same history; per-control outcome (ok / exception name) and the final "
               "contents of every log file compared line by line (os.fsync is stubbed: durability is C23)",
               "the tree is /repo with the fixes D51, D52 (change rule) and D53 (reopen: an empty existing file is new) "
               "applied, and D54 (a tuple-valued field is formatted as one value); the model describes the repaired code",
               "environment assumptions of the history theorems: controls follow the runner protocol (RUN only to a "
               "started/running logger), the store stamp is numeric and never decreases, shares are not stamped in "
               "the future, loggee tags are distinct",
               "CPython: str() of int/str/bool/None/tuple/list/dict, repr of ioflo's odict, and of dyadic floats; text-file "
               "append semantics"]
    PARTIAL = ["C22_update_partial: the update rule equals the ideal dirty-flag logger only for histories without a "
               "stamped write to a loggee after the log already logged at the same store stamp (region "
               "Ioflo.LogRules.lateWrite, known finding D12); C22_update_counterexample proves the full statement false",
               "C22_streak_fifo_once: for a streak log whose field list names the queue field and histories that only "
               "append to it (no write/poke of that field) - a list or a deque - elements being atoms, tuples or lists; C22_streak_mapping_once: "
               "one run on a mapping-valued queue logs every (key, value) item once in insertion order and empties it "
               "and C22_streak_mapping_history lifts it to whole histories (item assignments through the share or a live "
               "reference between runs; reference queue mapQueue); default-field "
               "streaks and non-queue values (logged on every run) are covered by the correspondence only",
               "the rule theorems are about a logger with ONE log (S1); C22_logs_independent carries them to loggers "
               "with any number of logs whose rules do not drain a queue (never/once/always/update/change); loggers "
               "that mix in streak/deck logs are tied to the code by the correspondence only; a change log that watches a list "
               "which a streak log of the same logger drains between prepare and the first record writes a duplicate "
               "first record (not generated, not covered)",
               "object identity is modelled for the references a producer takes of a list / mapping field value (Held: live "
               "or orphaned) and the deck; C22_run_keeps_held_objects: a logger run leaves every reference as it was (the "
               "queue is emptied in place); C22_held_refs_stay_live: over a whole history that does not rebind the field "
               "every reference to it stays live",
               "not modelled: field deletion from a share, binary logs, IOError on open, floats, containers nested deeper "
               "than two levels or with non-string mapping keys, deque.appendleft / maxlen, rotation (C23)"]
    TECHNIQUE = ("Lean 4 theorems by induction over histories with invariants: refinement of an idealised logger "
                 "(dirty flag / last logged values) for update and change, conservation laws for streak and deck, "
                 "counting for once/always, a file-shape invariant for the header; + differential correspondence "
                 "against the running code and an independent Python reference of the property text as oracle")
    LEVEL_TEXT = ("Proof on the model (one log per logger, all histories that follow the runner protocol): never writes "
                  "nothing (unconditional); once exactly one record; always one per run showing the current values; "
                  "change: file equal to that of the ideal logger that compares with the last logged values, restarts "
                  "included (FULL, for the code with fix patches D51+D52+D54); update: equal to the ideal dirty-flag logger "
                  "outside the D12 region (C22_update_partial) and a kernel-checked counterexample inside it "
                  "(C22_update_counterexample, known finding D12); deck: logged ++ pending = initial ++ pushed mappings "
                  "for every history, deck empty after a run; streak: the same for append-only histories on a named "
                  "queue field (elements: atoms, tuples, lists - each logged once as ONE value), and every item of a "
                  "mapping-valued queue logged once per run; elements appended through a reference to the queue object that "
                  "the producer took once count like those appended through the share, and a logger run never rebinds "
                  "a field (the held object stays the field's value and is emptied); exactly one header at the start of a new file, none added to an existing one. The "
                  "model is tied to logging.py by running real Logger/Log objects and the Lean driver on the same "
                  "histories (multi-log loggers, malformed control sequences and exception outcomes included).")
    LEVEL_NOTE = ("Trusted: Lean kernel; axioms propext, Classical.choice, Quot.sound; the hand transcription of "
                  "logging.py (Log rules, prepare, reopen, runner) validated only by the correspondence runs; the "
                  "values are ints/bools/None/short strings, tuples and lists of those, lists of tuples/lists, string-keyed "
                  "dict/odict; stamps multiples of 1/8 s; os.fsync stubbed; "
                  "theorems assume protocol-respecting controls, a numeric non-decreasing store stamp and distinct "
                  "loggee tags. update is PARTIAL (D12).")

    # ---- protocol
    def requests(self, case):
        return (["reset"] + [log_line(l) for l in case["logs"]] + list(case["ops"]) +
                ["dump %d" % i for i in range(len(case["logs"]))] + ["region D12"])

    def model_post(self, case, replies):
        n = 1 + len(case["logs"])
        self._region[core.case_key(case)] = (replies[-1] == "in")     # the Lean predicate `lateWrite`
        return replies[n:-1]

    # ---- implementation adapter
    _n = 0
    _region = {}

    def impl(self, case):
        from ioflo.base import housing, storing, logging, globaling, tasking
        for cls in (housing.House, storing.Store, logging.Logger, logging.Log, tasking.Tasker):
            cls.Clear()
        CHECK._n += 1
        root = os.path.join(scratch(), "c%d" % CHECK._n)
        os.makedirs(root)
        real_fsync = logging.os.fsync
        try:
            # durability is C23's subject; under a loaded disk fsync costs 50 ms a call
            logging.os.fsync = lambda fd: None
            return self._impl(case, root, housing, logging, globaling)
        finally:
            logging.os.fsync = real_fsync
            shutil.rmtree(root, ignore_errors=True)

    def _impl(self, case, root, housing, logging, globaling):
        house = housing.House(name="H")
        store = house.store
        logger = logging.Logger(name="L", store=store, prefix=root, reuse=True, keep=0)
        shares = {}
        refs = []        # container objects the producer fetched once
        decks = {}       # share decks the producer fetched once

        def share(sid):
            if sid not in shares:
                shares[sid] = store.create("s%d" % sid)
            return shares[sid]

        rule_const = {r: getattr(globaling, r.upper()) for r in RULES}
        logs = []
        ldir = os.path.join(root, "H", "L")
        for lg in case["logs"]:
            log = logging.Log(name=lg["base"], store=store, kind="text", baseFilename=lg["base"],
                              rule=rule_const[lg["rule"]])
            for tag, sid, fs in lg["loggees"]:
                log.addLoggee(tag, share(sid), list(fs))
            logger.addLog(log)
            logs.append(log)
            if lg.get("old") is not None:
                os.makedirs(ldir, exist_ok=True)
                with open(os.path.join(ldir, lg["base"] + ".txt"), "w") as f:
                    f.write("".join("old%d\n" % i for i in range(lg["old"])))
        logger.resolve()
        out = []
        for line in case["ops"]:
            w = line.split(" ")
            k = w[0]
            if k == "stamp":
                try:
                    store.changeStamp(None if w[1] == "none" else int(w[1]) / 8.0)
                except TypeError:      # changeStamp(None) sets .stamp = None and re-raises to the writer
                    pass
                out.append("ok")
            elif k == "adv":
                try:
                    store.advanceStamp(int(w[1]) / 8.0)
                except TypeError:      # None stamp: nothing changes, the writer gets the TypeError
                    pass
                out.append("ok")
            elif k == "write":
                share(int(w[1])).update(**{w[2]: p_val(w[3])})
                out.append("ok")
            elif k == "poke":
                share(int(w[1])).change(**{w[2]: p_val(w[3])})
                out.append("ok")
            elif k == "append":
                sh = share(int(w[1]))
                if isinstance(sh.get(w[2]), (list, deque)):
                    sh[w[2]].append(p_elem(w[3]))
                out.append("ok")
            elif k == "setitem":
                sh = share(int(w[1]))
                if isinstance(sh.get(w[2]), dict):
                    sh[w[2]][w[3]] = p_atom(w[4])
                out.append("ok")
            elif k == "push":
                share(int(w[1])).push(p_entry(w[2]))
                out.append("ok")
            elif k == "hold":
                sh = share(int(w[1]))
                v = sh[w[2]] if w[2] in sh else None
                refs.append((sh, w[2], v) if isinstance(v, (list, deque, dict)) else None)
                out.append("ok")
            elif k == "happend":
                r = refs[int(w[1])] if int(w[1]) < len(refs) else None
                if r is not None and isinstance(r[2], (list, deque)):
                    r[2].append(p_elem(w[2]))
                out.append("ok")
            elif k == "hsetitem":
                r = refs[int(w[1])] if int(w[1]) < len(refs) else None
                if r is not None and isinstance(r[2], dict):
                    r[2][w[2]] = p_atom(w[3])
                out.append("ok")
            elif k == "hpush":
                sid = int(w[1])
                if sid not in decks:
                    decks[sid] = share(sid).deck
                decks[sid].append(p_entry(w[2]))
                out.append("ok")
            elif k == "probe":
                out.append(",".join("void" if r is None else
                                    "%d:%d" % ((r[0][r[1]] if r[1] in r[0] else None) is r[2], len(r[2]))
                                    for r in refs) or "-")
            elif k == "dprobe":
                sid = int(w[1])
                dk = decks.get(sid, share(sid).deck)
                out.append("%d:%d" % (dk is share(sid).deck, len(dk)))
            elif k == "ctl":
                try:
                    logger.runner.send(getattr(globaling, CTL[w[1]]))
                    out.append("ok")
                except (AttributeError, KeyError, ValueError, IndexError, StopIteration, TypeError) as ex:
                    out.append("ERR " + type(ex).__name__)
            else:
                out.append("bad-op")
        logger.close()
        for lg in case["logs"]:
            path = os.path.join(ldir, lg["base"] + ".txt")
            if not os.path.exists(path):
                out.append("absent")
            else:
                with open(path) as f:
                    text = f.read()
                if text == "":
                    out.append("empty")
                else:
                    if text.endswith("\n"):
                        text = text[:-1]
                    out.append(text.replace("\n", "\\n"))
        return out

    # ---- oracle
    def failures(self, case, out):
        nops = len(case["ops"])
        if len(out) != nops + len(case["logs"]) or any(o.startswith("HARNESS-EXC") for o in out):
            return [("harness", "adapter failed: %s" % out[:3])]
        if not proto_ok(case["ops"]):
            return []        # RUN/STOP sent to a logger that is not started: outside the runner protocol
        spec = Spec(case)
        for line in case["ops"]:
            spec.op(line)
        if not spec.numeric or not clock_ok(case["ops"]):
            return []        # None or decreasing store stamp: outside the environment the property assumes
        # probes: not control outcomes
        pidx = [i for i, o in enumerate(case["ops"]) if o == "probe" or o.startswith("dprobe ")]
        seen = [out[i] for i in pidx]
        out = [("ok" if i in set(pidx) else o) for i, o in enumerate(out[:nops])] + list(out[nops:])
        if any(o == "ERR TypeError" for o in out[:nops]):
            # no value of any type may kill the logger: what it had taken off its queues is then never logged
            return [("format", "a logger run raised TypeError while writing a record (op %d)" %
                     [o for o in out[:nops]].index("ERR TypeError"))]
        if any(o != "ok" for o in out[:nops]):
            return []        # a control raised: the property speaks about histories the runner survives
        fails = []
        if all(o == "ok" for o in out[:nops]) and seen != spec.probes:
            k = [a == b for a, b in zip(seen, spec.probes)].index(False)
            fails.append(("held", "op %d: the queue objects the producer holds show (is share's value:len) %s, but the "
                          "logger must empty a queue where it is: %s" % (pidx[k], seen[k], spec.probes[k])))
        for i, log in enumerate(spec.logs):
            cfg = log["cfg"]
            dump = out[nops + i]
            lines = [] if dump in ("absent", "empty") else dump.split("\\n")
            nold = cfg.get("old")
            if not log["started"]:
                continue
            if not nold:          # no file, or (fix D53) an existing but empty one: it gets its header
                if lines[:2] != log["header"]:
                    fails.append(("header", "log %d (%s): new file does not start with its header: %r" % (i, cfg["rule"], lines[:2])))
                    continue
                body = lines[2:]
            else:
                if lines[:nold] != ["old%d" % j for j in range(nold)]:
                    fails.append(("header", "log %d: pre-existing content damaged" % i))
                    continue
                body = lines[nold:]
            if any(l.startswith("text\t") for l in body):
                fails.append(("header", "log %d (%s): more than one header" % (i, cfg["rule"])))
                continue
            if not log["judge"]:
                continue
            if body != log["recs"]:
                k = 0
                while k < len(body) and k < len(log["recs"]) and body[k] == log["recs"][k]:
                    k += 1
                fails.append((cfg["rule"], "log %d rule %s: record %d is %r, the rule promises %r (%d records written, %d promised)" % (
                    i, cfg["rule"], k, body[k] if k < len(body) else None,
                    log["recs"][k] if k < len(log["recs"]) else None, len(body), len(log["recs"]))))
        return fails

    def oracle(self, case, out):
        f = self.failures(case, out)
        self._last = (core.case_key(case), f)
        if not f:
            return None
        return "; ".join(m for _, m in f)

    def region(self, finding, case):
        if finding.get("id") != "D12":
            return False
        last = getattr(self, "_last", None)
        if last is None or last[0] != core.case_key(case):
            out = self.safe_impl(case)
            fails = self.failures(case, out)
        else:
            fails = last[1]
        # only failures of update-rule logs can be attributed to D12
        if not fails or any(kind != "update" for kind, _ in fails):
            return False
        k = core.case_key(case)
        if k not in self._region:
            self.model([case])
        return self._region[k]

    # ---- classification
    def nontrivial(self, case, out):
        nops = len(case["ops"])
        for d in out[nops:]:
            if d not in ("absent", "empty"):
                for l in d.split("\\n"):
                    if not l.startswith("text\t") and not l.startswith("_time") and not l.startswith("old"):
                        return True
        return False

    def bucket(self, case, out):
        nops = len(case["ops"])
        tags = []
        if any(o.startswith("ERR") for o in out[:nops]):
            tags.append("err")
        ops = case["ops"]
        if sum(1 for o in ops if o == "ctl start") > 1:
            tags.append("restart")
        if not any(o.startswith("stamp ") and o != "stamp none" for o in ops):
            tags.append("nonestamp")
        tags.append("logs%d" % len(case["logs"]))
        return case.get("kind", "gen") + ":" + ",".join(tags)

    def extra_evidence(self):
        return {}

    # ---- generators
    FIELDS = ["value", "a", "b"]

    def gen_val(self, rng, lists=True):
        r = rng.random()
        if r < 0.55:
            return "i%d" % rng.randrange(3)
        if r < 0.65:
            return rng.choice(["T", "F"])
        if r < 0.72:
            return "N"
        if r < 0.80 or not lists:
            return "s" + rng.choice(["x", "y", "ab"])
        if r < 0.88:
            return rng.choice("LLLK") + ",".join(self.gen_elem(rng) for _ in range(rng.randrange(3)))
        if r < 0.95:
            return self.gen_tuple(rng)
        return self.gen_mapping(rng)

    def gen_atom(self, rng):
        return rng.choice(["i0", "i1", "i2", "T", "F", "N", "sx", "sy", "s"])

    def gen_tuple(self, rng):
        """tuples of length 0 / 1 / 2 / 3"""
        return "U" + "+".join(self.gen_atom(rng) for _ in range(rng.choice([0, 1, 1, 2, 2, 3])))

    def gen_elem(self, rng):
        """a queue element: an atom, a tuple, a nested list"""
        r = rng.random()
        if r < 0.45:
            return self.gen_atom(rng)
        if r < 0.85:
            return self.gen_tuple(rng)
        return "V" + "+".join(self.gen_atom(rng) for _ in range(rng.randrange(3)))

    def gen_mapping(self, rng):
        """a dict / odict value (a mapping-valued queue when it sits in the streak field)"""
        ks = rng.sample(["k", "m", "b", "a"], rng.randrange(4))
        return rng.choice("DQ") + ",".join("%s=%s" % (k, self.gen_atom(rng)) for k in ks)

    def gen_queue(self, rng):
        """initial / replacement content of the queue field: a list of elements or a mapping"""
        if rng.random() < 0.3:
            return self.gen_mapping(rng)
        return rng.choice("LLK") + ",".join(self.gen_elem(rng) for _ in range(rng.randrange(4)))

    def gen_entry(self, rng):
        """a deck entry: mostly mappings (also the empty one), else None / falsy and other non-mappings"""
        r = rng.random()
        if r < 0.6:
            return "M" + ",".join("%s=%s" % (k, self.gen_elem(rng) if rng.random() < 0.3 else self.gen_atom(rng))
                                  for k in rng.sample(["p", "q", "r", "s"], rng.randrange(4)))
        return "O" + rng.choice(["N", "N", "N", "i0", "s", "L", "F", "i7", "sx", "Li1", "T", "U", "Ui1", "Usx+N",
                                 "V", "Vi1"])

    def gen_case(self, rng, malformed=False):
        nsh = rng.choice([1, 1, 2, 2, 3])
        QS = 3                                   # the queue share (streak / deck)
        logs, used = [], set()
        nlogs = rng.choice([1, 1, 2, 3, 4])
        for i in range(nlogs):
            rule = rng.choice(["never", "once", "always", "always", "update", "update", "update", "change", "change",
                               "change", "streak", "deck"])
            lg = {"rule": rule, "base": "f%d" % i, "old": None, "loggees": []}
            if rng.random() < 0.1:
                lg["old"] = rng.randrange(3)
            if rule in ("streak", "deck"):
                fs = []
                if rule == "deck":
                    fs = rng.sample(["p", "q", "r"], rng.choice([1, 2, 2, 3]))
                    if malformed and rng.random() < 0.3:
                        fs = []
                else:
                    fs = rng.choice([[], ["q"], ["q"], ["q", "value"], ["nosuch"]])
                lg["loggees"].append(["x", QS, fs])
                if rng.random() < 0.15:
                    lg["loggees"].append(["y", rng.randrange(nsh), []])
            else:
                tags = ["x", "y", "z"]
                for j in range(rng.choice([1, 1, 1, 2, 2, 3])):
                    sid = rng.randrange(nsh)
                    r = rng.random()
                    if r < 0.45:
                        fs = []
                    elif r < 0.9:
                        fs = rng.sample(self.FIELDS, rng.choice([1, 1, 2, 3]))
                    else:
                        fs = rng.sample(self.FIELDS + ["nosuch"], 2)
                    lg["loggees"].append([tags[j], sid, fs])
                if rule != "change" and rng.random() < 0.15:     # see PARTIAL: change log on a drained queue
                    lg["loggees"].append(["w", QS, rng.choice([[], ["q"]])])
            if malformed and rng.random() < 0.15:
                lg["loggees"] = []
            logs.append(lg)
        ops = []
        r = rng.random()
        if r < 0.9:
            ops.append("stamp %d" % rng.choice([0, 0, 0, 8, 3]))
        elif r < 0.95:
            ops.append("stamp none")
        # initial share contents
        for sid in range(nsh):
            for f in rng.sample(self.FIELDS, rng.choice([0, 1, 1, 2, 3])):
                ops.append("%s %d %s %s" % (rng.choice(["poke", "write"]), sid, f, self.gen_val(rng)))
        if rng.random() < 0.85:
            ops.append("poke %d q %s" % (QS, self.gen_queue(rng)))
        period = rng.choice([1, 1, 1, 2, 3])
        ticks = rng.choice([1, 2, 3, 4, 5, 6, 8])
        started = False
        # producers that fetch their queue object ONCE and go on using it, next to those that go through the share
        nrefs = [0]
        hdeck = rng.random() < 0.4

        def hold(sid, f):
            ops.append("hold %d %s" % (sid, f))
            nrefs[0] += 1

        if rng.random() < 0.6:
            hold(QS, "q")
            if rng.random() < 0.3:
                hold(rng.randrange(nsh), rng.choice(self.FIELDS))
            if rng.random() < 0.2:
                hold(QS, "q")

        def probe():
            if nrefs[0]:
                ops.append("probe")
            if hdeck:
                ops.append("dprobe %d" % QS)

        def writes(n):
            for _ in range(n):
                r = rng.random()
                sid = rng.randrange(nsh)
                if r < 0.6:
                    ops.append("write %d %s %s" % (sid, rng.choice(self.FIELDS), self.gen_val(rng)))
                elif r < 0.72:
                    ops.append("poke %d %s %s" % (sid, rng.choice(self.FIELDS), self.gen_val(rng)))
                elif r < 0.80:
                    # queue one more element: onto a list queue, or as a new / replaced item of a mapping queue
                    # (each is a no-op on the other kind of queue, so both are sent)
                    for _ in range(rng.choice([1, 1, 2])):
                        if nrefs[0] and rng.random() < 0.6:      # through the object taken once
                            i = rng.randrange(nrefs[0])
                            ops.append("happend %d %s" % (i, self.gen_elem(rng)))
                            ops.append("hsetitem %d %s %s" % (i, rng.choice(["k", "m", "n", "a"]), self.gen_atom(rng)))
                        else:                                    # through the share
                            ops.append("append %d q %s" % (QS, self.gen_elem(rng)))
                            ops.append("setitem %d q %s %s" % (QS, rng.choice(["k", "m", "n", "a"]), self.gen_atom(rng)))
                elif r < 0.84:
                    f = rng.choice(self.FIELDS)
                    ops.append("append %d %s %s" % (sid, f, self.gen_elem(rng)))
                    ops.append("setitem %d %s %s %s" % (sid, f, rng.choice(["k", "m"]), self.gen_atom(rng)))
                elif r < 0.88:
                    ops.append("%s %d q %s" % (rng.choice(["poke", "write"]), QS,
                                              rng.choice(["L", "Li1,i2", "i5", "sx", "Ui1+i2", "U", "D", "Qk=i1", "K", "Ki1,Ui2",
                                                          self.gen_queue(rng)])))
                    if rng.random() < 0.5:        # the producer takes the new object (the old reference is stale)
                        hold(QS, "q")
                else:
                    for _ in range(rng.choice([1, 1, 2, 3, 4])):
                        ops.append("%s %d %s" % ("hpush" if hdeck and rng.random() < 0.6 else "push", QS,
                                                 self.gen_entry(rng)))

        if malformed and rng.random() < 0.4:
            ops.append("ctl " + rng.choice(["run", "stop", "ready", "abort"]))
        for t in range(ticks):
            writes(rng.choice([0, 0, 1, 1, 2, 3]))
            if not started:
                ops.append("ctl start")
                started = True
                probe()
            elif t % period == 0:
                # now and then START is sent again to the running logger (another tasker asks for a start)
                ops.append("ctl start" if rng.random() < 0.07 else "ctl run")
                probe()
            writes(rng.choice([0, 0, 0, 1, 1, 2]))
            r = rng.random()
            if r < 0.08 and started:
                ops.append("ctl stop")
                probe()
                writes(rng.choice([0, 1, 2]))
                if rng.random() < 0.5:
                    ops.append("adv 1")
                started = False
            elif malformed and r < 0.2:
                ops.append("ctl " + rng.choice(["run", "stop", "ready", "abort", "start", "run"]))
            if rng.random() < 0.9:
                ops.append("adv %d" % rng.choice([1, 1, 1, 2, 0]))
            elif rng.random() < 0.1:
                ops.append("stamp %s" % rng.choice(["none", "0", "40"]))
        if rng.random() < 0.7 and started:
            ops.append("ctl stop")
        return {"kind": "mal" if malformed else "gen", "logs": logs, "ops": ops}

    def generate(self, rng, n, tier):
        for i in range(n):
            yield self.gen_case(rng, malformed=(i % 6 == 5))

    def exhaustive(self, tier):
        """every history of length <= L over {write 0, write 1, advance, run} after a START at stamp 0, one share with
        one field, one log, for each of the value-driven rules"""
        L = 5 if tier == "thorough" else 3
        if tier == "quick" and os.environ.get("VERIF_FAST"):
            L = 2
        alpha = ["write 0 value i0", "write 0 value i1", "adv 1", "ctl run"]
        for rule in ("once", "always", "update", "change"):
            for n in range(L + 1):
                for seq in itertools.product(alpha, repeat=n):
                    yield {"kind": "exh", "logs": [{"rule": rule, "base": "e", "old": None, "loggees": [["x", 0, []]]}],
                           "ops": ["stamp 0", "poke 0 value i0", "ctl start"] + list(seq) + ["ctl stop"]}
        qa = ["append 3 q i1", "append 3 q N", "push 3 Mp=i1", "push 3 M", "push 3 ON", "push 3 Oi0", "adv 1", "ctl run"]
        for n in range((4 if tier == "thorough" else 3) + 1):
            for seq in itertools.product(qa, repeat=n):
                yield {"kind": "exh", "logs": [{"rule": "streak", "base": "s", "old": None, "loggees": [["x", 3, ["q"]]]},
                                               {"rule": "deck", "base": "d", "old": None, "loggees": [["x", 3, ["p"]]]}],
                       "ops": ["stamp 0", "poke 3 q L", "ctl start"] + list(seq) + ["ctl stop"]}
        # queues of tuples (length 0-3) and nested lists; mapping-valued queues (dict and odict); a tuple-valued
        # field under the value rules
        ta = ["append 3 q U", "append 3 q Ui1", "append 3 q Ui1+sx", "append 3 q Ui1+N+T", "append 3 q Vi1+i2",
              "push 3 Mp=Ui1+i2", "adv 1", "ctl run"]
        ma = ["setitem 3 q b i2", "setitem 3 q a N", "setitem 3 q c sx", "adv 1", "ctl run"]
        Lq = 4 if tier == "thorough" else 2
        for n in range(Lq + 1):
            for seq in itertools.product(ta, repeat=n):
                yield {"kind": "exh", "logs": [{"rule": "streak", "base": "s", "old": None, "loggees": [["x", 3, ["q"]]]},
                                               {"rule": "deck", "base": "d", "old": None, "loggees": [["x", 3, ["p"]]]}],
                       "ops": ["stamp 0", "poke 3 q LUi0+i0", "ctl start"] + list(seq) + ["ctl stop"]}
            for q0 in ("Qa=i1", "D"):
                for seq in itertools.product(ma, repeat=n):
                    yield {"kind": "exh", "logs": [{"rule": "streak", "base": "s", "old": None,
                                                    "loggees": [["x", 3, rng_free_fields(q0)]]}],
                           "ops": ["stamp 0", "poke 3 q " + q0, "ctl start"] + list(seq) + ["ctl stop"]}
        # a producer that keeps the queue object it fetched once (list, odict, the deck), next to one that goes
        # through the share; the producer may also rebind the field itself (then its old reference is stale)
        ha = [["happend 0 i1"], ["hsetitem 0 k i1"], ["append 3 q i2"], ["setitem 3 q m i2"], ["hpush 3 Mp=i3"],
              ["poke 3 q K"], ["hold 3 q"], ["adv 1"], ["ctl run", "probe", "dprobe 3"]]
        for q0 in ("Li0", "Ki0", "Qa=i0"):
            for n in range(((4 if q0 == "Li0" else 3) if tier == "thorough" else 2) + 1):
                for seq in itertools.product(ha, repeat=n):
                    yield {"kind": "exh", "logs": [{"rule": "streak", "base": "s", "old": None, "loggees": [["x", 3, ["q"]]]},
                                                   {"rule": "deck", "base": "d", "old": None, "loggees": [["x", 3, ["p"]]]}],
                           "ops": ["stamp 0", "poke 3 q " + q0, "hold 3 q", "ctl start", "probe", "dprobe 3"] +
                                  [o for grp in seq for o in grp] + ["ctl stop", "probe", "dprobe 3"]}
        va = ["write 0 value U", "write 0 value Ui1", "write 0 value Ui1+i2", "write 0 value i1", "adv 1", "ctl run"]
        for rule in ("always", "update", "change"):
            for n in range((3 if tier == "thorough" else 2) + 1):
                for seq in itertools.product(va, repeat=n):
                    yield {"kind": "exh", "logs": [{"rule": rule, "base": "e", "old": None, "loggees": [["x", 0, []]]}],
                           "ops": ["stamp 0", "poke 0 value Ui1", "ctl start"] + list(seq) + ["ctl stop"]}

    def search(self, rng, n, tier):
        for i in range(n):
            yield self.gen_case(rng, malformed=False)

    def _new_failure(self, cand):
        """cand still fails the oracle with something that is NOT the recorded D12 behaviour (so that shrinking a
        new violation does not drift into the known finding's region)"""
        out = self.safe_impl(cand)
        fails = self.failures(cand, out)
        if not fails:
            return False
        if any(kind != "update" for kind, _ in fails):
            return True
        mo = self.model([cand])[0]
        return not (self._region.get(core.case_key(cand)) and mo == out)

    def shrink_candidates(self, case):
        for c in self._raw_shrink_candidates(case):
            if self._new_failure(c):
                yield c

    def _raw_shrink_candidates(self, case):
        ops = case["ops"]
        for i in range(len(ops)):
            c = dict(case)
            c["ops"] = ops[:i] + ops[i + 1:]
            yield c
        logs = case["logs"]
        if len(logs) > 1:
            for i in range(len(logs)):
                c = dict(case)
                c["logs"] = logs[:i] + logs[i + 1:]
                yield c
        for i, lg in enumerate(logs):
            if len(lg["loggees"]) > 1:
                for j in range(len(lg["loggees"])):
                    c = dict(case)
                    l2 = dict(lg)
                    l2["loggees"] = lg["loggees"][:j] + lg["loggees"][j + 1:]
                    c["logs"] = logs[:i] + [l2] + logs[i + 1:]
                    yield c
